//! loom-shaped facade over shuttle.
pub use shuttle;

pub mod sync {
    pub use shuttle::sync::{Arc, Condvar, Mutex, MutexGuard, RwLock, RwLockReadGuard, RwLockWriteGuard};
    pub mod atomic {
        pub use shuttle::sync::atomic::{AtomicBool, AtomicU32, AtomicU64, AtomicUsize, Ordering};
    }
}

pub mod thread {
    pub use shuttle::thread::{spawn, yield_now, JoinHandle};
}

pub mod future {
    use std::task::Waker;

    /// AtomicWaker with the contract of loom's / futures': a `wake()` that happens after (or during) a
    /// `register` is never lost. Every access is a shuttle scheduling point.
    #[derive(Debug, Default)]
    pub struct AtomicWaker {
        inner: shuttle::sync::Mutex<Option<Waker>>,
    }

    impl AtomicWaker {
        pub fn new() -> Self {
            Self { inner: shuttle::sync::Mutex::new(None) }
        }
        pub fn register_by_ref(&self, waker: &Waker) {
            *self.inner.lock().unwrap() = Some(waker.clone());
        }
        pub fn register(&self, waker: Waker) {
            *self.inner.lock().unwrap() = Some(waker);
        }
        pub fn wake(&self) {
            let w = self.inner.lock().unwrap().take();
            if let Some(w) = w {
                w.wake();
            }
        }
        pub fn take_waker(&self) -> Option<Waker> {
            self.inner.lock().unwrap().take()
        }
    }

    pub fn block_on<F: std::future::Future>(f: F) -> F::Output {
        shuttle::future::block_on(f)
    }
}

/// `loom::model`: here a modest number of random schedules (the crate's own loom tests are not what C12 runs)
pub fn model<F>(f: F)
where
    F: Fn() + Send + Sync + 'static,
{
    shuttle::check_random(f, 20);
}
