//! C12 – no lost wake-ups or credit races between a writer and the connection task.
//! In-crate test module (child of `task`), compiled only in the scratch copy made by /verif/overlay/c12/run.sh with
//! `--cfg loom --cfg penguin_rs_verif`; the crate's own loom shim then makes the credit counter, the finish flag and the
//! writer waker shuttle objects, so every atomic access is a scheduling point.
use crate::config::Options;
use crate::ws::{Message, WebSocket};
use crate::Multiplexor;
use alloc::format;
use alloc::string::{String, ToString};
use alloc::vec;
use alloc::vec::Vec;
use core::task::{Context, Poll, Waker};
use loom::shuttle;
use std::collections::HashSet;
use std::sync::atomic::{AtomicU64, Ordering as StdOrdering};
use std::sync::Mutex as StdMutex;

struct DummyWs;
impl WebSocket for DummyWs {
    fn poll_ready_unpin(&mut self, _cx: &mut Context<'_>) -> Poll<Result<(), crate::Error>> {
        Poll::Ready(Ok(()))
    }
    fn start_send_unpin(&mut self, _item: Message) -> Result<(), crate::Error> {
        Ok(())
    }
    fn poll_flush_unpin(&mut self, _cx: &mut Context<'_>) -> Poll<Result<(), crate::Error>> {
        Poll::Ready(Ok(()))
    }
    fn poll_close_unpin(&mut self, _cx: &mut Context<'_>) -> Poll<Result<(), crate::Error>> {
        Poll::Ready(Ok(()))
    }
    fn poll_next_unpin(&mut self, _cx: &mut Context<'_>) -> Poll<Option<Result<Message, crate::Error>>> {
        Poll::Pending
    }
}

#[derive(Clone, Copy, Debug)]
struct NoClock;
impl crate::timing::TimestampProvider for NoClock {
    fn now() -> Self {
        NoClock
    }
    fn duration_since(&self, _earlier: Self) -> core::time::Duration {
        core::time::Duration::ZERO
    }
}

/// wake-up flag the writer thread blocks on (shuttle-aware, so a lost wake-up is a detected deadlock)
struct Signal {
    flag: shuttle::sync::Mutex<bool>,
    cv: shuttle::sync::Condvar,
    wakes: AtomicU64,
}
impl std::task::Wake for Signal {
    fn wake(self: std::sync::Arc<Self>) {
        self.wake_by_ref();
    }
    fn wake_by_ref(self: &std::sync::Arc<Self>) {
        self.wakes.fetch_add(1, StdOrdering::SeqCst);
        *self.flag.lock().unwrap() = true;
        self.cv.notify_all();
    }
}
impl Signal {
    fn wait(&self) {
        let mut g = self.flag.lock().unwrap();
        while !*g {
            g = self.cv.wait(g).unwrap();
        }
        *g = false;
    }
}

#[derive(Clone, Debug, PartialEq, Eq, Hash, PartialOrd, Ord)]
enum Op {
    Ack(u32),
    Close,
    /// the local half-close (`MuxStream::do_shutdown`, `&self`) performed by the other thread
    Shutdown,
    /// the flow is closed the way the connection task does it: its slot is in the flow table and `Task::close_flow(id, inhibit_rst)`
    /// removes it (`true`: the peer's Reset arrived; `false`: the task gives the flow up itself - the peer overran the window, or the
    /// handle's drop notification arrived) - whatever the reason, a writer waiting for credit has to be woken and fail
    CloseFlow(bool),
}

#[derive(Clone, Debug, PartialEq, Eq, Hash)]
struct Scenario {
    c0: u32,
    /// frames each writer poll-loop wants to send
    want: u32,
    /// number of writer threads (1 or 2, sharing the stream through `&MuxStream`)
    writers: u32,
    ops: Vec<Op>,
}

impl Scenario {
    fn encode(&self) -> String {
        let ops: Vec<String> = self.ops.iter().map(|o| match o { Op::Ack(n) => format!("a{n}"), Op::Close => "c".into(), Op::Shutdown => "s".into(), Op::CloseFlow(i) => format!("f{}", u8::from(*i)) }).collect();
        format!("{}:{}:{}:{}", self.c0, self.want, self.writers, ops.join(","))
    }
    fn decode(s: &str) -> Scenario {
        let p: Vec<&str> = s.split(':').collect();
        let ops = p[3].split(',').filter(|x| !x.is_empty()).map(|x| if x == "c" { Op::Close } else if x == "s" { Op::Shutdown } else if x.starts_with('f') { Op::CloseFlow(x == "f1") } else { Op::Ack(x[1..].parse().unwrap()) }).collect();
        Scenario { c0: p[0].parse().unwrap(), want: p[1].parse().unwrap(), writers: p[2].parse().unwrap(), ops }
    }
    fn grants(&self) -> u32 {
        self.ops.iter().map(|o| if let Op::Ack(n) = o { *n } else { 0 }).sum()
    }
    fn closes(&self) -> bool {
        self.ops.iter().any(|o| matches!(o, Op::Close | Op::CloseFlow(_)))
    }
    fn shuts(&self) -> bool {
        self.ops.contains(&Op::Shutdown)
    }
}

static TRACES: StdMutex<Option<HashSet<u64>>> = StdMutex::new(None);
static RUNS: AtomicU64 = AtomicU64::new(0);
static RUNS_BLOCKED: AtomicU64 = AtomicU64::new(0);

fn record_trace(h: u64, blocked: bool) {
    RUNS.fetch_add(1, StdOrdering::Relaxed);
    if blocked {
        RUNS_BLOCKED.fetch_add(1, StdOrdering::Relaxed);
        TRACES.lock().unwrap().get_or_insert_with(HashSet::new).insert(h);
    }
}

/// One execution of a scenario under whatever schedule shuttle chose.
fn execute(sc: &Scenario) {
    use crate::loom::Ordering;
    let rng = rand::rngs::SmallRng::seed_from_u64(1);
    let (_mux, taskdata) = Multiplexor::new_detailed::<_, NoClock>(DummyWs, Options::new().rwnd(8), rng);
    // the real constructor of a stream and of its connection-task half
    let crate::task::TaskData { task, tx_msg_rx: _keep_rx, dropped_flows_rx: _keep_drx } = taskdata;
    let (stream, stream_data) = task.new_stream_shared(0x1234, sc.c0, bytes::Bytes::new(), 0);
    // scenarios that close the flow through the task keep the task's half where the task keeps it: in the flow table
    let via_table = sc.ops.iter().any(|o| matches!(o, Op::CloseFlow(_)));
    let mut stream_data = Some(stream_data);
    if via_table {
        task.flows.write().insert(0x1234, crate::FlowSlot::Established(stream_data.take().unwrap()));
    }
    let task = std::sync::Arc::new(task);
    let stream = std::sync::Arc::new(stream);
    let sent_total = std::sync::Arc::new(AtomicU64::new(0));
    let trace = std::sync::Arc::new(StdMutex::new(Vec::<u8>::new()));
    let mut handles = vec![];
    // writers == 11: ONE writer whose first parked wait is abandoned (the write future is dropped, e.g. by a timeout) and which
    // goes on from another task, i.e. with a different waker: the waker registered LAST is the one that has to be woken
    let handoff = sc.writers == 11;
    let nthreads = if handoff { 1 } else { sc.writers };
    for w in 0..nthreads {
        let (stream, sent_total, trace, want) = (stream.clone(), sent_total.clone(), trace.clone(), sc.want);
        let multi = sc.writers == 2;
        handles.push(shuttle::thread::spawn(move || {
            let sig = std::sync::Arc::new(Signal { flag: shuttle::sync::Mutex::new(false), cv: shuttle::sync::Condvar::new(), wakes: AtomicU64::new(0) });
            let mut sig = sig;
            let mut waker = Waker::from(sig.clone());
            let mut handed_off = !handoff;
            let mut sent = 0u32;
            let mut blocked = false;
            let mut closed = false;
            while sent < want {
                let cx = Context::from_waker(&waker);
                match stream.poll_obtain_write_permission(&cx) {
                    Poll::Ready(Some(())) => {
                        sent += 1;
                        sent_total.fetch_add(1, StdOrdering::SeqCst);
                        trace.lock().unwrap().push(b'S' + w as u8);
                    }
                    Poll::Ready(None) => {
                        closed = true;
                        trace.lock().unwrap().push(b'N');
                        break;
                    }
                    Poll::Pending => {
                        blocked = true;
                        trace.lock().unwrap().push(b'P');
                        if multi {
                            // two pollers share the stream's single waker slot: they do not wait (only the credit clause is checked)
                            break;
                        }
                        if !handed_off {
                            // the parked write is abandoned; the next poll comes from another task (a fresh waker); wake-ups of the
                            // old waker are of no use to it
                            handed_off = true;
                            sig = std::sync::Arc::new(Signal { flag: shuttle::sync::Mutex::new(false), cv: shuttle::sync::Condvar::new(), wakes: AtomicU64::new(0) });
                            waker = Waker::from(sig.clone());
                            trace.lock().unwrap().push(b'H');
                            continue;
                        }
                        // sleep until woken: a lost wake-up leaves this thread blocked for ever (shuttle: deadlock)
                        sig.wait();
                        trace.lock().unwrap().push(b'W');
                    }
                }
            }
            (sent, blocked, closed)
        }));
    }
    // the "connection task" thread
    let ops = sc.ops.clone();
    let trace2 = trace.clone();
    let stream2 = stream.clone();
    let task2 = task.clone();
    let other = shuttle::thread::spawn(move || {
        for op in ops {
            match op {
                Op::Ack(n) if via_table => {
                    // as `process_frame` does it: look the flow up under the read lock
                    if let Some(crate::FlowSlot::Established(d)) = task2.flows.read().get(&0x1234) {
                        d.acknowledge(n);
                    }
                    trace2.lock().unwrap().push(b'a');
                }
                Op::CloseFlow(inhibit_rst) => {
                    task2.close_flow(0x1234, inhibit_rst);
                    trace2.lock().unwrap().push(b'f');
                }
                Op::Shutdown => {
                    stream2.do_shutdown();
                    trace2.lock().unwrap().push(b's');
                }
                Op::Ack(n) => {
                    stream_data.as_ref().expect("direct mode").acknowledge(n);
                    trace2.lock().unwrap().push(b'a');
                }
                Op::Close => {
                    stream_data.as_mut().expect("direct mode").disallow_write();
                    trace2.lock().unwrap().push(b'c');
                }
            }
        }
        stream_data
    });
    let mut total_sent = 0u32;
    let mut any_blocked = false;
    let mut any_closed = false;
    for h in handles {
        let (sent, blocked, closed) = h.join().unwrap();
        total_sent += sent;
        any_blocked |= blocked;
        any_closed |= closed;
    }
    let _sd = other.join().unwrap();
    // credit conservation: what is left = initial + grants - frames sent; never more frames than credit
    let left = stream.psh_send_remaining.load(Ordering::SeqCst);
    let budget = sc.c0 + sc.grants();
    assert!(total_sent <= budget, "C12-credit: {total_sent} frames sent with only {budget} units of credit ever available (scenario {})", sc.encode());
    assert_eq!(left, budget - total_sent, "C12-credit: credit left {left} != initial {} + grants {} - sent {total_sent} (scenario {})", sc.c0, sc.grants(), sc.encode());
    if !sc.closes() && !sc.shuts() {
        assert!(!any_closed, "C12-close: a writer saw the stream closed although nobody closed it");
        if sc.writers == 1 || sc.writers == 11 {
            assert_eq!(total_sent, sc.want, "C12-progress: writers finished early");
        }
    }
    let t = trace.lock().unwrap().clone();
    let mut h = 0xcbf29ce484222325u64;
    for b in sc.encode().bytes().chain(t.iter().copied()) {
        h = (h ^ b as u64).wrapping_mul(0x100000001b3);
    }
    record_trace(h, any_blocked);
    drop(stream);
}

use rand::SeedableRng;

fn scenarios(thorough: bool) -> Vec<Scenario> {
    let mut v = vec![];
    let acks: &[u32] = if thorough { &[1, 2, 3] } else { &[1, 2] };
    for c0 in 0..=2u32 {
        for want in 1..=3u32 {
            // one writer task per stream: the AsyncWrite API takes `&mut self`, and a single waker slot serves one waiting task
            for writers in 1..=1u32 {
                let need = want * writers;
                // op lists: every list of <= 3 ops over {Ack(n), Close} that guarantees termination
                let alphabet: Vec<Op> = acks.iter().map(|n| Op::Ack(*n)).chain([Op::Close, Op::Shutdown]).collect();
                let mut lists: Vec<Vec<Op>> = vec![vec![]];
                let maxlen = if thorough { 3 } else { 2 };
                for _ in 0..maxlen {
                    let mut next = vec![];
                    for l in &lists {
                        for o in &alphabet {
                            let mut l2 = l.clone();
                            l2.push(o.clone());
                            next.push(l2);
                        }
                    }
                    lists.extend(next.clone());
                    lists.sort();
                    lists.dedup();
                }
                for ops in lists {
                    let sc = Scenario { c0, want, writers, ops };
                    // the writers must be able to finish: enough credit in total, or a close at the very end
                    let enough = sc.c0 + sc.grants() >= need;
                    let closes_last = sc.ops.last() == Some(&Op::Close);
                    // (a local shutdown alone wakes nobody: the writer ends by credit, or by the close that follows)
                    if (enough && !sc.closes()) || closes_last {
                        if sc.ops.iter().filter(|o| **o == Op::Close).count() <= 1 && sc.ops.iter().filter(|o| **o == Op::Shutdown).count() <= 1 {
                            // the hand-off variant (see `execute`) for the scenarios that start without credit
                            if sc.c0 == 0 && sc.want <= 2 {
                                v.push(Scenario { writers: 11, ..sc.clone() });
                            }
                            // the same close performed by the connection task's own `close_flow` (peer Reset / flow given up)
                            if closes_last && sc.ops.len() <= 2 && !sc.shuts() {
                                for inhibit in [false, true] {
                                    let mut ops = sc.ops.clone();
                                    *ops.last_mut().unwrap() = Op::CloseFlow(inhibit);
                                    v.push(Scenario { ops, ..sc.clone() });
                                }
                            }
                            v.push(sc);
                        }
                    }
                }
            }
        }
    }
    // two concurrent pollers of one stream (`poll_write_push` takes `&self`): each polls up to `want` times and never waits,
    // so only the credit clause applies: no frame without a unit of credit, credit left = initial + grants - frames sent
    for c0 in 0..=2u32 {
        for want in 1..=2u32 {
            let alphabet = [Op::Ack(1), Op::Ack(2), Op::Close];
            let mut lists: Vec<Vec<Op>> = vec![vec![]];
            for a in &alphabet {
                lists.push(vec![a.clone()]);
                for b in &alphabet {
                    lists.push(vec![a.clone(), b.clone()]);
                }
            }
            for ops in lists {
                if ops.iter().filter(|o| **o == Op::Close).count() <= 1 {
                    v.push(Scenario { c0, want, writers: 2, ops });
                }
            }
        }
    }
    v
}

fn env(name: &str) -> Option<String> {
    std::env::var(name).ok().filter(|s| !s.is_empty())
}

fn json_escape(s: &str) -> String {
    s.replace('\\', "\\\\").replace('"', "\\\"").replace('\n', "\\n")
}

#[test]
fn verif_c12() {
    std::println!();
    let tier = env("VERIF_TIER").unwrap_or_else(|| "quick".into());
    let thorough = tier == "thorough";
    let seed: u64 = env("VERIF_SEED").and_then(|s| s.parse::<i64>().ok()).map(|x| x as u64).unwrap_or(20_260_924);
    let out_dir = env("VERIF_C12_OUT").unwrap_or_else(|| "/verif".into());
    let t0 = std::time::Instant::now();
    // C03 and C04 quantify over "writers racing with incoming acknowledgements" / "every fair schedule" too: their checks run
    // this exploration in a reduced form and keep the failures that fall under their own statement
    // (C03: credit conservation; C04: a writer that sleeps although credit arrived)
    let prop = env("VERIF_C12_AS").unwrap_or_else(|| "C12".into());
    let reduced = prop != "C12";
    // (C05/C06: a writer waiting for credit when the flow is closed under it - peer abort, Reset, connection end - must be
    // woken and fail with BrokenPipe instead of sleeping for ever)
    let mine = |msg: &str, sc: &Scenario| match prop.as_str() {
        "C03" => msg.contains("C12-credit"),
        "C04" => (msg.contains("deadlock") && !sc.closes()) || msg.contains("C12-progress"),
        "C05" | "C06" => msg.contains("deadlock") && sc.closes(),
        _ => true,
    };

    if let Some(path) = env("VERIF_C12_REPLAY") {
        let text = std::fs::read_to_string(&path).expect("replay file");
        let scenario = text.lines().find_map(|l| l.trim().strip_prefix("\"scenario\": \"")).map(|s| s.trim_end_matches(['"', ',']).to_string()).expect("scenario in replay file");
        let schedule = text.lines().find_map(|l| l.trim().strip_prefix("\"schedule\": \"")).map(|s| s.trim_end_matches(['"', ',']).to_string()).expect("schedule in replay file");
        let sc = Scenario::decode(&scenario);
        std::println!("REPLAY scenario {scenario} schedule {schedule}");
        let sc1 = sc.clone();
        let r = std::panic::catch_unwind(|| shuttle::replay(move || execute(&sc1), &schedule));
        let own = |m: &str| m.contains("C12-") || m.contains("deadlock");
        let mut failed = match r {
            Ok(()) => None,
            Err(p) => Some(p.downcast_ref::<String>().cloned().or_else(|| p.downcast_ref::<&str>().map(|s| (*s).into())).unwrap_or_else(|| "panic".into())),
        };
        if failed.as_deref().is_some_and(|m| !own(m)) {
            // the recorded schedule does not fit this tree's code (different scheduling points): explore the scenario afresh
            std::println!("REPLAY: the recorded schedule does not apply to this tree; exploring the scenario again");
            let sc2 = sc.clone();
            let r = std::panic::catch_unwind(move || {
                shuttle::Runner::new(shuttle::scheduler::RandomScheduler::new_from_seed(seed, 20_000), shuttle::Config::new()).run({ let s = sc2.clone(); move || execute(&s) });
                shuttle::Runner::new(shuttle::scheduler::PctScheduler::new_from_seed(seed, 3, 10_000), shuttle::Config::new()).run(move || execute(&sc2));
            });
            failed = match r {
                Ok(()) => None,
                Err(p) => Some(p.downcast_ref::<String>().cloned().or_else(|| p.downcast_ref::<&str>().map(|s| (*s).into())).unwrap_or_else(|| "panic".into())),
            };
        }
        match failed {
            Some(m) if mine(&m, &sc) => {
                std::println!("REPLAY: violation reproduced: {}", m.lines().next().unwrap_or(""));
                std::println!("VIOLATION property={prop} replay={path}");
                panic!("violation");
            }
            _ => std::println!("REPLAY: pass"),
        }
        return;
    }

    let scs = scenarios(thorough);
    let iters_random = match (reduced, thorough) { (false, true) => 200_000, (false, false) | (true, true) => 24_000, (true, false) => 6_000 };
    let iters_pct = match (reduced, thorough) { (false, true) => 60_000, (false, false) | (true, true) => 9_000, (true, false) => 2_500 };
    let mut violations = 0u32;
    let mut first_msg = String::new();
    let sched_root = format!("{out_dir}/target/c12-schedules");
    std::fs::remove_dir_all(&sched_root).ok();
    std::fs::create_dir_all(&sched_root).ok();
    // scenarios are independent: explored by a pool of OS threads (one shuttle runner each), findings reported in scenario order
    struct Finding {
        k: usize,
        mode: usize,
        msg: String,
        schedule: String,
        s: u64,
    }
    let next = std::sync::atomic::AtomicUsize::new(0);
    let found: StdMutex<Vec<Finding>> = StdMutex::new(vec![]);
    let notes: StdMutex<Vec<(usize, String)>> = StdMutex::new(vec![]);
    let workers = std::thread::available_parallelism().map(|n| n.get()).unwrap_or(4).min(16);
    std::thread::scope(|scope| {
        for _ in 0..workers {
            scope.spawn(|| loop {
                let k = next.fetch_add(1, StdOrdering::SeqCst);
                if k >= scs.len() || found.lock().unwrap().len() >= 8 {
                    return;
                }
                let sc = &scs[k];
                let sched_dir = format!("{sched_root}/{k}");
                for mode in 0..3usize {
                    std::fs::remove_dir_all(&sched_dir).ok();
                    std::fs::create_dir_all(&sched_dir).ok();
                    let mut cfg = shuttle::Config::new();
                    cfg.failure_persistence = shuttle::FailurePersistence::File(Some(sched_dir.clone().into()));
                    let sc2 = sc.clone();
                    let s = seed ^ ((k as u64) << 8) ^ mode as u64;
                    let res = std::panic::catch_unwind(move || match mode {
                        0 => shuttle::Runner::new(shuttle::scheduler::RandomScheduler::new_from_seed(s, iters_random), cfg).run(move || execute(&sc2)),
                        1 => shuttle::Runner::new(shuttle::scheduler::PctScheduler::new_from_seed(s, 2, iters_pct), cfg).run(move || execute(&sc2)),
                        _ => shuttle::Runner::new(shuttle::scheduler::PctScheduler::new_from_seed(s, 3, iters_pct), cfg).run(move || execute(&sc2)),
                    });
                    if let Err(p) = res {
                        let msg = p.downcast_ref::<String>().cloned().or_else(|| p.downcast_ref::<&str>().map(|s| (*s).into())).unwrap_or_else(|| "panic".into());
                        if !mine(&msg, sc) {
                            notes.lock().unwrap().push((k, msg.lines().next().unwrap_or("").to_string()));
                            break;
                        }
                        // the failing schedule was persisted by shuttle
                        let mut schedule = String::new();
                        if let Ok(rd) = std::fs::read_dir(&sched_dir) {
                            for e in rd.flatten() {
                                if let Ok(t) = std::fs::read_to_string(e.path()) {
                                    schedule = t.trim().to_string();
                                }
                            }
                        }
                        found.lock().unwrap().push(Finding { k, mode, msg, schedule, s });
                        break; // next scenario
                    }
                }
                std::fs::remove_dir_all(&sched_dir).ok();
            });
        }
    });
    let mut notes = notes.into_inner().unwrap();
    notes.sort();
    for (k, m) in notes.iter().take(5) {
        std::println!("NOTE scenario {}: a failure outside {prop}'s statement (reported by the C12 check): {m}", scs[*k].encode());
    }
    let mut found = found.into_inner().unwrap();
    found.sort_by_key(|f| f.k);
    for f in found.iter().take(3) {
        let sc = &scs[f.k];
        violations += 1;
        let kind = if f.msg.contains("deadlock") { "lost wake-up: the writer sleeps although credit arrived or the stream was closed (deadlock)" } else { "credit/termination assertion" };
        let replay = format!("{out_dir}/replays/{prop}{}-{}-{:x}.json", if reduced { "-threads" } else { "" }, sc.encode().replace([':', ','], "_"), f.s & 0xffff);
        std::fs::create_dir_all(format!("{out_dir}/replays")).ok();
        let body = format!(
            "{{\n \"property\": \"{prop}\",\n \"section\": \"shuttle\",\n \"scenario\": \"{}\",\n \"scheduler\": \"{}\",\n \"schedule\": \"{}\",\n \"msg\": \"{}\"\n}}\n",
            sc.encode(),
            ["random", "pct-2", "pct-3"][f.mode],
            json_escape(&f.schedule),
            json_escape(&format!("{kind}: {}", f.msg.lines().next().unwrap_or("")))
        );
        std::fs::write(&replay, body).ok();
        std::println!("VIOLATION property={prop} replay={replay}");
        std::println!("  scenario c0:want:writers:ops = {}  [{}]  {kind}: {}", sc.encode(), ["random", "pct-2", "pct-3"][f.mode], f.msg.lines().next().unwrap_or(""));
        if first_msg.is_empty() {
            first_msg = f.msg.clone();
        }
    }
    let mut samples: Vec<String> = vec![];
    for (k, sc) in scs.iter().enumerate() {
        if samples.len() < 6 && k % (scs.len() / 6).max(1) == 0 {
            samples.push(sc.encode());
        }
    }
    let runs = RUNS.load(StdOrdering::Relaxed);
    let blocked = RUNS_BLOCKED.load(StdOrdering::Relaxed);
    let distinct = TRACES.lock().unwrap().as_ref().map(|s| s.len()).unwrap_or(0);
    let wall = t0.elapsed().as_secs_f64();
    let samples_json: Vec<String> = samples.iter().map(|s| format!("{{\"scenario_c0_want_writers_ops\": \"{s}\"}}")).collect();
    let ev = format!(
        "{{\n \"property_id\": \"{prop}\",\n \"tier\": \"{tier}\",\n \"seed\": {},\n \"level\": \"exploration\",\n \"coverage\": {{\n  \"evaluations\": {runs},\n  \"distinct_nontrivial\": {distinct},\n  \"rule\": \"scenarios = initial credit 0..2 x frames wanted 1..3 (one writer thread, polling again after every wake-up) x every list of <= {} operations over {{acknowledge(n), disallow_write (close by the connection task; also performed through the task's own close_flow(id, inhibit_rst) with the flow in the flow table), do_shutdown (local half-close)}} performed by another thread that lets the writers terminate, plus two threads polling the same stream concurrently without waiting (credit clause only; initial credit 0..2 x 1..2 polls each x <= 2 operations) ({} scenarios in total); each scenario explored under shuttle's random scheduler ({iters_random} schedules) and PCT with depth 2 and 3 ({iters_pct} schedules each), seeded from VERIF_SEED; every access to the credit counter, the finish flag and the waker is a scheduling point. evaluations = executions (schedules) run; non-trivial = an execution in which a writer's poll returned Pending (it had to be woken by the other thread); distinct = distinct (scenario, event trace) pairs among those.\",\n  \"samples\": [{}],\n  \"scenarios\": {},\n  \"executions_with_blocked_writer\": {blocked},\n  \"exhaustive\": false\n }},\n \"assumptions\": [\"shuttle explores interleavings at atomic-operation granularity under sequential consistency; reorderings only allowed by the C11 memory model for Relaxed accesses are not explored\", \"the code under test (stream.rs, lib.rs, task.rs) is compiled unmodified from /repo's working tree; only the loom dependency is redirected to a shuttle-backed facade and this test module is added in a scratch copy\", \"the AtomicWaker of the facade is a mutex-protected Option<Waker> with the documented register/wake contract\"],\n \"wall_s\": {:.3},\n \"violations\": {violations}\n}}\n",
        seed as i64,
        if thorough { 3 } else { 2 },
        scs.len(),
        samples_json.join(", "),
        scs.len(),
        wall
    );
    if reduced {
        std::fs::create_dir_all(format!("{out_dir}/target")).ok();
        std::fs::write(format!("{out_dir}/target/{}_threads.json", prop.to_lowercase()), ev).expect("write thread-level summary");
    } else {
        std::fs::create_dir_all(format!("{out_dir}/evidence")).ok();
        std::fs::write(format!("{out_dir}/evidence/C12.json"), ev).expect("write evidence");
    }
    std::println!("RESULT property={prop} section=shuttle tier={tier} seed={seed} evaluations={runs} distinct_nontrivial={distinct} scenarios={} violations={violations} wall={wall:.1}s", scs.len());
    if violations > 0 {
        panic!("{prop} violated: {first_msg}");
    }
    if distinct < 50 {
        std::println!("INCONCLUSIVE property={prop} only {distinct} distinct non-trivial traces");
        std::process::exit(2);
    }
}


// =====================================================================================================
// C07 (thread-level part): flow-id allocation by application threads racing with a Connect from the peer
// =====================================================================================================

struct ScriptRng {
    script: std::collections::VecDeque<u32>,
    state: u64,
}
impl rand::rand_core::TryRng for ScriptRng {
    type Error = core::convert::Infallible;
    fn try_next_u32(&mut self) -> Result<u32, Self::Error> {
        Ok(match self.script.pop_front() {
            Some(x) => x,
            None => {
                self.state = self.state.wrapping_mul(6364136223846793005).wrapping_add(1442695040888963407);
                (self.state >> 33) as u32 | 0x100
            }
        })
    }
    fn try_next_u64(&mut self) -> Result<u64, Self::Error> {
        Ok(u64::from(self.try_next_u32()?))
    }
    fn try_fill_bytes(&mut self, dst: &mut [u8]) -> Result<(), Self::Error> {
        for c in dst.chunks_mut(4) {
            let v = self.try_next_u32()?.to_le_bytes();
            c.copy_from_slice(&v[..c.len()]);
        }
        Ok(())
    }
}

#[derive(Clone, Debug)]
struct AllocScenario {
    script: Vec<u32>,
    openers: usize,
    peer_ids: Vec<u32>,
}

fn alloc_execute(sc: &AllocScenario) {
    use crate::FlowSlot;
    let rng = ScriptRng { script: sc.script.iter().copied().collect(), state: 99 };
    let (mux, taskdata) = Multiplexor::new_detailed::<_, NoClock>(DummyWs, Options::new().rwnd(4).stream_buffer_size(16), rng);
    let crate::task::TaskData { task, mut tx_msg_rx, dropped_flows_rx: _drx } = taskdata;
    let mux = std::sync::Arc::new(mux);
    let task = std::sync::Arc::new(task);
    let mut hs = vec![];
    let keep = std::sync::Arc::new(StdMutex::new(Vec::new()));
    for _ in 0..sc.openers {
        let (mux, keep) = (mux.clone(), keep.clone());
        hs.push(shuttle::thread::spawn(move || {
            let (tx, rx) = tokio::sync::oneshot::channel();
            let id = mux.insert_new_flow(FlowSlot::Requested(tx));
            keep.lock().unwrap().push(rx);
            id
        }));
    }
    let peer_ids = sc.peer_ids.clone();
    let t2 = task.clone();
    let peer = shuttle::thread::spawn(move || {
        for id in peer_ids {
            shuttle::future::block_on(t2.con_recv_new_stream(id, bytes::Bytes::from_static(b"h"), 80, 4)).expect("con_recv_new_stream");
        }
    });
    let ids: Vec<u32> = hs.into_iter().map(|h| h.join().unwrap()).collect();
    peer.join().unwrap();
    // what the endpoint put on the wire for the peer's Connects
    let mut resets = vec![];
    let mut acks = vec![];
    while let Ok(m) = tx_msg_rx.try_recv() {
        if let Message::Binary(b) = m {
            let f = crate::frame::Frame::try_from(b).expect("own frame");
            match f.opcode() {
                crate::frame::OpCode::Reset => resets.push(f.id),
                crate::frame::OpCode::Acknowledge => acks.push(f.id),
                _ => {}
            }
        }
    }
    let mut sorted = ids.clone();
    sorted.sort_unstable();
    sorted.dedup();
    assert!(sorted.len() == ids.len(), "C07-alloc: two concurrent stream requests were given the same flow id: {ids:?} (scenario {sc:?})");
    assert!(!ids.contains(&0), "C07-alloc: flow id 0 handed out: {ids:?}");
    let flows = mux.flows.read();
    for id in &ids {
        assert!(matches!(flows.get(id), Some(FlowSlot::Requested(_))), "C07-alloc: the pending request on flow {id:08x} was disturbed (slot is not Requested any more); ids {ids:?}, peer Connects {:?}, resets {resets:?}, acks {acks:?}", sc.peer_ids);
    }
    for pid in &sc.peer_ids {
        let n_reset = resets.iter().filter(|r| *r == pid).count();
        let n_ack = acks.iter().filter(|r| *r == pid).count();
        let dup = sc.peer_ids.iter().filter(|x| *x == pid).count();
        if *pid == 0 {
            assert!(n_ack == 0 && n_reset == dup, "C07-alloc: Connect with id 0 not rejected");
        } else if ids.contains(pid) {
            assert!(n_ack == 0 && n_reset == dup, "C07-alloc: peer Connect on flow {pid:08x}, which a local request uses, got {n_ack} Acknowledge / {n_reset} Reset (ids {ids:?})");
        } else {
            // free id: the first Connect is acknowledged, a duplicate is rejected
            assert!(n_ack == 1 && n_reset == dup - 1, "C07-alloc: peer Connect on free flow {pid:08x} got {n_ack} Acknowledge / {n_reset} Reset");
            assert!(matches!(flows.get(pid), Some(FlowSlot::Established(_))), "C07-alloc: acknowledged flow {pid:08x} is not established");
        }
    }
    drop(flows);
    RUNS.fetch_add(1, StdOrdering::Relaxed);
    let mut h = 0xcbf29ce484222325u64;
    for b in ids.iter().chain(resets.iter()).chain(acks.iter()) {
        h = (h ^ u64::from(*b)).wrapping_mul(0x100000001b3);
    }
    let collided = sc.peer_ids.iter().any(|p| ids.contains(p));
    if collided {
        RUNS_BLOCKED.fetch_add(1, StdOrdering::Relaxed);
        TRACES.lock().unwrap().get_or_insert_with(HashSet::new).insert(h ^ (sc.script.len() as u64) << 50 ^ (sc.openers as u64) << 60);
    }
}

#[test]
fn verif_c07_alloc() {
    std::println!();
    let tier = env("VERIF_TIER").unwrap_or_else(|| "quick".into());
    let thorough = tier == "thorough";
    let seed: u64 = env("VERIF_SEED").and_then(|s| s.parse::<i64>().ok()).map(|x| x as u64).unwrap_or(20_260_924);
    let out_dir = env("VERIF_C12_OUT").unwrap_or_else(|| "/verif".into());
    let t0 = std::time::Instant::now();
    let mut scs = vec![];
    for openers in 1..=3usize {
        for script in [vec![5u32, 5, 5, 6, 7], vec![0, 5, 0, 5, 6, 6, 7], vec![5, 6, 5, 6, 5, 6, 7, 8], vec![7, 7, 7, 7]] {
            for peer_ids in [vec![5u32], vec![6, 5], vec![0, 5, 5], vec![9]] {
                scs.push(AllocScenario { script: script.clone(), openers, peer_ids });
            }
        }
    }
    let iters = if thorough { 20_000 } else { 2_000 };
    let mut violations = 0;
    let mut first = String::new();
    for (k, sc) in scs.iter().enumerate() {
        for mode in 0..2 {
            let sc2 = sc.clone();
            let s = seed ^ ((k as u64) << 8) ^ mode;
            let res = std::panic::catch_unwind(move || match mode {
                0 => shuttle::Runner::new(shuttle::scheduler::RandomScheduler::new_from_seed(s, iters), shuttle::Config::new()).run(move || alloc_execute(&sc2)),
                _ => shuttle::Runner::new(shuttle::scheduler::PctScheduler::new_from_seed(s, 3, iters / 2), shuttle::Config::new()).run(move || alloc_execute(&sc2)),
            });
            if let Err(p) = res {
                violations += 1;
                let msg = p.downcast_ref::<String>().cloned().or_else(|| p.downcast_ref::<&str>().map(|s| (*s).into())).unwrap_or_else(|| "panic".into());
                let replay = format!("{out_dir}/replays/C07-alloc-{k}-{mode}.json");
                std::fs::create_dir_all(format!("{out_dir}/replays")).ok();
                std::fs::write(&replay, format!("{{\n \"property\": \"C07\",\n \"section\": \"thread-level-allocation\",\n \"scenario\": \"{}\",\n \"msg\": \"{}\"\n}}\n", json_escape(&format!("{sc:?}")), json_escape(msg.lines().next().unwrap_or("")))).ok();
                std::println!("VIOLATION property=C07 replay={replay}");
                std::println!("  section=thread-level-allocation : {}", msg.lines().next().unwrap_or(""));
                if first.is_empty() {
                    first = msg;
                }
                break;
            }
        }
        if violations >= 2 {
            break;
        }
    }
    let runs = RUNS.load(StdOrdering::Relaxed);
    let collided = RUNS_BLOCKED.load(StdOrdering::Relaxed);
    let distinct = TRACES.lock().unwrap().as_ref().map(|s| s.len()).unwrap_or(0);
    std::fs::create_dir_all(format!("{out_dir}/target")).ok();
    std::fs::write(
        format!("{out_dir}/target/c07_alloc.json"),
        format!("{{\"engine\": \"shuttle (random + PCT depth 3) over the crate's lock shim\", \"scenarios\": {}, \"executions\": {runs}, \"executions_with_id_collision\": {collided}, \"distinct_outcomes_with_collision\": {distinct}, \"violations\": {violations}, \"wall_s\": {:.2}, \"what\": \"1-3 application threads allocating flow ids from a scripted generator (repeats, zeros) through insert_new_flow while another thread processes Connect frames from the peer on the same ids: ids distinct and non-zero, pending requests undisturbed, colliding Connects reset, free ones acknowledged once\"}}\n", scs.len(), t0.elapsed().as_secs_f64()),
    )
    .ok();
    std::println!("RESULT property=C07 section=thread-level-allocation executions={runs} with_collision={collided} violations={violations} wall={:.1}s", t0.elapsed().as_secs_f64());
    if violations > 0 {
        panic!("C07 allocation violated: {first}");
    }
}

// ---------------------------------------------------------------------------------------------------------------------------
// C10 (thread level): a stream or bind request whose caller gives up (the future is dropped on an application thread) while the
// connection task, on its own thread, handles the peer's answer to that very request. Whatever the interleaving, the task's frame
// handler must return Ok - an error return ends the connection and every other stream with it - and a bystander flow keeps its slot.

#[derive(Clone, Debug)]
struct AbandonScenario {
    bind: bool,
    /// the peer's frame on the request's flow id: 0 Acknowledge, 1 Finish, 2 Reset, 3 Push
    answer: u8,
    /// a second, identical frame follows (duplicate answer)
    twice: bool,
}

fn abandon_execute(sc: &AbandonScenario) {
    use crate::frame::Frame;
    use crate::FlowSlot;
    let rng = ScriptRng { script: [5u32].into_iter().collect(), state: 99 };
    let (mux, taskdata) = Multiplexor::new_detailed::<_, NoClock>(DummyWs, Options::new().rwnd(4).stream_buffer_size(16).bind_buffer_size(4), rng);
    let crate::task::TaskData { task, tx_msg_rx: _trx, dropped_flows_rx: _drx } = taskdata;
    let mux = std::sync::Arc::new(mux);
    let task = std::sync::Arc::new(task);
    // a bystander stream opened by the peer
    shuttle::future::block_on(task.con_recv_new_stream(77, bytes::Bytes::from_static(b"by"), 1, 4)).expect("bystander");
    // the request, polled once: its slot is in the table and its frame is queued
    let m = mux.clone();
    let bind = sc.bind;
    let mut fut: core::pin::Pin<alloc::boxed::Box<dyn core::future::Future<Output = ()> + Send>> = if bind {
        alloc::boxed::Box::pin(async move {
            let _ = m.request_bind(b"h", 80, crate::frame::BindType::Stream).await;
        })
    } else {
        alloc::boxed::Box::pin(async move {
            let _ = m.new_stream_channel(b"h", 80).await;
        })
    };
    let waker = Waker::noop();
    let mut cx = Context::from_waker(waker);
    assert!(fut.as_mut().poll(&mut cx).is_pending(), "C10-abandon (harness): the request resolved without an answer");
    let id = {
        let flows = mux.flows.read();
        let mut ids: Vec<u32> = flows.iter().filter(|(_, s)| matches!(s, FlowSlot::Requested(_) | FlowSlot::BindRequested(_))).map(|(k, _)| *k).collect();
        assert!(ids.len() == 1, "C10-abandon (harness): expected one pending slot, found {ids:?}");
        ids.pop().unwrap()
    };
    let abandon = shuttle::thread::spawn(move || drop(fut));
    let t2 = task.clone();
    let (answer, twice) = (sc.answer, sc.twice);
    let peer = shuttle::thread::spawn(move || {
        let mk = || match answer {
            0 => Frame::new_acknowledge(id, 4),
            1 => Frame::new_finish(id),
            2 => Frame::new_reset(id),
            _ => Frame::new_push_owned(id, bytes::Bytes::from_static(b"x")),
        };
        let mut results = vec![];
        for _ in 0..(1 + usize::from(twice)) {
            results.push(shuttle::future::block_on(t2.process_frame(mk(), false)).map_err(|e| format!("{e:?}")));
        }
        results
    });
    abandon.join().unwrap();
    let results = peer.join().unwrap();
    for (n, r) in results.iter().enumerate() {
        assert!(r.is_ok(), "C10-abandon: the connection task's frame handler returned {r:?} for frame {n} (scenario {sc:?}): the caller of the request gave up on another thread while the peer's answer was being handled, and the connection ends for every other stream");
    }
    let flows = mux.flows.read();
    assert!(matches!(flows.get(&77), Some(FlowSlot::Established(_))), "C10-abandon: the bystander flow lost its slot (scenario {sc:?})");
    drop(flows);
    RUNS.fetch_add(1, StdOrdering::Relaxed);
}

#[test]
fn verif_c10_abandon() {
    std::println!();
    let tier = env("VERIF_TIER").unwrap_or_else(|| "quick".into());
    let thorough = tier == "thorough";
    let seed: u64 = env("VERIF_SEED").and_then(|s| s.parse::<i64>().ok()).map(|x| x as u64).unwrap_or(20_260_924);
    let out_dir = env("VERIF_C12_OUT").unwrap_or_else(|| "/verif".into());
    let t0 = std::time::Instant::now();
    let mut scs = vec![];
    for bind in [false, true] {
        for answer in 0..4u8 {
            for twice in [false, true] {
                scs.push(AbandonScenario { bind, answer, twice });
            }
        }
    }
    let iters = if thorough { 40_000 } else { 4_000 };
    let mut violations = 0;
    let mut first = String::new();
    for (k, sc) in scs.iter().enumerate() {
        for mode in 0..2 {
            let sc2 = sc.clone();
            let s = seed ^ ((k as u64) << 8) ^ mode;
            let res = std::panic::catch_unwind(move || match mode {
                0 => shuttle::Runner::new(shuttle::scheduler::RandomScheduler::new_from_seed(s, iters), shuttle::Config::new()).run(move || abandon_execute(&sc2)),
                _ => shuttle::Runner::new(shuttle::scheduler::PctScheduler::new_from_seed(s, 3, iters / 2), shuttle::Config::new()).run(move || abandon_execute(&sc2)),
            });
            if let Err(p) = res {
                violations += 1;
                let msg = p.downcast_ref::<String>().cloned().or_else(|| p.downcast_ref::<&str>().map(|s| (*s).into())).unwrap_or_else(|| "panic".into());
                let replay = format!("{out_dir}/replays/C10-abandon-{k}-{mode}.json");
                std::fs::create_dir_all(format!("{out_dir}/replays")).ok();
                std::fs::write(&replay, format!("{{\n \"property\": \"C10\",\n \"section\": \"thread-level-abandon\",\n \"scenario\": \"{}\",\n \"msg\": \"{}\"\n}}\n", json_escape(&format!("{sc:?}")), json_escape(msg.lines().next().unwrap_or("")))).ok();
                std::println!("VIOLATION property=C10 replay={replay}");
                std::println!("  section=thread-level-abandon : {}", msg.lines().next().unwrap_or(""));
                if first.is_empty() {
                    first = msg;
                }
                break;
            }
        }
        if violations >= 2 {
            break;
        }
    }
    let runs = RUNS.load(StdOrdering::Relaxed);
    std::fs::create_dir_all(format!("{out_dir}/target")).ok();
    std::fs::write(
        format!("{out_dir}/target/c10_abandon.json"),
        format!("{{\"engine\": \"shuttle (random + PCT depth 3) over the crate's lock shim\", \"scenarios\": {}, \"executions\": {runs}, \"rule\": \"a stream or bind request is abandoned (future dropped) on an application thread while the connection task handles the peer's Acknowledge / Finish / Reset / Push on its flow id (once or twice) on another thread: the frame handler must return Ok in every interleaving and the bystander flow keeps its slot\", \"violations\": {violations}, \"wall_s\": {:.2}}}", scs.len(), t0.elapsed().as_secs_f64()),
    )
    .ok();
    std::println!("RESULT property=C10 section=thread-level-abandon executions={runs} violations={violations} wall={:.1}s", t0.elapsed().as_secs_f64());
    if violations > 0 {
        panic!("C10 abandon violated: {first}");
    }
}
