#!/usr/bin/env bash
# C12 check: builds penguin-mux from a scratch copy of /repo's working tree with the crate's loom shim pointed at a
# shuttle-backed facade and runs the in-crate test module verif_c12.rs. Nothing in /repo is touched.
#   run.sh quick|thorough [--replay <path>]     run.sh --prebuild
#   run.sh quick|thorough --as C03|C04           reduced run attributed to C03 / C04 (their thread-level part)
#   run.sh quick|thorough --test verif_c07_alloc --property C07
set -u
ROOT=/verif
OV=$ROOT/overlay/c12
# Defaults: /repo's working tree, build output and verdict files under /verif. The overrides exist for tools/automut.py only
# (isolated mutation sweep on scratch copies of the tree; registered checks never set them).
SRC="${VERIF_REPO_SRC:-/repo}"
OUT="${VERIF_OUT_DIR:-$ROOT}"
SCRATCH="${VERIF_C12_SCRATCH:-/var/tmp/vf-c12-scratch}"
export CARGO_NET_OFFLINE=true CARGO_TERM_COLOR=never RUST_BACKTRACE=0
export CARGO_TARGET_DIR="${VERIF_C12_TARGET:-$ROOT/target/c12}"
# the repository's release profile uses LTO with one codegen unit (minutes per build); not needed here
export CARGO_PROFILE_RELEASE_LTO=false CARGO_PROFILE_RELEASE_CODEGEN_UNITS=16 CARGO_PROFILE_RELEASE_STRIP=false CARGO_PROFILE_RELEASE_DEBUG_ASSERTIONS=false
mkdir -p "$ROOT/target" "$OUT/target" "$OUT/evidence" "$OUT/replays"
TIER=quick; REPLAY=""; PREBUILD=0; TESTNAME=verif_c12::verif_c12; PROP=C12
while [ $# -gt 0 ]; do
  case "$1" in
    quick|thorough) TIER=$1 ;;
    --replay) REPLAY=$2; shift ;;
    --prebuild) PREBUILD=1 ;;
    --test) TESTNAME=$2; shift ;;
    --property) PROP=$2; shift ;;
    --as) PROP=$2; export VERIF_C12_AS=$2; shift ;;
  esac
  shift
done
exec 9>"$OUT/target/.c12.lock"; flock 9
cleanup() { rm -rf "$SCRATCH"; }
trap cleanup EXIT
rm -rf "$SCRATCH"; mkdir -p "$SCRATCH"
# sources only (mtimes preserved so that the cached build output in $CARGO_TARGET_DIR stays valid)
rsync -a --exclude target --exclude .git --exclude fuzz "$SRC/" "$SCRATCH/"
cd "$SCRATCH" || exit 3
# drop the fuzz member (not copied) and point the loom dependency at the facade
sed -i 's/, "fuzz"\]/]/' Cargo.toml
python3 - <<PY || exit 3
import re
p='$SCRATCH/penguin-mux/Cargo.toml'; s=open(p).read()
s2=re.sub(r"loom = \{[^}]*\}", 'loom = { path = "$OV/loom-shuttle" }', s)
assert s2!=s, "loom dependency line not found"
open(p,'w').write(s2)
p='$SCRATCH/penguin-mux/src/task.rs'; s=open(p).read()
s+='\n#[cfg(all(test, loom, penguin_rs_verif))]\n#[path = "$OV/verif_c12.rs"]\nmod verif_c12;\n'
open(p,'w').write(s)
PY
# keep the original mtimes of the two edited files so that an unchanged tree is not rebuilt
touch -r "$SRC/penguin-mux/Cargo.toml" "$SCRATCH/penguin-mux/Cargo.toml"; touch -r "$SRC/penguin-mux/src/task.rs" "$SCRATCH/penguin-mux/src/task.rs"; touch -r "$SRC/Cargo.toml" "$SCRATCH/Cargo.toml"
LOG=$(mktemp "$OUT/target/.c12.XXXXXX.log")
export RUSTFLAGS="--cfg loom --cfg penguin_rs_verif -A warnings"
if [ $PREBUILD -eq 1 ]; then
  cargo test -p penguin-mux --lib --release --no-default-features --features std,tokio --no-run >"$LOG" 2>&1; rc=$?
  [ $rc -ne 0 ] && { echo "BUILD-FAILED C12 overlay"; grep -E "^error" -A 8 "$LOG" | head -60; rm -f "$LOG"; exit 3; }
  rm -f "$LOG"; exit 0
fi
if ! cargo test -p penguin-mux --lib --release --no-default-features --features std,tokio --no-run >"$LOG" 2>&1; then
  echo "BUILD-FAILED property=$PROP: the overlay does not build against the current /repo tree"
  grep -E "^error" -A 8 "$LOG" | head -60
  rm -f "$LOG"; exit 3
fi
if [ "$TIER" = thorough ]; then WD="${VERIF_WATCHDOG:-7200}"; else WD="${VERIF_WATCHDOG:-1200}"; fi
VERIF_TIER=$TIER VERIF_C12_REPLAY="$REPLAY" VERIF_C12_OUT=$OUT timeout --signal=KILL "$WD" \
  cargo test -p penguin-mux --lib --release --no-default-features --features std,tokio "$TESTNAME" -- --nocapture --test-threads 1 >"$LOG" 2>&1
rc=$?
grep -E "^(VIOLATION|RESULT|REPLAY|INCONCLUSIVE|KNOWN-FINDING|  scenario)" "$LOG"
if [ $rc -eq 137 ]; then echo "INCONCLUSIVE property=$PROP watchdog expired"; rm -f "$LOG"; exit 2; fi
if grep -q "^VIOLATION property=$PROP" "$LOG"; then rm -f "$LOG"; exit 1; fi
if grep -q "^INCONCLUSIVE" "$LOG"; then rm -f "$LOG"; exit 2; fi
if [ $rc -ne 0 ]; then echo "$PROP overlay test run failed without a verdict:"; tail -30 "$LOG"; rm -f "$LOG"; exit 3; fi
rm -f "$LOG"; exit 0
