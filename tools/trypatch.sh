#!/usr/bin/env bash
# trypatch.sh <patch.diff> <check ids...> : apply a patch to /repo under the tools' lock, run the quick tiers, revert. Evidence and replays of
# the unchanged tree are preserved.
P=$1; shift
exec 8>/var/tmp/verif-repo.lock; flock 8
EVBAK=$(mktemp -d /var/tmp/evidence.bak.XXXXXX); cp -a /verif/evidence/. "$EVBAK/"; ls /verif/replays > "$EVBAK.replays"
git -C /repo apply "$P" || { echo "patch does not apply"; exit 1; }
for c in "$@"; do
  /verif/check "$c" quick 2>&1 | grep -aE "^(RESULT|VIOLATION|BUILD|  section)" | cut -c1-500 | head -4
done
git -C /repo checkout -- .
cp -a "$EVBAK/." /verif/evidence/; rm -rf "$EVBAK"
for f in $(ls /verif/replays | grep -vxFf "$EVBAK.replays"); do rm -f "/verif/replays/$f"; done; rm -f "$EVBAK.replays"
