#!/usr/bin/env bash
# neutral_rerun.sh : applies every behaviour-preserving patch kept in /verif/neutral/<area>/ to /repo in turn and runs the quick checks of
# its area (expected: all silent); appends to /verif/neutral/<area>/results.txt with the tag given as $1
TAG="${1:-rerun}"
declare -A CHECKS=( [N1]="C02 C03 C04 C05 C06 C07 C08 C10 C11 C13 C15 C16" [N2]="C02 C03 C04 C05 C06 C07 C08 C10 C11 C12 C13 C15" [N3]="C13 C02 C03 C04 C05" [N4]="C09 C20 C11 C02 C10" [N5]="C18 C01" [N6]="C14 C17 C19" [N7]="C19 C16 C01" [N8]="C01 C13" )
for A in N1 N2 N3 N4 N5 N6 N7 N8; do
  for p in /verif/neutral/$A/patch*.diff; do
    n=$(basename "$p" .diff)
    exec 8>/var/tmp/verif-repo.lock; flock 8
    EVBAK=$(mktemp -d /var/tmp/evidence.bak.XXXXXX); cp -a /verif/evidence/. "$EVBAK/"; ls /verif/replays > "$EVBAK.replays"
    if ! git -C /repo apply "$p"; then echo "$A/$n: does not apply"; flock -u 8; continue; fi
    res=""
    for c in ${CHECKS[$A]}; do
      out=$(/verif/check "$c" quick 2>&1); rc=$?
      res="$res $c=$rc"
      if [ $rc -ne 0 ]; then echo "$out" | grep -aE "^(VIOLATION|  section|  scenario|INCONCLUSIVE|BUILD|error)" | head -4 | cut -c1-700; fi
    done
    git -C /repo checkout -- .
    cp -a "$EVBAK/." /verif/evidence/; rm -rf "$EVBAK"
    for f in $(ls /verif/replays | grep -vxFf "$EVBAK.replays"); do mkdir -p /var/tmp/neutral-replays; mv "/verif/replays/$f" /var/tmp/neutral-replays/; done; rm -f "$EVBAK.replays"
    flock -u 8
    echo "$A/$n ($TAG):$res"
    echo "$A/$n ($TAG):$res" >> "/verif/neutral/$A/results.txt"
  done
done
