#!/usr/bin/env bash
# Which production lines of /repo do the quick tiers execute?  (generator-reach measurement, not a check)
# Builds the harness with -C instrument-coverage (nightly, llvm-tools) in a scratch directory, runs the quick tier of every
# simnet / pure / app check with its verdict files redirected, and prints per anchored file the line coverage and the
# production lines never executed. Scratch: /var/tmp/vf-cov (removed at the end unless KEEP=1).
#   coverage.sh [ids...]          default: all checks except C12 (overlay)
set -u
S=/var/tmp/vf-cov
BIN=/root/.rustup/toolchains/nightly-x86_64-unknown-linux-gnu/lib/rustlib/x86_64-unknown-linux-gnu/bin
IDS="${*:-C09 C18 C20 C02 C03 C04 C05 C06 C07 C08 C10 C11 C13 C15 C16 C14 C17 C19 C01}"
mkdir -p $S/out/target $S/prof
export CARGO_NET_OFFLINE=true RUST_BACKTRACE=0 VERIF_OUT_DIR=$S/out VERIF_TIER=quick VERIF_COV_DIVISOR="${VERIF_COV_DIVISOR:-40}"
cd /verif/harness || exit 3
RUSTFLAGS="-C instrument-coverage" CARGO_TARGET_DIR=$S/target cargo +nightly build --release 2>&1 | tail -2
crate_of() { case "$1" in C09|C18|C20) echo vf-pure;; C01|C14|C17|C19) echo vf-app;; *) echo vf-sim;; esac; }
for id in $IDS; do
  c=$(crate_of $id)
  LLVM_PROFILE_FILE="$S/prof/$id-%p-%m.profraw" timeout 1800 $S/target/release/$c $id --tier quick 2>&1 | grep -E "^(RESULT|VIOLATION)" | tail -1
done
$BIN/llvm-profdata merge -sparse $S/prof/*.profraw -o $S/all.profdata || exit 3
OBJS=""; for c in vf-pure vf-sim vf-app; do OBJS="$OBJS -object $S/target/release/$c"; done
$BIN/llvm-cov export -format=lcov -instr-profile=$S/all.profdata $OBJS --ignore-filename-regex='(\.cargo|rustc|/verif/)' > $S/cov.lcov 2>/dev/null
python3 - $S/cov.lcov <<'PY'
import sys,re,collections
cur=None; cov=collections.defaultdict(dict)
for l in open(sys.argv[1]):
    l=l.strip()
    if l.startswith('SF:'): cur=l[3:]
    elif l.startswith('DA:'):
        n,c=l[3:].split(',')[:2]; n=int(n); c=int(c)
        cov[cur][n]=max(cov[cur].get(n,0),c)
print('| file | lines instrumented (production part) | executed | % |'); print('|---|---|---|---|')
report=[]
for f in sorted(cov):
    if not f.startswith('/repo/'): continue
    src=open(f).read()
    cut=len(src.split('\n'))
    m=re.search(r'#\[cfg\((all\()?test[^\]]*\]\s*\n(pub(\(crate\))? )?mod \w+ \{', src)
    if m: cut=src[:m.start()].count('\n')+1
    lines={n:c for n,c in cov[f].items() if n<cut}
    if not lines: continue
    ex=sum(1 for c in lines.values() if c>0)
    print(f'| {f[6:]} | {len(lines)} | {ex} | {100*ex//len(lines)} |')
    sl=src.split('\n')
    miss=[n for n,c in sorted(lines.items()) if c==0]
    report.append((f,miss,sl))
print()
for f,miss,sl in report:
    if not miss: continue
    print('==',f[6:],len(miss),'lines never executed')
    for n in miss: print(f'   {n:5} {sl[n-1][:140]}')
PY
[ "${KEEP:-0}" = 1 ] || rm -rf $S
