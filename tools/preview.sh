#!/usr/bin/env bash
# preview.sh <patch> <check ids...> : apply a patch to /repo, run the quick checks, revert (evidence preserved)
P=$1; shift
exec 8>/var/tmp/verif-repo.lock; flock 8
EVBAK=$(mktemp -d /var/tmp/evidence.bak.XXXXXX); cp -a /verif/evidence/. "$EVBAK/"
git -C /repo apply "$P" || { echo "patch does not apply"; exit 1; }
for c in "$@"; do
  out=$(/verif/check "$c" quick 2>&1); rc=$?
  echo "$c rc=$rc"; echo "$out" | grep -E "^(VIOLATION|  section|  scenario|INCONCLUSIVE|BUILD)" | head -3 | cut -c1-500
done
git -C /repo checkout -- .
cp -a "$EVBAK/." /verif/evidence/; rm -rf "$EVBAK"
