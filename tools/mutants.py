#!/usr/bin/env python3
"""Sensitivity runs: apply one small semantic mutation to /repo's working tree, run the listed checks (quick tier),
revert. A check is expected to exit 1 (VIOLATION) on its mutants. Usage: mutants.py [name-substring ...]
Never leaves /repo modified (git checkout -- . in a finally block)."""
import subprocess, sys, json, time, os, fcntl

M = []
def mut(name, file, old, new, checks):
    M.append(dict(name=name, file=file, old=old, new=new, checks=checks))

# ---- frame codec (C09)
mut("frame-port-little-endian", "penguin-mux/src/frame.rs", "                encoded.put_u32(*rwnd);\n                encoded.put_u16(*target_port);", "                encoded.put_u32(*rwnd);\n                encoded.put_u16_le(*target_port);", ["C09"])
mut("frame-bind-accept-type2", "penguin-mux/src/frame.rs", "            3 => Ok(Self::Datagram),\n            other => Err(Error::InvalidBindType(other)),", "            3 | 2 => Ok(Self::Datagram),\n            other => Err(Error::InvalidBindType(other)),", ["C09"])
mut("frame-ack-check-off-by-one", "penguin-mux/src/frame.rs", "                check_remaining!(data, size_of::<u32>());\n                let psh_recvd_since", "                check_remaining!(data, size_of::<u32>() + 1);\n                let psh_recvd_since", ["C09"])
mut("frame-vectored-drop-last-chunk", "penguin-mux/src/frame.rs", "                for data in vec {\n                    encoded.extend(data.as_ref());\n                }", "                for data in vec.iter().take(3) {\n                    encoded.extend(data.as_ref());\n                }", ["C09", "C02"])
# ---- cow-bytes (C20)
mut("chain-pop-forgets-len", "cow-bytes/src/pbuf.rs", "        if let Some(elem) = &elem {\n            self.total_remaining_len -= elem.len();\n        }", "        if let Some(elem) = &elem {\n            self.total_remaining_len -= elem.len().min(1);\n        }", ["C20"])
mut("chain-advance-leaves-empty-head", "cow-bytes/src/pbuf.rs", "            if next.remaining() == 0 {\n                self.data.remove(0);\n            }", "            if next.remaining() == 0 && cnt > 0 {\n                self.data.remove(0);\n            }", ["C20"])
mut("cow-eq-bytes-by-len", "cow-bytes/src/lib.rs", "    fn eq(&self, other: &&[u8; N]) -> bool {\n        self.as_ref() == *other\n    }", "    fn eq(&self, other: &&[u8; N]) -> bool {\n        self.as_ref().len() == N && self.as_ref()[..N.min(2)] == other[..N.min(2)]\n    }", ["C20"])
# ---- socks (C18)
mut("socks5-ipv6-port-swapped", "penguin-socks/src/v5.rs", "    buf[len - 2..len].copy_from_slice(&port.to_be_bytes());", "    buf[len - 2..len].copy_from_slice(&port.to_le_bytes());", ["C18"])
mut("socks5-udp-frag-ignored", "penguin-socks/src/v5.rs", "    if frag != 0 {\n        return Err(Error::FragmentedUdp);\n    }", "    if frag > 1 {\n        return Err(Error::FragmentedUdp);\n    }", ["C18"])
mut("socks5-domain-len-off", "penguin-socks/src/v5.rs", "            if buf.remaining() < len + 2 {", "            if buf.remaining() < len + 1 {", ["C18"])
# ---- mux stream semantics
mut("credit-from-own-rwnd", "penguin-mux/src/task.rs", "        let psh_send_remaining = Arc::new(AtomicU32::new(peer_rwnd));", "        let psh_send_remaining = Arc::new(AtomicU32::new(self.rwnd));", ["C03", "C07"])
mut("ack-one-too-many", "penguin-mux/src/stream.rs", "                .send(Frame::new_acknowledge(self.flow_id, new).into())", "                .send(Frame::new_acknowledge(self.flow_id, new + 1).into())", ["C03"])
mut("ack-counter-not-reset", "penguin-mux/src/stream.rs", "            // Reset the counter\n            self.psh_recvd_since = 0;", "            // Reset the counter\n            self.psh_recvd_since = new - 1;", ["C03", "C04"])
mut("consume-drops-remainder", "penguin-mux/src/stream.rs", "            self.buf.advance(amt);", "            if amt > 0 { let l = self.buf.len(); self.buf.advance(if l > 4000 { l } else { amt }); }", ["C02"])
mut("finish-closes-both-directions", "penguin-mux/src/task.rs", "                        if stream_data.disallow_read().is_none() {\n                            warn!(\"Duplicate `Finish` frame\");\n                        }", "                        if stream_data.disallow_read().is_none() {\n                            warn!(\"Duplicate `Finish` frame\");\n                        }\n                        stream_data.disallow_write();", ["C05"])
mut("shutdown-does-not-block-writes", "penguin-mux/src/stream.rs", "        if self.finish_sent.swap(true, Ordering::AcqRel) {\n            return Some(());\n        }", "        if self.finish_sent.swap(false, Ordering::AcqRel) {\n            return Some(());\n        }", ["C05"])
mut("threshold-not-capped", "penguin-mux/src/task.rs", "            rwnd_threshold: self.default_rwnd_threshold.min(peer_rwnd).min(self.rwnd),", "            rwnd_threshold: self.default_rwnd_threshold,", ["C04"])
mut("no-reset-on-drop", "penguin-mux/src/task.rs", "                if !finish_sent && !inhibit_rst {", "                if !finish_sent && !inhibit_rst && flow_id % 2 == 0 {", ["C06", "C05"])
mut("slot-kept-after-finished-drop", "penguin-mux/src/task.rs", "            self.close_flow(flow_id, false);\n        }\n        // None: only happens", "            if self.flows.read().get(&flow_id).is_some_and(|s| matches!(s, FlowSlot::Established(d) if d.sender.is_none())) { continue; }\n            self.close_flow(flow_id, false);\n        }\n        // None: only happens", ["C06"])
mut("reply-reset-with-reset", "penguin-mux/src/task.rs", "            Payload::Reset => self.close_flow(flow_id, true),", "            Payload::Reset => self.close_flow(flow_id, false),", ["C10", "C06"])
mut("connect-swaps-host-port-byte", "penguin-mux/src/task.rs", "                    target_host.into_static(),\n                    target_port,", "                    target_host.into_static(),\n                    target_port.swap_bytes(),", ["C07"])
mut("retry-loop-off-by-one", "penguin-mux/src/lib.rs", "        while retries_left > 0 {\n            retries_left -= 1;", "        while retries_left > 1 {\n            retries_left -= 1;", ["C07"])
mut("allow-zero-flow-id-connect", "penguin-mux/src/task.rs", "            if streams.contains_key(&flow_id) || flow_id == 0 {", "            if streams.contains_key(&flow_id) {", ["C07", "C10"])
mut("datagram-host-check-ge", "penguin-mux/src/lib.rs", "        if datagram.target_host.len() > 255 {", "        if datagram.target_host.len() >= 255 {", ["C11"])
mut("datagram-blocking-send", "penguin-mux/src/task.rs", "                if let Err(e) = self.datagram_tx.try_send(datagram) {\n                    match e {\n                        TrySendError::Full(_) => warn!(\"Dropped datagram: {e}\"),\n                        TrySendError::Closed(_) => return Err(Error::Closed),\n                    }\n                }", "                if self.datagram_tx.send(datagram).await.is_err() {\n                    return Err(Error::Closed);\n                }", ["C11", "C04"])
mut("bind-finish-reset-swapped", "penguin-mux/src/lib.rs", "        if accepted {\n            self.tx_msg_tx.send(Frame::new_finish(self.flow_id).into())\n        } else {\n            self.tx_msg_tx.send(Frame::new_reset(self.flow_id).into())\n        }", "        if !accepted {\n            self.tx_msg_tx.send(Frame::new_finish(self.flow_id).into())\n        } else {\n            self.tx_msg_tx.send(Frame::new_reset(self.flow_id).into())\n        }", ["C15"])
mut("bind-slot-not-removed-on-finish", "penguin-mux/src/task.rs", "                        let Some(FlowSlot::BindRequested(sender)) = flows.remove(&flow_id) else {\n                            unreachable!();\n                        };\n                        drop(flows);\n                        sender.send(true).ok();", "                        let Some(FlowSlot::BindRequested(sender)) = flows.remove(&flow_id) else {\n                            unreachable!();\n                        };\n                        let (tx2, _rx2) = oneshot_dummy();\n                        flows.insert(flow_id, FlowSlot::BindRequested(tx2));\n                        drop(flows);\n                        sender.send(true).ok();", ["C15"])

EXTRA_FILE = '/verif/tools/mutants_extra.py'
if os.path.exists(EXTRA_FILE):
    exec(open(EXTRA_FILE).read())

def sh(cmd, **kw):
    return subprocess.run(cmd, shell=True, capture_output=True, text=True, **kw)

def main():
    sel = sys.argv[1:]
    results = []
    # the evidence files of the unchanged tree must survive the mutant runs
    for m in M:
        if sel and not any(s in m['name'] for s in sel):
            continue
        path = '/repo/' + m['file']
        # one user of /repo's working tree at a time (seeded.sh / preview.sh / runall.sh take the same lock)
        lock = open('/var/tmp/verif-repo.lock', 'w')
        fcntl.flock(lock, fcntl.LOCK_EX)
        src = open(path).read()
        if m['old'] not in src:
            print(f"!! {m['name']}: pattern not found in {m['file']}")
            results.append((m['name'], 'pattern-missing', {}))
            lock.close()
            continue
        try:
            sh("rm -rf /var/tmp/evidence.mut.bak && cp -a /verif/evidence /var/tmp/evidence.mut.bak")
            extra = ""
            if "oneshot_dummy" in m['new']:
                extra = "\nfn oneshot_dummy() -> (tokio::sync::oneshot::Sender<bool>, tokio::sync::oneshot::Receiver<bool>) { tokio::sync::oneshot::channel() }\n"
            open(path, 'w').write(src.replace(m['old'], m['new'], 1) + extra)
            res = {}
            for c in m['checks']:
                t0 = time.time()
                r = sh(f"cd /verif && ./check {c} quick")
                res[c] = (r.returncode, round(time.time() - t0, 1))
                if r.returncode == 3:
                    print(r.stdout[-1500:])
            results.append((m['name'], 'ran', res))
            print(m['name'], res, flush=True)
        finally:
            sh("git -C /repo checkout -- .")
            # evidence of the unchanged tree back in place before the lock is released
            sh("cp -a /var/tmp/evidence.mut.bak/. /verif/evidence/")
            lock.close()
            json.dump(results, open('/verif/tools/mutants_last.json', 'w'), indent=1)
    sh("rm -rf /var/tmp/evidence.mut.bak")
    caught = sum(1 for n, s, r in results if s == 'ran' and any(v[0] == 1 for v in r.values()))
    print(f"\n{caught}/{len(results)} mutants caught by at least one listed check")
    json.dump(results, open('/verif/tools/mutants_last.json', 'w'), indent=1)
    # restore evidence of the unchanged tree is the caller's job (re-run the checks)

if __name__ == '__main__':
    main()
