#!/usr/bin/env bash
# Development helper: build and run a harness binary against a PRIVATE copy of /repo's committed tree (HEAD), so that work on
# the harness can go on while tools/seeded.sh / mutants.py have a patch applied to /repo's working tree.
#   dev.sh <crate> <args...>         e.g. dev.sh vf-sim C06 --tier quick
# Output (evidence, replays) goes to /var/tmp/dev/out. Not used by any registered check.
set -eu
D="${DEV_DIR:-/var/tmp/dev}"
mkdir -p $D/out/target $D/repo
# HEAD (plus DEV_PATCH=<file>: a seeded change / mutant tried on the private copy, never on /repo) is staged first and then
# synchronised by checksum, so that exactly the files whose content changed get a new mtime (cargo decides by mtime)
rm -rf $D/stage; mkdir -p $D/stage
git -C /repo archive HEAD | tar -x -C $D/stage
if [ -n "${DEV_PATCH:-}" ]; then (cd $D/stage && patch -p1 -s < "$DEV_PATCH") || { echo "patch failed"; exit 3; }; fi
rsync -rlc --delete --exclude target $D/stage/ $D/repo/
rsync -a --delete --exclude target /verif/harness/ $D/harness/
find $D/harness -name '*.toml' | xargs sed -i "s#\"/repo/#\"$D/repo/#g; s#target-dir = \"/verif/target\"#target-dir = \"$D/target\"#"
if [ ! -d $D/target/release ]; then mkdir -p $D/target; rsync -a --exclude tmp --exclude c12 /verif/target/release $D/target/; fi
crate=$1; shift
(cd $D/harness && CARGO_NET_OFFLINE=true cargo build --release -p $crate 2>&1 | grep -E "^error" -A 14 | head -80)
[ $# -gt 0 ] || exit 0
VERIF_OUT_DIR=$D/out RUST_BACKTRACE=0 VERIF_SEED="${VERIF_SEED:-20260924}" $D/target/release/$crate "$@"
