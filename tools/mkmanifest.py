#!/usr/bin/env python3
"""Regenerates /verif/MANIFEST.json from the table below (kept in one place so it stays valid)."""
import json, os
ROOT = '/verif'
props = [json.loads(l) for l in open(f'{ROOT}/properties.jsonl')]

SIM_NOTE = ("Trusted: the simnet harness (executor, in-memory ordered reliable WebSocket, wire monitor using the independent codec vf-ref), "
            "the oracle folds over the recorded history, proptest. Interleavings are explored at task-poll/message-delivery granularity and sampled "
            "(generated schedule bytes + fair tail), not enumerated; production build profile.")

T = {}
def add(pid, engine, technique, text, note, cat="exploration", built=True):
    T[pid] = dict(engine=engine, technique=technique, text=text, note=note, cat=cat, built=built)

add("C09", "vf-pure", "property-based differential testing against an independent reference codec (proptest) + bounded-exhaustive byte-string enumeration + libFuzzer target with the same oracle",
    "Generated frames over all constructors/opcodes are encoded and compared byte-for-byte with a reference codec written from PROTOCOL.md, decoded back (borrowed/Bytes/Vec) and re-encoded; byte strings (exhaustive over a boundary alphabet up to length 5/7 after the header, mutations of valid encodings, random) must be accepted exactly when the reference accepts them and yield the prescribed fields, without panicking.",
    "Trusted: vf-ref::frame (reference codec written from PROTOCOL.md), proptest, production build profile (debug assertions off). Sampling beyond the enumerated family.")
add("C18", "vf-pure", "property-based differential testing against an independent RFC 1928/SOCKS4a grammar (proptest), all truncation points, chunked readers + libFuzzer targets",
    "Requests are produced by an independent encoder of the RFC grammar, served in generated chunkings with trailing bytes, complete or cut at any point (EOF or pending reader); readers must return exactly the RFC fields and consume exactly the request, fail or keep waiting on truncation, never panic; replies compared byte-for-byte; UDP relay header parsed by an independent client-side parser and by the crate's own parser.",
    "Trusted: vf-ref::socks reference grammar; SOCKS4 vs 4a recognised by the DSTIP convention (0.0.0.x, x != 0).")
add("C20", "vf-pure", "model-based stateful property testing against a Vec<u8> model (proptest op-list interpreter) + bounded-exhaustive histories + libFuzzer target",
    "Operation histories on LongChain (both halves of each split kept) are checked after every step against a byte-vector model: contents, len/remaining/is_empty, chunk() contract, no empty chunk, generic Buf drain; out-of-range arguments must panic or leave the value unchanged. All histories of length <= 3 over the 49-operation boundary alphabet on chunk lists of <= 3 chunks are enumerated. CowBytes variants compared through every accessor, comparison and hash.",
    "Trusted: the Vec<u8> model; chunk-index operations are mapped to byte ranges via the chunk lengths the chain reports.")
add("C02", "vf-sim", "stateful property-based testing in a deterministic simulator (generated workloads + generated schedules, proptest shrinking) with a content-function oracle over the history",
    "Two real Multiplexors run in simnet under generated options, link back-pressure, 1-4 concurrent streams, plain/vectored/empty/window-exceeding writes and a generated interleaving of task polls and deliveries; every byte read must equal f(stream,direction,offset), never run ahead of completed writes, and equal the written total at EOF after a clean shutdown.", SIM_NOTE)
add("C03", "vf-sim", "stateful property-based testing in a deterministic simulator with black-box credit accounting on the recorded wire history",
    "On every generated execution the wire monitor checks per flow and direction: Push sent minus credit received never exceeds the advertised window, one Push per successful non-empty write, acknowledged frames never exceed frames the application pulled, and no Reset on a flow both applications hold.", SIM_NOTE)
add("C04", "vf-sim", "stateful property-based testing in a deterministic simulator: liveness as safety via quiescence detection; complete 64x64 (rwnd,threshold) matrix enumerated + random workloads + victim-stream family",
    "With every receiving application reading to EOF, quiescence with an unfinished writer/reader is a stall. The full matrix of option pairs over {1,2,3,4,5,8,16,64}^2 x same is run each time, plus random workloads and a family with an absent reader on one stream where all other streams, later opens, datagrams and binds must still complete.", SIM_NOTE + " Fairness: the tail of every run is a fair sweep; no timers exist in simnet so quiescence is definitive.")
add("C05", "vf-sim", "stateful property-based testing in a deterministic simulator over per-stream histories (write/empty write/vectored/shutdown/drop/read) with an end-of-stream oracle on the history",
    "EOF must be preceded by the peer's shutdown/drop (or connection end) and by all bytes written before it; writes after local shutdown or a processed peer abort must fail with BrokenPipe; no Push after Finish on the wire; no write error while only the peer half-closed. A directed family places an empty write of every flavour at every position.", SIM_NOTE)

add("C06", "vf-sim", "stateful property-based testing in a deterministic simulator: open/close cycle histories with scripted flow-id generators and a reference model of held ids replayed against the wire",
    "Rounds of open/close cycles (all orders of write/shutdown/drop/read on both ends) separated by quiescent points; flow ids come from a scripted generator so that a freed id is proposed again; a model of which ids each endpoint may still hold is replayed against the Connect frames: a freed id must be chosen again by its owner and acknowledged by the peer (no leaked slot on either side), the new stream must carry only its own data and credit (C02/C03/C05 oracles), bystander streams must be undisturbed, aborted streams must deliver EOF/BrokenPipe to the peer. A raw-peer family probes the slot directly with a second Connect.",
    SIM_NOTE + " Ids are reused only after both applications let go and a quiescent point passed (the property's precondition).")
add("C07", "vf-sim", "stateful property-based testing in a deterministic simulator with scripted flow-id generators (forced collisions) and a scripted raw peer; small matrix enumerated for the initial credit",
    "Concurrent opens from both sides with arbitrary host bytes/ports, retries 1..4 and id scripts over {0,1,2,3}: one successful request = exactly one accepted stream with the requested host/port, never id 0 or a live id in a Connect, Reset for id 0, retry arithmetic exact against a raw peer that rejects the first k Connects (min(k+1,retries) attempts, FlowIdRejected iff k >= retries), initial credit equals the advertised window for all 64 window pairs.", SIM_NOTE)
add("C11", "vf-sim", "property-based testing in a deterministic simulator over the full datagram field domain with a subsequence oracle and buffer-overflow model",
    "Datagrams with every field at its boundaries are sent in bursts relative to datagram_buffer_size to eager/idle/intermittent receivers next to stream traffic: long hosts are refused with nothing on the wire, the received list is a subsequence of the sent list with all fields equal, loss only when the buffer overflowed (idle receiver: exactly the first `capacity`), the connection never ends and streams complete.", SIM_NOTE)
add("C15", "vf-sim", "stateful property-based testing in a deterministic simulator: concurrent bind requests, permuted answers, teardown races; reuse probe with a scripted flow-id generator",
    "1-6 concurrent bind requests from either side with responder policies accept/reject/drop/hold answered in batches in generated order, binds disabled, optional connection end: each request resolves at most once (exactly once unless legitimately held), true iff the peer application accepted that very request, the responder sees exactly the requested type/host/port/flow id, and the id is proposed again by the next open.", SIM_NOTE)

add("C08", "vf-sim", "fault injection by exhaustive cut-point enumeration over generated base executions in a deterministic simulator (every step x 9 fault kinds), property-based generation and shrinking of the base executions",
    "For every generated base execution (streams mid-transfer, blocked writers/readers, pending open/accept/get_datagram/bind calls) every step is a cut point and every fault kind (peer Close, each direction cut with EOF or error, both, half-dead link with a silent peer, invalid frame with answering or silent peer, local Multiplexor drop) is injected in a fresh deterministic re-run; after running to quiescence the connection task must have finished, no application future may be blocked, reads are a consistent prefix then EOF, writes fail with BrokenPipe, calls return Closed, and after a local drop everything queued before is on the wire in order before Close.",
    SIM_NOTE + " Exhaustive in the (cut point x fault kind) dimension of each base execution; the base executions themselves are sampled. One fault at a time.", cat="fault_enumeration")
add("C10", "vf-sim", "bounded-exhaustive enumeration of hostile frame sequences (77-symbol alphabet, all sequences up to length 2/3) + random long sequences against a reference model of the flow-slot table, in a deterministic simulator with a scripted raw peer",
    "One real endpoint with bystander streams, an established, a half-closed, a stale, a requested and a bind-requested flow receives every sequence of {Connect, Acknowledge(0|1|big), Reset, Finish, Push, Push burst beyond the window, Bind(1|3), Datagram} x {id 0, unknown, stale, target, half-closed, requested, bind-requested}: the Resets it emits must match a reference model of PROTOCOL.md per flow id (never a Reset for a Reset, only the offending flow on overrun), the task never exits, a fresh Connect and a local open still succeed, bystanders keep their data. Invalid (non-frame) messages must end the connection with InvalidFrame and resolve all pending operations, also with a silent peer.",
    SIM_NOTE)
add("C16", "vf-sim", "property-based testing on tokio's paused (virtual) clock with scripted pong policies and a timing oracle on exact virtual timestamps",
    "The real connection task runs on a current-thread tokio runtime with a paused clock against a transport that answers each Ping after a generated delay, for k rounds, late or never: pings must be sent exactly every I, a KeepaliveTimeout must fall within [T, T+I] of the last pong, a surviving connection may have no pong-free gap above T+I, peers answering within the bound never time out, disabled values never ping/time out, and after the end the task future and pending calls complete even if the transport stays silent.",
    "Trusted: tokio's paused clock (ms granularity; intervals multiples of 10 ms and delays ending in 5 ms avoid simultaneous events), the ClockWs transport of the harness. Sampling over (I,T,policy).")

add("C13", "vf-sim", "stateful property-based testing in a deterministic simulator: the real CopyBidirectional future against a scripted AsyncBufRead+AsyncWrite (partial reads/writes, Pending points with and without wake-ups, EOF and errors at every position) and a real peer application",
    "The bridge future is driven in simnet against a generated script of the local side and a generated peer (data, shutdown, drop, late reader) under generated options/back-pressure/schedule: bytes relayed in both directions must satisfy the content function, the bridge's Push frames obey the window rule, local EOF produces Finish, the peer's Finish shuts the local side down, completion returns the true byte counts, and after any failed local operation the future must be complete with an error at quiescence (no unrelated traffic needed).", SIM_NOTE)

add("C12", "overlay-c12", "randomised concurrency testing (shuttle: random and PCT schedulers over all atomic/lock/waker operations) of generated scenarios against a blocking-waiter deadlock oracle and a credit-conservation invariant",
    "The crate's own cfg(loom) shim is pointed at a shuttle-backed facade in a scratch copy, so the credit counter, the closed flag and the writer waker of the unmodified stream.rs/lib.rs become scheduling points. 79 (quick) scenarios = initial credit 0..2 x 1..3 frames wanted x every short list of acknowledge(n)/close operations performed by another thread; each is explored under ~14k (quick) / 160k (thorough) random and PCT schedules. The writer thread sleeps on its wake-up flag whenever a poll returns Pending, so a lost wake-up is a detected deadlock with a replayable schedule; at the end credit left == initial + grants - frames sent.",
    "Trusted: shuttle's schedulers and its sequentially consistent execution model (C11 weak-memory reorderings of the Relaxed accesses are NOT explored - stated limit), the mutex-based AtomicWaker of the facade. Random exploration, no coverage guarantee.")

add("C14", "vf-app", "bounded-exhaustive enumeration of request deviations (all requests differing from a valid upgrade in <= 2 places, under all 8 server configurations) + random requests, against a reference predicate and a differential (unknown-path) oracle",
    "The real server::State service is called in-process with crafted requests (method x path x 12 variants of each of the six relevant headers x PSK/obfs/backend configurations): it must answer 101 with the accepted protocol and the RFC 6455 accept hash (computed by an independent SHA-1/base64) exactly when the reference predicate written from the statement holds, and otherwise return a response equal in status, headers and body to the response of the same request on an unknown path (static 404 or a local deterministic backend); /health and /version likewise under obfuscation.",
    "Trusted: the reference predicate, vf-ref::ws (SHA-1/base64), the local echo backend. The OnUpgrade extension is supplied by the harness as hyper's server connection would; the tunnel start itself is covered by C01.")
add("C17", "vf-app", "complete enumeration of the configuration matrix (108 combinations x 3 key algorithms) with freshly generated PKIs + random SAN lists + stateful generated reload sequences, against a decision-table oracle",
    "Real handshakes over in-memory pipes through the crate's tls_connect / make_server_config / make_tls_identity / reload_tls_identity and TlsAcceptor (as serve_connection_tls uses it) with rcgen-generated trusted/other/client CAs and leaves: the connection (handshake plus one byte echoed each way) must succeed exactly when the statement's decision table says so, a server without client CA must not obtain a client certificate, and after a reload new handshakes present the new leaf while established connections keep working.",
    "Trusted: rcgen-generated PKIs, rustls/webpki as the TLS implementation under configuration. System root store, native-tls and ACME paths are outside the statement and not exercised.")

add("C19", "vf-app", "bounded-exhaustive + random differential testing of the back-off generator against its closed form; property-based fault-script testing of the real client against a scripted fake server on loopback (generated per-attempt behaviours), with lower-bound-exact / confirmed-upper-bound timing oracles",
    "Backoff is compared with min(initial*mult^k, max) over all small tuples x all advance/reset sequences up to length 8. The real client_main_inner runs against a fake server whose behaviour per connection attempt is generated (drop, stall, 403, serve then orderly Close / abrupt drop after d ms, silence, silence then drop, healthy): delays between a visible failure and the next attempt must be >= the reference back-off (hard) and close to it, restart from the shortest delay after any success, a new attempt must follow every loss, exactly max_retry_count+1 attempts precede MaxRetryCountReached, a non-retryable answer ends the client at once, and a local connection made while disconnected or whose stream request failed is echoed through the next successful connection.",
    "Trusted: the fake server (tokio-tungstenite + a real Multiplexor), wall-clock time on loopback. Interleavings and timing are sampled; upper-bound and never-arrives verdicts are confirmed by an isolated re-run before being reported, otherwise the case counts as inconclusive.")
add("C01", "vf-app", "property-based end-to-end testing on loopback (real client + real server, harness-driven local clients and targets) with a content-function oracle per connection and per datagram; entry x close-order matrix enumerated",
    "Generated sets of 1-6 concurrent TCP connections through every entry kind (fixed TCP/Unix remotes, SOCKS4/4a/5 with IPv4/domain/IPv6, HTTP CONNECT) with payloads of 0..3 MB each way in generated chunkings and every close order (either side half-closes first, simultaneous, target reset, target port closed), and 1-6 concurrent UDP clients (plain remote and SOCKS5 associations, datagram sizes 0..60000, 0-3 replies): bytes must arrive unmodified, complete and in order with EOF propagated, the local connection must be closed rather than hang, UDP replies must reach exactly the originating socket from the address it sent to, unmodified, without duplicates, behind a well-formed RFC 1928 header for SOCKS5.",
    "Trusted: the harness targets and local clients, the independent RFC 1928 parser of vf-ref. Real sockets and the real scheduler: interleavings are sampled; hang verdicts use a 20 s limit and are confirmed by a re-run.")

ENG = {
 "vf-pure": ("/verif/harness/vf-pure", "proptest + bounded-exhaustive enumeration against reference codecs/models (E1)"),
 "vf-sim": ("/verif/harness/vf-sim", "simnet: deterministic simulator around the real penguin-mux crate (E2) and tokio paused-clock engine (E3)"),
 "vf-app": ("/verif/harness/vf-app", "in-process/loopback end-to-end rig around the real client and server (E5)"),
 "overlay-c12": ("/verif/overlay/c12", "shuttle-backed facade of the crate's loom shim, applied to a scratch copy (E4)"),
}
NA_REASON = {}
if os.path.exists(f'{ROOT}/tools/manifest_extra.py'):
    exec(open(f'{ROOT}/tools/manifest_extra.py').read())

checks = []
for pid, t in sorted(T.items()):
    if not t["built"]:
        continue
    checks.append({"property_id": pid, "quick_cmd": f"./check {pid} quick", "thorough_cmd": f"./check {pid} thorough",
        "evidence_file": f"/verif/evidence/{pid}.json", "replay_cmd_template": f"./check {pid} --replay {{path}}",
        "engine": t["engine"], "level_claimed": {"category": t["cat"], "text": t["text"], "design_ref": f"DESIGN.md section 3, {pid}"},
        "level_note": t["note"], "technique": t["technique"]})
done = {c["property_id"] for c in checks}
na = [{"property_id": p["id"], "reason": NA_REASON.get(p["id"], "check not built yet in this revision of /verif (work in progress; DESIGN.md Appendix B gives the build order)")} for p in props if p["id"] not in done]
engines = []
for name, (path, kind) in ENG.items():
    served = sorted(pid for pid, t in T.items() if t["engine"] == name and t["built"])
    if served:
        engines.append({"name": name, "path": path, "serves_properties": served, "kind_free_text": kind})
m = {"version": 1, "setup_cmd": "./check --setup",
     "hooks": {"guard": "penguin_rs_verif", "enable": "no source hooks in /repo; checks build harness crates in /verif/harness with path dependencies on /repo's working tree (C12: scratch-copy overlay, see DESIGN.md 2.3)",
               "baseline_off_cmd": "cd /repo && cargo test --workspace --no-fail-fast --offline", "source_commits": [], "add_only": True},
     "engines": engines, "checks": checks, "not_applicable": na,
     "notes": "Exit codes of every check: 0 held on everything explored, 1 VIOLATION (replay file written), 2 inconclusive (watchdog / vacuity floor / step bound), 3 harness did not build against the tree. VERIF_SEED selects the PRNG seed (default 20260924). known_findings.json lists repaired defects (fixed:) and open findings."}
json.dump(m, open(f'{ROOT}/MANIFEST.json', 'w'), indent=1)
print("checks:", sorted(done), "not_applicable:", [x["property_id"] for x in na])
