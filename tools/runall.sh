#!/usr/bin/env bash
# Runs every registered check (quick tier by default) on the current tree and prints one line per check.
cd /verif
exec 8>/var/tmp/verif-repo.lock; flock 8   # one user of /repo's working tree at a time (mutants.py, seeded.sh)
TIER="${1:-quick}"
rc_all=0
for id in $(python3 -c "import json;print(' '.join(c['property_id'] for c in json.load(open('/verif/MANIFEST.json'))['checks']))"); do
  out=$(./check "$id" "$TIER" 2>&1); rc=$?
  echo "$id rc=$rc $(echo "$out" | grep '^RESULT' | tail -1)"
  if [ $rc -ne 0 ]; then rc_all=1; echo "$out" | grep -E "^(VIOLATION|INCONCLUSIVE|KNOWN|BUILD)" | head -5; fi
done
exit $rc_all
