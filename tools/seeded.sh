#!/usr/bin/env bash
# Confirm an independently written property-breaking change and run the checks against it.
#   seeded.sh <ID> [check ids...]     (expects /tmp/out-<ID> and the agent's worktree /tmp/wt-<ID>; <ID> may carry a suffix, e.g. C02b)
set -u
ID=$1; shift
OUT=/tmp/out-$ID; WT=/tmp/wt-$ID; DST=/verif/seeded/$ID
[ -f "$OUT/patch.diff" ] || { echo "no patch for $ID"; exit 1; }
mkdir -p "$DST"; cp "$OUT/patch.diff" "$DST/"; [ -f "$DST/meta.json" ] || cp "$OUT/meta.json" "$DST/"; rm -rf "$DST/demo"; cp -r "$OUT/demo" "$DST/demo" 2>/dev/null
export CARGO_NET_OFFLINE=true
DEMO=$(python3 -c "import json;print(json.load(open('$OUT/meta.json')).get('demo_cmd',''))")
echo "== $ID demo: $DEMO"
cd "$WT" || exit 1
# state: change applied + demo present (as the agent left it)
git apply --check -R "$OUT/patch.diff" 2>/dev/null || { echo "patch is not applied in the worktree; applying"; git apply "$OUT/patch.diff" || exit 1; }
with=$(bash -c "$DEMO" >/tmp/out-$ID/demo_with.log 2>&1; echo $?)
git apply -R "$OUT/patch.diff"
without=$(bash -c "$DEMO" >/tmp/out-$ID/demo_without.log 2>&1; echo $?)
git apply "$OUT/patch.diff"
echo "demo with change rc=$with (want != 0), without change rc=$without (want 0)"
suite="skipped"
if [ "${SEEDED_SUITE:-1}" = 1 ]; then
  cargo test --workspace --no-run --offline >/dev/null 2>&1   # build outside the lock (the lock only serialises the fixed ports)
  # own network namespace (private loopback): the suite's fixed ports do not clash with other runs, no lock needed
  unshare -n bash -c 'ip link set lo up; exec cargo test --workspace --no-fail-fast --offline' >/tmp/out-$ID/suite.log 2>&1
  failed=$(python3 - /tmp/out-$ID/suite.log <<'PY'
import json,re,sys
base=set(x.split('::',1)[1] for x in json.load(open('/root/.vp/BASELINE.json'))['stable_pass'])
bad=set()
for l in open(sys.argv[1], errors='replace'):
    m=re.match(r'^test (\S+) \.\.\. FAILED', l)
    if m and m.group(1) in base: bad.add(m.group(1))
print(' '.join(sorted(bad)))
PY
)
  # a baseline test that fails in the full run under load (tests::test_tls_reload waits a fixed 2 s for its server) is run again alone
  still=""
  for t in $failed; do
    unshare -n bash -c "ip link set lo up; exec cargo test --workspace --offline $t" >/tmp/out-$ID/suite_retry.log 2>&1 || still="$still $t"
  done
  [ -n "$failed" ] && echo "suite: failed in the full run: $failed ; still failing alone: ${still:-none}"
  failed=$(echo $still)
  passed=$(grep -E "^test result" /tmp/out-$ID/suite.log | awk '{s+=$4} END {print s}')
  if [ -z "$failed" ]; then suite="ok($passed passed)"; else suite="FAILS: $failed"; fi
fi
echo "suite with change: $suite"
# run the checks against the change in /repo
if [ "${SEEDED_CHECKS:-1}" = 0 ]; then
  python3 - "$ID" "$with" "$without" "$suite" <<'PY'
import json,sys
id,w,wo,suite=sys.argv[1:5]
p=f'/verif/seeded/{id}/meta.json'
m=json.load(open(p)); c=m.setdefault('confirmed',{})
c.update({"demo_fails_with_change": w!='0', "demo_passes_without_change": wo=='0', "suite_with_change": suite})
json.dump(m,open(p,'w'),indent=1)
PY
  exit 0
fi
cd /verif
# one user of /repo's working tree at a time
exec 8>/var/tmp/verif-repo.lock; flock 8
# the evidence files of the unchanged tree must survive runs against a changed tree
EVBAK=$(mktemp -d /var/tmp/evidence.bak.XXXXXX); cp -a /verif/evidence/. "$EVBAK/"
ls /verif/replays > "$EVBAK.replays" 2>/dev/null
git -C /repo apply "$OUT/patch.diff" || { echo "patch does not apply to /repo"; exit 1; }
res=""
CHECKS="$*"; [ -z "$CHECKS" ] && CHECKS="${ID:0:3}"
for c in $CHECKS; do
  ./check "$c" quick >/tmp/out-$ID/check_$c.log 2>&1; rc=$?
  res="$res $c=$rc"
  grep -E "^(VIOLATION|  section)" /tmp/out-$ID/check_$c.log | head -2 | cut -c1-400
done
git -C /repo checkout -- .
cp -a "$EVBAK/." /verif/evidence/; rm -rf "$EVBAK"
# replay files written by the runs against the changed tree belong to that change, not to /verif/replays
mkdir -p "$DST/replays"; for f in $(ls /verif/replays | grep -vxFf "$EVBAK.replays"); do mv "/verif/replays/$f" "$DST/replays/"; done; rmdir "$DST/replays" 2>/dev/null; rm -f "$EVBAK.replays"
flock -u 8
echo "checks:$res"
python3 - "$ID" "$with" "$without" "$suite" "$res" <<'PY'
import json,sys
id,w,wo,suite,res=sys.argv[1:6]
p=f'/verif/seeded/{id}/meta.json'
m=json.load(open(p))
c=m.setdefault('confirmed',{})
if suite=="skipped" and 'suite_with_change' in c: suite=c['suite_with_change']
c.update({"demo_fails_with_change": w!='0', "demo_passes_without_change": wo=='0', "suite_with_change": suite})
c.setdefault('checks_quick_exit_codes',{}).update(dict(x.split('=') for x in res.split()))
c.update({"ran": "tools/seeded.sh: demo in the agent's worktree with and without the patch, full suite with the patch, then ./check <id> quick with the patch applied to /repo (reverted afterwards)"})
json.dump(m,open(p,'w'),indent=1)
PY
