#!/usr/bin/env python3
"""Automated mutation sweep (sensitivity at scale).

Generates small syntactic mutants of the production sources the properties are anchored in (relational / boolean /
arithmetic operator swaps, integer literals +-1, min<->max, is_some<->is_none, negation removal, break<->continue,
deletion of a call statement), applies ONE at a time to a scratch copy of /repo's working tree (never to /repo itself),
rebuilds the harness binaries against that copy and runs the quick tier of the checks that are anchored in the mutated
file, stopping at the first check that reports a VIOLATION. Several workers run in parallel, each with its own copy of
the tree, of the harness and of the build output under /var/tmp/automut/<w>/ (removed at the end).

  automut.py run [--workers N] [--per-file K] [--seed S] [--files substr,...] [--e2e]
  automut.py table               summary of tools/automut_results.json

A surviving mutant is not automatically a gap: many mutants are equivalent, or change behaviour no listed property talks
about (log text, error wording, performance). Survivors are triaged by hand (DESIGN.md 7.9).
"""
import json, os, re, subprocess, sys, time, random, hashlib, shutil, threading, queue

BASE = '/var/tmp/automut'
# a pristine export of /repo's HEAD (tools/seeded.sh may have a patch applied to the working tree while the sweep runs)
REPO = BASE + '/base'
RESULTS = '/verif/tools/automut_results.json'

# file -> (harness crate, checks in the order they are tried)
FILES = {
    'penguin-mux/src/frame.rs': ('vf-pure', ['C09'], 'vf-sim', ['C02', 'C11']),
    'penguin-mux/src/stream.rs': ('vf-sim', ['C02', 'C05', 'C03', 'C04', 'C06', 'C13', 'C08', 'C12']),
    'penguin-mux/src/task.rs': ('vf-sim', ['C02', 'C07', 'C10', 'C05', 'C06', 'C03', 'C04', 'C08', 'C15', 'C11', 'C16', 'C13']),
    'penguin-mux/src/lib.rs': ('vf-sim', ['C07', 'C02', 'C15', 'C11', 'C05', 'C06', 'C08', 'C03', 'C04', 'C10', 'C12']),
    'penguin-mux/src/stream_tools/copy_bidirectional.rs': ('vf-sim', ['C13', 'C02', 'C03', 'C04']),
    'penguin-mux/src/config.rs': ('vf-sim', ['C16', 'C04', 'C03', 'C07']),
    'penguin-mux/src/timing.rs': ('vf-sim', ['C16'], 'vf-app', ['C19']),
    'penguin-mux/src/hashmap.rs': ('vf-sim', ['C07', 'C06']),
    'cow-bytes/src/pbuf.rs': ('vf-pure', ['C20']),
    'cow-bytes/src/lib.rs': ('vf-pure', ['C20', 'C09']),
    'cow-bytes/src/macros.rs': ('vf-pure', ['C20']),
    'penguin-socks/src/v4.rs': ('vf-pure', ['C18']),
    'penguin-socks/src/v5.rs': ('vf-pure', ['C18']),
    'penguin/src/server/service.rs': ('vf-app', ['C14']),
    'penguin/src/tls/rustls.rs': ('vf-app', ['C17']),
    'penguin/src/tls/mod.rs': ('vf-app', ['C17']),
}
E2E_FILES = {
    'penguin/src/client/mod.rs': ('vf-app', ['C19', 'C01']),
    'penguin/src/client/maybe_retryable.rs': ('vf-app', ['C19']),
    'penguin/src/client/handle_remote/tcp.rs': ('vf-app', ['C01']),
    'penguin/src/client/handle_remote/udp.rs': ('vf-app', ['C01']),
    'penguin/src/client/handle_remote/socks.rs': ('vf-app', ['C01']),
    'penguin/src/client/handle_remote/http.rs': ('vf-app', ['C01']),
    'penguin/src/server/forwarder.rs': ('vf-app', ['C01']),
    'penguin/src/server/websocket.rs': ('vf-app', ['C01']),
}

SKIP_LINE = re.compile(r'^\s*(//|#\[|use |pub use |mod |trace!|debug!|info!|warn!|error!|debug_assert|assert!|assert_eq!|tracing::|#!\[|\*|/\*)')
LOG_CONT = re.compile(r'(trace|debug|info|warn|error)!\(')

OPS = [
    ('rel', re.compile(r' (<=|>=|<|>|==|!=) '), {'<': '<=', '<=': '<', '>': '>=', '>=': '>', '==': '!=', '!=': '=='}),
    ('bool', re.compile(r' (&&|\|\|) '), {'&&': '||', '||': '&&'}),
    ('arith', re.compile(r' (\+|-|\+=|-=) '), {'+': '-', '-': '+', '+=': '-=', '-=': '+='}),
    ('minmax', re.compile(r'\.(min|max)\('), {'min': 'max', 'max': 'min'}),
    ('opt', re.compile(r'\.(is_some|is_none|is_ok|is_err)\(\)'), {'is_some': 'is_none', 'is_none': 'is_some', 'is_ok': 'is_err', 'is_err': 'is_ok'}),
    ('boollit', re.compile(r'\b(true|false)\b'), {'true': 'false', 'false': 'true'}),
    ('loopctl', re.compile(r'\b(break|continue);'), {'break': 'continue', 'continue': 'break'}),
]
INT = re.compile(r'(?<![\w.#\'"])(\d+)(?![\w.\'"])')
NEG = re.compile(r'(?<=[\s(])!(?=[a-zA-Z_(])')
IFCOND = re.compile(r'^(\s*(?:\} else )?(?:if|while) )(.+)( \{\s*)$')
CALL_STMT = re.compile(r'^\s+[A-Za-z_][\w.:]*(\(.*\))+(\.await)?\??;\s*$')


def production_part(src):
    cut = len(src)
    for m in re.finditer(r'#\[cfg\((all\()?test[^\]]*\]\s*\n(pub(\(crate\))? )?mod \w+ \{', src):
        cut = min(cut, m.start())
    return cut


def gen_mutants(path, src):
    cut = production_part(src)
    out = []
    off = 0
    in_log = 0
    for ln, line in enumerate(src.split('\n'), 1):
        start = off
        off += len(line) + 1
        if start >= cut:
            break
        if SKIP_LINE.match(line) or not line.strip():
            continue
        # skip the continuation lines of a multi-line log macro
        if LOG_CONT.search(line):
            in_log = line.count('(') - line.count(')')
            continue
        if in_log > 0:
            in_log += line.count('(') - line.count(')')
            continue
        code = line.split('//')[0] if '"' not in line else line
        for name, rx, table in OPS:
            for m in rx.finditer(code):
                a, b = m.span(1)
                out.append(dict(file=path, line=ln, op=name, pos=start + a, old=m.group(1), new=table[m.group(1)]))
        if '"' not in code:
            for m in INT.finditer(code):
                a, b = m.span(1)
                v = int(m.group(1))
                out.append(dict(file=path, line=ln, op='int+1', pos=start + a, old=m.group(1), new=str(v + 1)))
                if v > 0:
                    out.append(dict(file=path, line=ln, op='int-1', pos=start + a, old=m.group(1), new=str(v - 1)))
        mi = IFCOND.match(code)
        if mi and ' let ' not in mi.group(2)[:5] and not mi.group(2).startswith('let '):
            a, b = mi.span(2)
            for force in ('true', 'false'):
                out.append(dict(file=path, line=ln, op='if' + force, pos=start + a, old=mi.group(2), new=force))
        for m in NEG.finditer(code):
            out.append(dict(file=path, line=ln, op='neg', pos=start + m.start(), old='!', new=''))
        if CALL_STMT.match(code) and code.count('(') == code.count(')') and not re.match(r'^\s+(let|return|break|continue)\b', code):
            out.append(dict(file=path, line=ln, op='delstmt', pos=start, old=line, new=re.match(r'^\s*', line).group(0) + ';'))
    for m in out:
        m['id'] = hashlib.sha1(f"{m['file']}:{m['pos']}:{m['op']}:{m['new']}".encode()).hexdigest()[:10]
        m['text'] = src.split('\n')[m['line'] - 1].strip()[:160]
    return out


def sh(cmd, env=None, timeout=None):
    try:
        r = subprocess.run(cmd, shell=True, capture_output=True, text=True, env=env, timeout=timeout)
        return r.returncode, r.stdout + r.stderr
    except subprocess.TimeoutExpired as e:
        return 124, (e.stdout or b'').decode(errors='replace') if isinstance(e.stdout, bytes) else (e.stdout or '')


class Worker:
    def __init__(self, w):
        self.w = w
        self.dir = f'{BASE}/{w}'
        self.repo = f'{self.dir}/repo'
        self.harness = f'{self.dir}/harness'
        self.target = f'{self.dir}/target'
        self.out = f'{self.dir}/out'

    def setup(self):
        shutil.rmtree(self.dir, ignore_errors=True)
        os.makedirs(self.out + '/target', exist_ok=True)
        sh(f'rsync -a {REPO}/ {self.repo}/')
        sh(f'rsync -a --exclude target /verif/harness/ {self.harness}/')
        # reuse the compiled third-party dependencies (path crates are rebuilt: their fingerprints carry the path)
        sh(f'mkdir -p {self.target} && rsync -a --exclude tmp --exclude c12 --exclude "*.log" /verif/target/release {self.target}/')
        sh(f'mkdir -p {self.target}/c12 && rsync -a /verif/target/c12/ {self.target}/c12/')
        for root, _, files in os.walk(self.harness):
            for f in files:
                if f.endswith('.toml'):
                    p = os.path.join(root, f)
                    s = open(p).read()
                    s2 = s.replace('"/repo/', f'"{self.repo}/').replace('target-dir = "/verif/target"', f'target-dir = "{self.target}"')
                    if s2 != s:
                        open(p, 'w').write(s2)
        self.env = dict(os.environ, CARGO_NET_OFFLINE='true', CARGO_TERM_COLOR='never', RUST_BACKTRACE='0',
                        VERIF_OUT_DIR=self.out, VERIF_SEED=os.environ.get('VERIF_SEED', '20260924'), VERIF_TIER='quick')
        for c in ('vf-pure', 'vf-sim', 'vf-app'):
            rc, o = self.build(c)
            if rc != 0:
                print(f'[w{self.w}] initial build of {c} failed:\n{o[-2000:]}', flush=True)
                return False
        return True

    def build(self, crate):
        return sh(f'cd {self.harness} && cargo build --release -p {crate}', env=self.env, timeout=1800)

    def run_check(self, crate, cid):
        if cid == 'C12':
            env = dict(self.env, VERIF_REPO_SRC=self.repo, VERIF_C12_SCRATCH=f'{self.dir}/c12scratch', VERIF_C12_TARGET=f'{self.target}/c12')
            rc, o = sh('/verif/overlay/c12/run.sh quick', env=env, timeout=1500)
            return rc, o
        rc, o = sh(f'timeout --signal=KILL 240 {self.target}/release/{crate} {cid} --tier quick', env=self.env, timeout=300)
        if rc == 0 and cid in ('C03', 'C04', 'C05', 'C06', 'C07') and os.environ.get('AUTOMUT_THREADS', '1') == '1' and self.cur_file in ('penguin-mux/src/stream.rs', 'penguin-mux/src/lib.rs'):
            env = dict(self.env, VERIF_REPO_SRC=self.repo, VERIF_C12_SCRATCH=f'{self.dir}/c12scratch', VERIF_C12_TARGET=f'{self.target}/c12')
            extra = '--test verif_c07_alloc --property C07' if cid == 'C07' else f'--as {cid}'
            rc, o2 = sh(f'/verif/overlay/c12/run.sh quick {extra}', env=env, timeout=1500)
            o += o2
        return rc, o

    def do(self, m, plan):
        path = f"{self.repo}/{m['file']}"
        src = open(f"{REPO}/{m['file']}").read()
        assert src[m['pos']:m['pos'] + len(m['old'])] == m['old'], (m, src[m['pos']:m['pos'] + 20])
        mutated = src[:m['pos']] + m['new'] + src[m['pos'] + len(m['old']):]
        open(path, 'w').write(mutated)
        self.cur_file = m['file']
        res = dict(m, checks={}, status='survived', caught_by=None)
        t0 = time.time()
        try:
            for i in range(0, len(plan), 2):
                crate, checks = plan[i], plan[i + 1]
                rc, o = self.build(crate)
                if rc != 0:
                    res['status'] = 'build-failed'
                    return res
                for c in checks:
                    rc, o = self.run_check(crate, c)
                    res['checks'][c] = rc
                    if rc == 1:
                        res['status'] = 'caught'
                        res['caught_by'] = c
                        mm = re.search(r'^VIOLATION.*$', o, re.M)
                        sec = re.search(r'^\s+section.*$', o, re.M)
                        res['verdict'] = ((sec.group(0).strip() if sec else '') or (mm.group(0) if mm else ''))[:300]
                        return res
            if any(v not in (0, 1) for v in res['checks'].values()):
                res['status'] = 'inconclusive'
            return res
        finally:
            res['secs'] = round(time.time() - t0, 1)
            open(path, 'w').write(src)
            shutil.rmtree(self.out + '/replays', ignore_errors=True)


def main():
    if len(sys.argv) < 2 or sys.argv[1] == 'table':
        return table()
    args = sys.argv[2:]
    def opt(name, default):
        return args[args.index(name) + 1] if name in args else default
    shutil.rmtree(BASE, ignore_errors=True)
    os.makedirs(REPO, exist_ok=True)
    rc, o = sh(f'git -C /repo archive HEAD | tar -x -C {REPO}')
    assert rc == 0, o
    workers = int(opt('--workers', 3)); per_file = int(opt('--per-file', 30)); seed = int(opt('--seed', 1))
    only = opt('--files', '')
    files = dict(FILES)
    if '--e2e' in args:
        files.update(E2E_FILES)
    if only:
        files = {f: v for f, v in files.items() if any(s in f for s in only.split(','))}
    done = {}
    if os.path.exists(RESULTS):
        for r in json.load(open(RESULTS)):
            done[r['id']] = r
    todo = []
    rnd = random.Random(seed)
    for f, plan in files.items():
        src = open(f'{REPO}/{f}').read()
        ms = gen_mutants(f, src)
        rnd.shuffle(ms)
        # spread over operators: round-robin by op
        byop = {}
        for m in ms:
            byop.setdefault(m['op'], []).append(m)
        pick = []
        while len(pick) < per_file and any(byop.values()):
            for op in sorted(byop):
                if byop[op] and len(pick) < per_file:
                    pick.append(byop[op].pop())
        print(f'{f}: {len(ms)} candidates, {len(pick)} picked', flush=True)
        todo += [(m, plan) for m in pick if m['id'] not in done]
    print(f'{len(todo)} mutants to run, {len(done)} already recorded', flush=True)
    q = queue.Queue()
    for t in todo:
        q.put(t)
    lock = threading.Lock()
    results = list(done.values())
    def loop(w):
        wk = Worker(w)
        if not wk.setup():
            return
        while True:
            try:
                m, plan = q.get_nowait()
            except queue.Empty:
                break
            r = wk.do(m, plan)
            with lock:
                results.append(r)
                json.dump(results, open(RESULTS, 'w'), indent=1)
                print(f"[w{w}] {r['status']:12} {r['file']}:{r['line']} {r['op']} `{r['old'][:30]}`->`{r['new'][:30]}` by={r['caught_by']} {r['secs']}s  ({q.qsize()} left)", flush=True)
        shutil.rmtree(wk.dir, ignore_errors=True)
    ts = [threading.Thread(target=loop, args=(w,)) for w in range(workers)]
    for t in ts: t.start()
    for t in ts: t.join()
    shutil.rmtree(BASE, ignore_errors=True)
    table()


def table():
    rs = json.load(open(RESULTS))
    byfile = {}
    for r in rs:
        d = byfile.setdefault(r['file'], dict(n=0, caught=0, build=0, survived=0, inconclusive=0))
        d['n'] += 1
        d[{'caught': 'caught', 'build-failed': 'build', 'survived': 'survived', 'inconclusive': 'inconclusive'}[r['status']]] += 1
    print('| file | mutants | did not compile | caught | inconclusive | survived |\n|---|---|---|---|---|---|')
    for f, d in sorted(byfile.items()):
        print(f"| {f} | {d['n']} | {d['build']} | {d['caught']} | {d['inconclusive']} | {d['survived']} |")
    tot = {k: sum(d[k] for d in byfile.values()) for k in ('n', 'build', 'caught', 'inconclusive', 'survived')}
    print(f"| total | {tot['n']} | {tot['build']} | {tot['caught']} | {tot['inconclusive']} | {tot['survived']} |")
    print('\nsurvivors:')
    for r in rs:
        if r['status'] in ('survived', 'inconclusive'):
            print(f"  {r['id']} {r['status']} {r['file']}:{r['line']} {r['op']} `{r['old'][:40]}`->`{r['new'][:40]}` | {r['text']} | {r['checks']}")


if __name__ == '__main__':
    main()
