#!/usr/bin/env bash
# sequential queue for tools/seeded.sh: append lines "<ID> [checks...]" to /var/tmp/seeded.queue; logs in /var/tmp/seeded-<ID>.log
Q=/var/tmp/seeded.queue; touch $Q; n=0
while true; do
  total=$(wc -l < $Q)
  if [ "$n" -lt "$total" ]; then
    n=$((n+1)); line=$(sed -n "${n}p" $Q); [ -z "$line" ] && continue
    suite=1; if [ "${line%% *}" = nosuite ]; then suite=0; line=${line#nosuite }; fi
    id=${line%% *}
    SEEDED_SUITE=$suite /verif/tools/seeded.sh $line > /var/tmp/seeded-$id.log 2>&1
    echo "$(date +%T) done $line: $(tail -1 /var/tmp/seeded-$id.log)" >> /var/tmp/seeded.done
  else
    sleep 5
  fi
done
