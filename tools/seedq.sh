#!/usr/bin/env bash
# sequential queue for tools/seeded.sh: append lines "[nosuite ]<ID> [checks...]" to /var/tmp/seeded.queue; logs in /var/tmp/seeded-<ID>.log
# the number of lines already taken is kept in /var/tmp/seeded.ptr, so the runner can be restarted
Q=/var/tmp/seeded.queue; P=/var/tmp/seeded.ptr; touch $Q; [ -f $P ] || echo 0 > $P
while true; do
  total=$(wc -l < $Q); n=$(cat $P)
  if [ "$n" -lt "$total" ]; then
    n=$((n+1)); echo $n > $P; line=$(sed -n "${n}p" $Q); [ -z "$line" ] && continue
    suite=1; if [ "${line%% *}" = nosuite ]; then suite=0; line=${line#nosuite }; fi
    id=${line%% *}
    SEEDED_SUITE=$suite /verif/tools/seeded.sh $line > /var/tmp/seeded-$id.log 2>&1
    echo "$(date +%T) done $line: $(tail -1 /var/tmp/seeded-$id.log)" >> /var/tmp/seeded.done
  else
    sleep 5
  fi
done
