#!/usr/bin/env bash
# neutral.sh <area> <check ids...>: applies each behaviour-preserving patch /tmp/out-<area>/patch<i>.diff to /repo in turn, runs the
# listed quick checks (expected: all silent), reverts. Copies the patches to /verif/neutral/<area>/.
A=$1; shift
OUT=/tmp/out-$A; DST=/verif/neutral/$A
mkdir -p "$DST"; cp "$OUT"/patch*.diff "$OUT/meta.json" "$DST/" 2>/dev/null
for p in "$OUT"/patch*.diff; do
  n=$(basename "$p" .diff)
  exec 8>/var/tmp/verif-repo.lock; flock 8
  EVBAK=$(mktemp -d /var/tmp/evidence.bak.XXXXXX); cp -a /verif/evidence/. "$EVBAK/"
  if ! git -C /repo apply "$p"; then echo "$A/$n: does not apply"; flock -u 8; continue; fi
  res=""
  for c in "$@"; do
    out=$(/verif/check "$c" quick 2>&1); rc=$?
    res="$res $c=$rc"
    if [ $rc -ne 0 ]; then echo "$out" | grep -E "^(VIOLATION|  section|  scenario|INCONCLUSIVE|BUILD|error)" | head -4 | cut -c1-600; fi
  done
  git -C /repo checkout -- .
  cp -a "$EVBAK/." /verif/evidence/; rm -rf "$EVBAK"
  flock -u 8
  echo "$A/$n:$res"
  echo "$A/$n:$res" >> "$DST/results.txt"
done
