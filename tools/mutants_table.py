#!/usr/bin/env python3
"""Prints the markdown table of the last tools/mutants.py run (for DESIGN.md section 7.7)."""
import json
r = json.load(open('/verif/tools/mutants_last.json'))
print("| mutant | checks run (exit code, seconds) | caught |")
print("|---|---|---|")
n = c = 0
for name, status, res in r:
    n += 1
    if status != 'ran':
        print(f"| {name} | {status} | - |")
        continue
    cells = ", ".join(f"{k}={v[0]} ({v[1]}s)" for k, v in res.items())
    caught = [k for k, v in res.items() if v[0] == 1]
    c += bool(caught)
    print(f"| {name} | {cells} | {'yes: ' + ' '.join(caught) if caught else '**no**'} |")
print(f"\n{c} of {n} caught by at least one listed check.")
