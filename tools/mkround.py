#!/usr/bin/env python3
"""Writes the prompt for one round of independently written property-breaking changes.
   mkround.py <suffix> <ID>...   -> /tmp/prompt-<ID><suffix>.txt, creates worktree /tmp/wt-<ID><suffix> and /tmp/out-<ID><suffix>
The prompt contains the property text (as given in properties.jsonl) and one-line summaries of the changes
already collected for that property (so that the new one is different) - nothing about the checks."""
import json,sys,glob,os,subprocess
suffix=sys.argv[1]
props={json.loads(l)['id']:json.loads(l) for l in open('/verif/properties.jsonl')}
EXTRA=os.environ.get('ROUND_EXTRA','')
for pid in sys.argv[2:]:
    p=props[pid]; tag=pid+suffix
    used=[]
    for d in sorted(glob.glob(f'/verif/seeded/{pid}*')):
        try: m=json.load(open(d+'/meta.json'))
        except Exception: continue
        used.append('- '+m['summary'][:420].replace('\n',' ')+' ...')
    try:
        for t in json.load(open('/verif/tools/round7_lost.json')).get(pid,[]):
            if not t.startswith('('): used.append('- '+t+' ...')
    except Exception: pass
    wt=f'/tmp/wt-{tag}'; out=f'/tmp/out-{tag}'
    if not os.path.exists(wt):
        subprocess.check_call(['git','-C','/repo','worktree','add','--detach',wt,'HEAD'],stdout=subprocess.DEVNULL,stderr=subprocess.DEVNULL)
    os.makedirs(out+'/demo',exist_ok=True)
    txt=f"""You are helping to evaluate a verification harness by writing ONE realistic defect ("seeded change") for a Rust project.
Work ONLY inside the git worktree {wt} (a checkout of penguin-rs: a TCP/UDP tunnel over WebSocket with its own multiplexing
protocol penguin-v7 - read README.md, PROTOCOL.md and the code you need). Put deliverables in {out}/. Never read or write /repo or /verif.
The sandbox is offline: nothing can be fetched; only crates already in the workspace's Cargo.lock are available (always pass --offline, set CARGO_NET_OFFLINE=true).

THE PROPERTY (it holds on the unchanged code):
id: {pid}
title: {p.get('title','')}
statement: {p['statement']}
code anchors: {json.dumps(p.get('anchors',{}).get('files',[]))}
mechanisms: {json.dumps(p.get('anchors',{}).get('mechanism',[]))}

YOUR TASK: write one change to the production sources (not to tests) that BREAKS this property, such that
 (1) the whole workspace still compiles;
 (2) the existing test suite still passes with the change:  cd {wt} && unshare -n bash -c 'ip link set lo up; CARGO_NET_OFFLINE=true cargo test --workspace --no-fail-fast --offline'
     (the private network namespace matters: the suite uses fixed TCP ports and other people run it concurrently on this machine. Two tests fail in this sandbox even
     on unchanged code because there is no network - server::service::tests::test_backend_tls and tests::test_it_works_dns_v4 - ignore those two.
     While iterating, prefer `cargo test -p <crate> --offline`; run the whole suite once at the end. It takes a few minutes.);
 (3) it looks like something a maintainer could plausibly commit (an optimisation, a refactor, a hardening, a small feature, a clean-up) - not sabotage, no
     comments that give it away;
 (4) it does NOT show in ordinary use. It must need something specific to manifest: a particular interleaving or timing, a crash or fault at a particular point,
     a multi-step sequence of operations, an unusual input or configuration value, a rarely used entry point, or two cooperating sites that each look fine alone.
{EXTRA}
Changes already collected for this property (do NOT repeat them or close variants - pick a different mechanism and preferably a different place in the code):
{chr(10).join(used) if used else '(none)'}

DELIVERABLES in {out}/ :
 - patch.diff : `git diff` of the production-source change only (relative to HEAD, applicable with `git apply` from the repository root). The demonstration is NOT part of it.
 - demo/      : a demonstration - an integration test file (e.g. <crate>/tests/<name>.rs) or a small program - that FAILS (non-zero exit) with the change and PASSES (exit 0)
                without it, plus a README.md saying where the file goes. Install it in the worktree as well. It must be deterministic enough to fail every time with the change
                and pass every time without it.
 - meta.json  : {{"property": "{pid}", "summary": "<what was changed, where, the cover story, and why it breaks the property>", "needs": "<what exactly is needed for it to manifest>",
                 "files_changed": [...], "demo_cmd": "cd {wt} && CARGO_NET_OFFLINE=true cargo test --offline -p <crate> --test <name>", "suite_passes_with_change": true,
                 "demo_fails_with_change": true, "demo_passes_without_change": true}}
Verify the three claims yourself by running them (demo with the change, demo with the change reverted via `git apply -R`, the whole suite with the change).
Leave the worktree with the change APPLIED and the demonstration installed. Do not commit. Finish with a five-line summary of the change.
"""
    open(f'/tmp/prompt-{tag}.txt','w').write(txt)
    print(tag, len(used), 'earlier changes listed')
