#!/usr/bin/env bash
# Coverage-guided campaigns (libFuzzer via cargo-fuzz) for the thorough tier of C09 / C18 / C20.
# The oracle (differential / model) is inside each target; a crash is a violation and the crashing input is the replay file.
#   campaign.sh <ID>        (run after the proptest part of the thorough tier succeeded)
set -u
ROOT=/verif
cd "$ROOT/fuzz" || exit 3
export CARGO_NET_OFFLINE=true RUST_BACKTRACE=0
ID="$1"
case "$ID" in
  C09) TARGETS="frame_diff" ;;
  C18) TARGETS="socks_parse udp_header" ;;
  C20) TARGETS="longchain_ops" ;;
  *) exit 0 ;;
esac
RUNS="${VERIF_FUZZ_RUNS:-3000000}"
SEED="${VERIF_SEED:-20260924}"; [ "$SEED" = 0 ] && SEED=1
LOG=$(mktemp "$ROOT/target/.fuzz.XXXXXX.log")
if ! cargo +nightly fuzz build -s none --fuzz-dir . >"$LOG" 2>&1; then
  echo "BUILD-FAILED fuzz targets do not build against the current /repo tree"; grep -E "^error" -A 8 "$LOG" | head -40; rm -f "$LOG"; exit 3
fi
rc=0
for T in $TARGETS; do
  RUN_CORPUS="$ROOT/fuzz/corpus-run/$T"; rm -rf "$RUN_CORPUS"; mkdir -p "$RUN_CORPUS" "$ROOT/fuzz/artifacts/$T"
  cp "$ROOT/corpus/$T"/* "$RUN_CORPUS/" 2>/dev/null
  rm -f fuzz-*.log
  t0=$(date +%s)
  cargo +nightly fuzz run -s none --fuzz-dir . "$T" "$RUN_CORPUS" -- -runs="$RUNS" -seed="$SEED" -len_control=0 -max_len=4096 -workers=8 -jobs=8 -print_final_stats=1 >"$LOG" 2>&1
  frc=$?
  t1=$(date +%s)
  # with -jobs the per-job logs are fuzz-<n>.log in the cwd
  cat fuzz-*.log >>"$LOG" 2>/dev/null; rm -f fuzz-*.log
  execs=$(grep -ao "stat::number_of_executed_units: [0-9]*" "$LOG" | awk '{s+=$2} END {print s+0}')
  corpus=$(ls "$RUN_CORPUS" | wc -l)
  crash=$(ls "$ROOT/fuzz/artifacts/$T"/crash-* 2>/dev/null | head -1)
  python3 - "$ID" "$T" "$execs" "$corpus" "$((t1-t0))" "${crash:-}" <<'PY'
import json,sys
pid,t,execs,corpus,secs,crash=sys.argv[1:7]
p=f'/verif/evidence/{pid}.json'
e=json.load(open(p))
e['coverage'].setdefault('fuzz_campaigns',[]).append({"engine":"libFuzzer (cargo-fuzz)","target":t,"executions":int(execs),"final_corpus_files":int(corpus),"wall_s":int(secs),"crash":crash or None,"oracle":"same differential/model oracle as the proptest sections, inside the target"})
e['coverage']['evaluations']+=int(execs)
if crash: e['violations']=e.get('violations',0)+1
json.dump(e,open(p,'w'),indent=1)
PY
  if [ -n "${crash:-}" ]; then
    echo "VIOLATION property=$ID replay=$crash"
    grep -a "violation \[" "$LOG" | head -3
    rc=1
  elif [ $frc -ne 0 ]; then
    echo "INCONCLUSIVE property=$ID fuzz target $T ended with status $frc without a crash artifact"; tail -5 "$LOG"
    [ $rc -eq 0 ] && rc=2
  else
    echo "FUZZ property=$ID target=$T executions=$execs corpus=$corpus wall=$((t1-t0))s ok"
  fi
done
rm -f "$LOG"
exit $rc
