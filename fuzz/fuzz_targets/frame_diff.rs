#![no_main]
//! C09, oracle O2 inside the target: decode must not panic, accept exactly what the reference codec accepts,
//! yield the prescribed fields and re-encode canonically.
use libfuzzer_sys::fuzz_target;
use vf_common::Verdict;
use vf_pure::c09::{check_decode, DecCase};

static HOOK: std::sync::Once = std::sync::Once::new();

fuzz_target!(|data: &[u8]| {
    // tolerated panics (out-of-range arguments run under catch_unwind by the oracle) must not abort the fuzzer
    HOOK.call_once(vf_common::install_panic_hook);
    let out = check_decode(&DecCase { bytes: data.to_vec() });
    if let Verdict::Violation { sig, msg } = out.verdict {
        panic!("C09 violation [{sig}] {msg}");
    }
});
