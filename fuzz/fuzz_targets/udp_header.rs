#![no_main]
//! C18: UDP relay header. Parsing raw bytes must agree with the independent client-side parser (FRAG = 0, known ATYP),
//! and building a reply for any address/payload must parse back as a conforming client would.
use bytes::Bytes;
use libfuzzer_sys::fuzz_target;
use vf_ref::socks as rs;

static HOOK: std::sync::Once = std::sync::Once::new();

fuzz_target!(|data: &[u8]| {
    // tolerated panics (out-of-range arguments run under catch_unwind by the oracle) must not abort the fuzzer
    HOOK.call_once(vf_common::install_panic_hook);
    // parse direction
    let got = penguin_socks::v5::parse_udp_relay_header(Bytes::copy_from_slice(data));
    let reference = if data.len() >= 3 && data[2] != 0 { Err("frag".to_string()) } else { rs::parse_udp_datagram(&[&[0u8, 0][..], data.get(2..).unwrap_or(&[])].concat()).and_then(|x| if data.len() < 4 { Err("short".into()) } else { Ok(x) }) };
    match (&got, &reference) {
        (Ok((h, p, d)), Ok((a, rp, rd))) => {
            assert!(rs::host_matches(a, h) && p == rp && d.as_ref() == rd.as_slice(), "C18 violation [udp-parse-fields] {:02x?}: got ({h:?},{p},{}B) reference ({a:?},{rp},{}B)", &data[..data.len().min(30)], d.len(), rd.len());
        }
        (Ok(x), Err(e)) => panic!("C18 violation [udp-parse-accepts] {:02x?} accepted as {:?} but is not a valid relay request: {e}", &data[..data.len().min(30)], (&x.0, x.1)),
        (Err(e), Ok(_)) => panic!("C18 violation [udp-parse-rejects] well-formed relay request {:02x?} rejected: {e}", &data[..data.len().min(30)]),
        (Err(_), Err(_)) => {}
    }
    // build direction
    if data.len() >= 19 {
        let port = u16::from_be_bytes([data[1], data[2]]);
        let sa: std::net::SocketAddr = if data[0] & 1 == 0 {
            (std::net::Ipv4Addr::new(data[3], data[4], data[5], data[6]), port).into()
        } else {
            let mut a = [0u8; 16];
            a.copy_from_slice(&data[3..19]);
            (std::net::Ipv6Addr::from(a), port).into()
        };
        let payload = &data[19..];
        let built = penguin_socks::v5::udp_relay_response(sa, payload);
        match rs::parse_udp_datagram(&built) {
            Ok((a, p, d)) => assert!(a == rs::addr_of_socket(sa) && p == port && d == payload, "C18 violation [udp-build-fields] {sa}"),
            Err(e) => panic!("C18 violation [udp-build-malformed] udp_relay_response({sa}, {}B) cannot be parsed by a conforming client: {e}", payload.len()),
        }
    }
});
