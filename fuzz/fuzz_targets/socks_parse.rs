#![no_main]
//! C18: raw bytes are fed to the SOCKS5 / SOCKS4 request readers; an accepted request must re-encode (independent
//! RFC grammar) to exactly the bytes that were consumed, a rejected one must not be a well-formed request.
use libfuzzer_sys::fuzz_target;
use vf_pure::c18::{drive, ChunkedIo};
use vf_ref::socks::{self as rs, Addr5};

fn addr_from(atyp: u8, host: &[u8]) -> Option<Addr5> {
    let s = std::str::from_utf8(host).ok();
    match atyp {
        1 => s?.parse::<std::net::Ipv4Addr>().ok().map(|a| Addr5::V4(a.octets())),
        4 => s?.parse::<std::net::Ipv6Addr>().ok().map(|a| Addr5::V6(a.octets())),
        3 => Some(Addr5::Domain(host.to_vec())),
        _ => None,
    }
}

static HOOK: std::sync::Once = std::sync::Once::new();

fuzz_target!(|data: &[u8]| {
    // tolerated panics (out-of-range arguments run under catch_unwind by the oracle) must not abort the fuzzer
    HOOK.call_once(vf_common::install_panic_hook);
    if data.is_empty() {
        return;
    }
    let chunks: Vec<u8> = vec![1 + (data[0] & 7)];
    let body = &data[1..];
    // --- SOCKS5
    let mut io = ChunkedIo::new(body.to_vec(), chunks.clone(), false);
    match drive(penguin_socks::v5::read_request(&mut io)) {
        None => panic!("C18 violation [req-stuck] v5 reader pending on an input that ended with EOF: {body:02x?}"),
        Some(Ok((cmd, host, port))) => {
            let n = io.consumed();
            let addr = addr_from(body[3], &host).unwrap_or_else(|| panic!("C18 violation [req-fields] accepted v5 request with unparseable host {host:?} for ATYP {}", body[3]));
            let want = rs::v5_request(5, cmd, body[2], &addr, port);
            assert!(body[..n] == want[..], "C18 violation [req-fields:v5] consumed {:02x?} but (cmd {cmd}, {addr:?}, port {port}) encodes to {want:02x?}", &body[..n]);
        }
        Some(Err(_)) => {
            // must not be a complete well-formed request
            if body.len() >= 4 && body[0] == 5 {
                let need = match body[3] {
                    1 => Some(4 + 4 + 2),
                    4 => Some(4 + 16 + 2),
                    3 => body.get(4).map(|l| 5 + *l as usize + 2),
                    _ => None,
                };
                if let Some(n) = need {
                    assert!(body.len() < n, "C18 violation [req-rejected:v5] well-formed SOCKS5 request {:02x?} rejected", &body[..n]);
                }
            }
        }
    }
    // --- SOCKS4 / 4a (after the version byte)
    let mut io = ChunkedIo::new(body.to_vec(), chunks, false);
    match drive(penguin_socks::v4::read_request(&mut io)) {
        None => panic!("C18 violation [req-stuck] v4 reader pending on an input that ended with EOF"),
        Some(Ok((cmd, host, port))) => {
            let n = io.consumed();
            assert!(n <= body.len() && body.len() >= 7, "C18 violation [trunc-accepted:v4] accepted a request shorter than its fixed part");
            let ip = [body[3], body[4], body[5], body[6]];
            // user id = bytes up to the first NUL after the fixed part
            let rest = &body[7..n];
            let nul = rest.iter().position(|b| *b == 0).unwrap_or_else(|| panic!("C18 violation [trunc-accepted:v4] accepted a request whose user-id has no terminator: {:02x?}", &body[..n]));
            let userid = &rest[..nul];
            let want = if ip[0] == 0 {
                assert!(rest.last() == Some(&0) && rest.len() > nul + 1 || rest.len() == nul + 1 && false || rest[nul + 1..].last() == Some(&0), "C18 violation [trunc-accepted:v4] domain without terminator accepted: {:02x?}", &body[..n]);
                rs::v4_request_after_vn(cmd, port, ip, userid, Some(&host))
            } else {
                let a: std::net::Ipv4Addr = std::str::from_utf8(&host).ok().and_then(|s| s.parse().ok()).unwrap_or_else(|| panic!("C18 violation [req-fields:v4] host {host:?} is not an IPv4 address"));
                assert!(a.octets() == ip, "C18 violation [req-fields:v4] host {a} for DSTIP {ip:?}");
                rs::v4_request_after_vn(cmd, port, ip, userid, None)
            };
            assert!(body[..n] == want[..], "C18 violation [req-fields:v4] consumed {:02x?} but the returned fields encode to {want:02x?}", &body[..n]);
        }
        Some(Err(_)) => {}
    }
});
