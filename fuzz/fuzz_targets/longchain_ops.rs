#![no_main]
//! C20: bytes are decoded into an operation history (arbitrary::Unstructured), the model oracle runs inside the target.
use arbitrary::Unstructured;
use libfuzzer_sys::fuzz_target;
use vf_common::Verdict;
use vf_pure::c20::{run_chain, Arg, ChainCase, IdxSel, Op, Seg};

fn seg(u: &mut Unstructured<'_>) -> arbitrary::Result<Seg> {
    let n = u.int_in_range(0..=9usize)?;
    let start: u8 = u.arbitrary()?;
    Ok(Seg { owned: u.arbitrary()?, bytes: (0..n).map(|i| start.wrapping_add(i as u8)).collect() })
}
fn arg(u: &mut Unstructured<'_>) -> arbitrary::Result<Arg> {
    Ok(match u.int_in_range(0..=7u8)? {
        0 => Arg::Zero,
        1 => Arg::Boundary(u.arbitrary()?),
        2 => Arg::BoundaryPlus1(u.arbitrary()?),
        3 => Arg::BoundaryMinus1(u.arbitrary()?),
        4 => Arg::Total,
        5 => Arg::TotalPlus1,
        6 => Arg::Large,
        _ => Arg::Raw(u.int_in_range(0..=80u16)?),
    })
}
fn idx(u: &mut Unstructured<'_>) -> arbitrary::Result<IdxSel> {
    Ok(match u.int_in_range(0..=4u8)? {
        0 => IdxSel::First,
        1 => IdxSel::Last,
        2 => IdxSel::Len,
        3 => IdxSel::LenPlus1,
        _ => IdxSel::Raw(u.int_in_range(0..=8u8)?),
    })
}

static HOOK: std::sync::Once = std::sync::Once::new();

fuzz_target!(|data: &[u8]| {
    // tolerated panics (out-of-range arguments run under catch_unwind by the oracle) must not abort the fuzzer
    HOOK.call_once(vf_common::install_panic_hook);
    let mut u = Unstructured::new(data);
    let mut case = ChainCase { init: vec![], ops: vec![] };
    let ninit = u.int_in_range(0..=5usize).unwrap_or(0);
    for _ in 0..ninit {
        if let Ok(s) = seg(&mut u) {
            case.init.push(s);
        }
    }
    while !u.is_empty() && case.ops.len() < 64 {
        let op = (|| -> arbitrary::Result<Op> {
            Ok(match u.int_in_range(0..=9u8)? {
                0 => Op::Push(seg(&mut u)?),
                1 => Op::Insert(idx(&mut u)?, seg(&mut u)?),
                2 => Op::Pop,
                3 => Op::Remove(idx(&mut u)?),
                4 => Op::SplitTo(arg(&mut u)?),
                5 => Op::SplitOff(arg(&mut u)?),
                6 => Op::Truncate(arg(&mut u)?),
                7 => Op::Advance(arg(&mut u)?),
                8 => Op::Clear,
                _ => Op::Switch(u.arbitrary()?),
            })
        })();
        match op {
            Ok(o) => case.ops.push(o),
            Err(_) => break,
        }
    }
    if let Verdict::Violation { sig, msg } = run_chain(&case).verdict {
        panic!("C20 violation [{sig}] {msg}\ncase: {case:?}");
    }
});
