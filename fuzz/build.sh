#!/usr/bin/env bash
cd /verif/fuzz && CARGO_NET_OFFLINE=true cargo +nightly fuzz build -s none --fuzz-dir . >/dev/null 2>&1
