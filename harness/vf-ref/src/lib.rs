//! Independent reference code written from PROTOCOL.md, RFC 1928, the SOCKS4/4a
//! memo and RFC 6455. Never calls the code under test.

pub mod frame {
    //! penguin-v7 frame layout (PROTOCOL.md "Data Framing").
    #[derive(Clone, Debug, PartialEq, Eq, Hash)]
    pub enum RFrame {
        Connect { id: u32, rwnd: u32, port: u16, host: Vec<u8> },
        Acknowledge { id: u32, n: u32 },
        Reset { id: u32 },
        Finish { id: u32 },
        Push { id: u32, data: Vec<u8> },
        Bind { id: u32, btype: u8, port: u16, host: Vec<u8> },
        Datagram { id: u32, port: u16, host: Vec<u8>, data: Vec<u8> },
    }

    impl RFrame {
        pub fn id(&self) -> u32 {
            match self {
                RFrame::Connect { id, .. }
                | RFrame::Acknowledge { id, .. }
                | RFrame::Reset { id }
                | RFrame::Finish { id }
                | RFrame::Push { id, .. }
                | RFrame::Bind { id, .. }
                | RFrame::Datagram { id, .. } => *id,
            }
        }
        pub fn op(&self) -> u8 {
            match self {
                RFrame::Connect { .. } => 0,
                RFrame::Acknowledge { .. } => 1,
                RFrame::Reset { .. } => 2,
                RFrame::Finish { .. } => 3,
                RFrame::Push { .. } => 4,
                RFrame::Bind { .. } => 5,
                RFrame::Datagram { .. } => 6,
            }
        }
        pub fn op_name(&self) -> &'static str {
            ["Connect", "Acknowledge", "Reset", "Finish", "Push", "Bind", "Datagram"][self.op() as usize]
        }
    }

    pub const VERSION: u8 = 7;

    /// Canonical encoding (version nibble 7). Datagram hosts longer than 255 are not encodable.
    pub fn encode(f: &RFrame) -> Option<Vec<u8>> {
        let mut v = Vec::new();
        v.push((VERSION << 4) | f.op());
        v.extend_from_slice(&f.id().to_be_bytes());
        match f {
            RFrame::Connect { rwnd, port, host, .. } => {
                v.extend_from_slice(&rwnd.to_be_bytes());
                v.extend_from_slice(&port.to_be_bytes());
                v.extend_from_slice(host);
            }
            RFrame::Acknowledge { n, .. } => v.extend_from_slice(&n.to_be_bytes()),
            RFrame::Reset { .. } | RFrame::Finish { .. } => {}
            RFrame::Push { data, .. } => v.extend_from_slice(data),
            RFrame::Bind { btype, port, host, .. } => {
                v.push(*btype);
                v.extend_from_slice(&port.to_be_bytes());
                v.extend_from_slice(host);
            }
            RFrame::Datagram { port, host, data, .. } => {
                if host.len() > 255 {
                    return None;
                }
                v.push(host.len() as u8);
                v.extend_from_slice(&port.to_be_bytes());
                v.extend_from_slice(host);
                v.extend_from_slice(data);
            }
        }
        Some(v)
    }

    #[derive(Clone, Copy, Debug, PartialEq, Eq)]
    pub enum RErr {
        Short,
        Version(u8),
        OpCode(u8),
        BindType(u8),
    }

    fn be32(b: &[u8]) -> u32 {
        u32::from_be_bytes([b[0], b[1], b[2], b[3]])
    }
    fn be16(b: &[u8]) -> u16 {
        u16::from_be_bytes([b[0], b[1]])
    }

    /// Valid iff: at least 5 bytes; version nibble 7 (or 0, the documented lenient form);
    /// opcode 0..=6; the fixed-size fields of the opcode are present (minimum layouts only:
    /// bytes after Acknowledge/Reset/Finish fields are ignored); bind type 1 or 3;
    /// datagram host length within the frame.
    pub fn decode(b: &[u8]) -> Result<RFrame, RErr> {
        if b.is_empty() {
            return Err(RErr::Short);
        }
        // the header must be complete before anything is interpreted
        if b.len() < 5 {
            return Err(RErr::Short);
        }
        let ver = b[0] >> 4;
        if ver != VERSION && ver != 0 {
            return Err(RErr::Version(ver));
        }
        let op = b[0] & 0x0f;
        if op > 6 {
            return Err(RErr::OpCode(op));
        }
        let id = be32(&b[1..5]);
        let r = &b[5..];
        Ok(match op {
            0 => {
                if r.len() < 6 {
                    return Err(RErr::Short);
                }
                RFrame::Connect { id, rwnd: be32(&r[0..4]), port: be16(&r[4..6]), host: r[6..].to_vec() }
            }
            1 => {
                if r.len() < 4 {
                    return Err(RErr::Short);
                }
                RFrame::Acknowledge { id, n: be32(&r[0..4]) }
            }
            2 => RFrame::Reset { id },
            3 => RFrame::Finish { id },
            4 => RFrame::Push { id, data: r.to_vec() },
            5 => {
                if r.len() < 3 {
                    return Err(RErr::Short);
                }
                let btype = r[0];
                if btype != 1 && btype != 3 {
                    return Err(RErr::BindType(btype));
                }
                RFrame::Bind { id, btype, port: be16(&r[1..3]), host: r[3..].to_vec() }
            }
            6 => {
                if r.is_empty() {
                    return Err(RErr::Short);
                }
                let hl = r[0] as usize;
                if r.len() < 1 + 2 + hl {
                    return Err(RErr::Short);
                }
                RFrame::Datagram { id, port: be16(&r[1..3]), host: r[3..3 + hl].to_vec(), data: r[3 + hl..].to_vec() }
            }
            _ => unreachable!(),
        })
    }
}

pub mod socks {
    //! RFC 1928 / SOCKS4 / SOCKS4a wire grammar (client side: builds requests, parses replies).
    use std::net::{IpAddr, Ipv4Addr, Ipv6Addr, SocketAddr};

    #[derive(Clone, Debug, PartialEq, Eq, Hash)]
    pub enum Addr5 {
        V4([u8; 4]),
        Domain(Vec<u8>), // <= 255
        V6([u8; 16]),
    }

    impl Addr5 {
        pub fn atyp(&self) -> u8 {
            match self {
                Addr5::V4(_) => 1,
                Addr5::Domain(_) => 3,
                Addr5::V6(_) => 4,
            }
        }
        pub fn wire(&self) -> Vec<u8> {
            let mut v = vec![self.atyp()];
            match self {
                Addr5::V4(a) => v.extend_from_slice(a),
                Addr5::Domain(d) => {
                    v.push(d.len() as u8);
                    v.extend_from_slice(d);
                }
                Addr5::V6(a) => v.extend_from_slice(a),
            }
            v
        }
    }

    /// VER CMD RSV ATYP DST.ADDR DST.PORT
    pub fn v5_request(ver: u8, cmd: u8, rsv: u8, addr: &Addr5, port: u16) -> Vec<u8> {
        let mut v = vec![ver, cmd, rsv];
        v.extend(addr.wire());
        v.extend_from_slice(&port.to_be_bytes());
        v
    }

    /// SOCKS4/4a request *after* the version byte (the crate's reader expects VN consumed):
    /// CD DSTPORT DSTIP USERID NUL [DOMAIN NUL]
    pub fn v4_request_after_vn(cmd: u8, port: u16, ip: [u8; 4], userid: &[u8], domain: Option<&[u8]>) -> Vec<u8> {
        let mut v = vec![cmd];
        v.extend_from_slice(&port.to_be_bytes());
        v.extend_from_slice(&ip);
        v.extend_from_slice(userid);
        v.push(0);
        if let Some(d) = domain {
            v.extend_from_slice(d);
            v.push(0);
        }
        v
    }

    /// RFC 1928 §6 reply: VER REP RSV ATYP BND.ADDR BND.PORT
    pub fn v5_reply(rep: u8, bound: SocketAddr) -> Vec<u8> {
        let mut v = vec![5, rep, 0];
        match bound.ip() {
            IpAddr::V4(a) => {
                v.push(1);
                v.extend_from_slice(&a.octets());
            }
            IpAddr::V6(a) => {
                v.push(4);
                v.extend_from_slice(&a.octets());
            }
        }
        v.extend_from_slice(&bound.port().to_be_bytes());
        v
    }

    /// SOCKS4 reply: VN(0) CD DSTPORT DSTIP (port/ip ignored by clients for CONNECT; zero here)
    pub fn v4_reply(cd: u8) -> Vec<u8> {
        vec![0, cd, 0, 0, 0, 0, 0, 0]
    }

    /// Client-side parser of a UDP relay datagram (RFC 1928 §7):
    /// RSV(2) FRAG(1) ATYP(1) DST.ADDR DST.PORT DATA
    pub fn parse_udp_datagram(b: &[u8]) -> Result<(Addr5, u16, Vec<u8>), String> {
        if b.len() < 4 {
            return Err("short header".into());
        }
        if b[0] != 0 || b[1] != 0 {
            return Err(format!("RSV not zero: {:02x}{:02x}", b[0], b[1]));
        }
        if b[2] != 0 {
            return Err(format!("FRAG {} != 0", b[2]));
        }
        let (addr, rest) = match b[3] {
            1 => {
                if b.len() < 4 + 4 + 2 {
                    return Err("short v4".into());
                }
                (Addr5::V4([b[4], b[5], b[6], b[7]]), &b[8..])
            }
            3 => {
                if b.len() < 5 {
                    return Err("short domain len".into());
                }
                let l = b[4] as usize;
                if b.len() < 5 + l + 2 {
                    return Err("short domain".into());
                }
                (Addr5::Domain(b[5..5 + l].to_vec()), &b[5 + l..])
            }
            4 => {
                if b.len() < 4 + 16 + 2 {
                    return Err("short v6".into());
                }
                let mut a = [0u8; 16];
                a.copy_from_slice(&b[4..20]);
                (Addr5::V6(a), &b[20..])
            }
            x => return Err(format!("ATYP {x} unknown")),
        };
        let port = u16::from_be_bytes([rest[0], rest[1]]);
        Ok((addr, port, rest[2..].to_vec()))
    }

    /// Build a UDP relay request as a client would.
    pub fn udp_datagram(rsv: [u8; 2], frag: u8, addr: &Addr5, port: u16, data: &[u8]) -> Vec<u8> {
        let mut v = vec![rsv[0], rsv[1], frag];
        v.extend(addr.wire());
        v.extend_from_slice(&port.to_be_bytes());
        v.extend_from_slice(data);
        v
    }

    pub fn addr_of_socket(s: SocketAddr) -> Addr5 {
        match s.ip() {
            IpAddr::V4(a) => Addr5::V4(a.octets()),
            IpAddr::V6(a) => Addr5::V6(a.octets()),
        }
    }

    /// How the tunnel represents an address as host bytes: textual IP, or the raw domain.
    /// Comparison helper: parse text back to an IP (the textual form is not unique).
    pub fn host_matches(addr: &Addr5, got: &[u8]) -> bool {
        match addr {
            Addr5::Domain(d) => d.as_slice() == got,
            Addr5::V4(a) => std::str::from_utf8(got).ok().and_then(|s| s.parse::<Ipv4Addr>().ok()) == Some(Ipv4Addr::from(*a)),
            Addr5::V6(a) => std::str::from_utf8(got).ok().and_then(|s| s.parse::<Ipv6Addr>().ok()) == Some(Ipv6Addr::from(*a)),
        }
    }
}

pub mod ws {
    //! RFC 6455 accept hash with an own SHA-1 and base64.
    pub fn sha1(data: &[u8]) -> [u8; 20] {
        let mut h: [u32; 5] = [0x67452301, 0xEFCDAB89, 0x98BADCFE, 0x10325476, 0xC3D2E1F0];
        let ml = (data.len() as u64) * 8;
        let mut msg = data.to_vec();
        msg.push(0x80);
        while msg.len() % 64 != 56 {
            msg.push(0);
        }
        msg.extend_from_slice(&ml.to_be_bytes());
        for chunk in msg.chunks(64) {
            let mut w = [0u32; 80];
            for i in 0..16 {
                w[i] = u32::from_be_bytes([chunk[4 * i], chunk[4 * i + 1], chunk[4 * i + 2], chunk[4 * i + 3]]);
            }
            for i in 16..80 {
                w[i] = (w[i - 3] ^ w[i - 8] ^ w[i - 14] ^ w[i - 16]).rotate_left(1);
            }
            let (mut a, mut b, mut c, mut d, mut e) = (h[0], h[1], h[2], h[3], h[4]);
            for (i, wi) in w.iter().enumerate() {
                let (f, k) = match i {
                    0..=19 => ((b & c) | (!b & d), 0x5A827999u32),
                    20..=39 => (b ^ c ^ d, 0x6ED9EBA1),
                    40..=59 => ((b & c) | (b & d) | (c & d), 0x8F1BBCDC),
                    _ => (b ^ c ^ d, 0xCA62C1D6),
                };
                let t = a.rotate_left(5).wrapping_add(f).wrapping_add(e).wrapping_add(k).wrapping_add(*wi);
                e = d;
                d = c;
                c = b.rotate_left(30);
                b = a;
                a = t;
            }
            h[0] = h[0].wrapping_add(a);
            h[1] = h[1].wrapping_add(b);
            h[2] = h[2].wrapping_add(c);
            h[3] = h[3].wrapping_add(d);
            h[4] = h[4].wrapping_add(e);
        }
        let mut out = [0u8; 20];
        for i in 0..5 {
            out[4 * i..4 * i + 4].copy_from_slice(&h[i].to_be_bytes());
        }
        out
    }

    pub fn base64(data: &[u8]) -> String {
        const T: &[u8; 64] = b"ABCDEFGHIJKLMNOPQRSTUVWXYZabcdefghijklmnopqrstuvwxyz0123456789+/";
        let mut s = String::new();
        for c in data.chunks(3) {
            let b = [c[0], *c.get(1).unwrap_or(&0), *c.get(2).unwrap_or(&0)];
            let n = (u32::from(b[0]) << 16) | (u32::from(b[1]) << 8) | u32::from(b[2]);
            s.push(T[(n >> 18) as usize & 63] as char);
            s.push(T[(n >> 12) as usize & 63] as char);
            s.push(if c.len() > 1 { T[(n >> 6) as usize & 63] as char } else { '=' });
            s.push(if c.len() > 2 { T[n as usize & 63] as char } else { '=' });
        }
        s
    }

    pub fn accept_hash(key: &[u8]) -> String {
        let mut v = key.to_vec();
        v.extend_from_slice(b"258EAFA5-E914-47DA-95CA-C5AB0DC85B11");
        base64(&sha1(&v))
    }

    #[cfg(test)]
    mod tests {
        #[test]
        fn rfc6455_example() {
            assert_eq!(super::accept_hash(b"dGhlIHNhbXBsZSBub25jZQ=="), "s3pPLMBiTxaQ9kYGzzhZRbK+xOo=");
            assert_eq!(super::base64(&super::sha1(b"abc")), "qZk+NkcGgWq6PiVxeFDCbJzQ2J0=");
        }
    }
}
