//! C19 – the client survives connection loss: bounded back-off, retry limit, no lost request.
//! Real client (client_main_inner) against a scripted fake server on loopback.
use penguin_mux::timing::OptionalDuration;
use penguin_mux::Multiplexor;
use proptest::prelude::*;
use rusty_penguin_lib::arg::{ClientArgs, LocalSpec, Protocol, Remote, RemoteSpec, ServerUrl};
use rusty_penguin_lib::client::{client_main_inner, HandlerResources};
use serde::{Deserialize, Serialize};
use std::path::PathBuf;
use std::str::FromStr;
use std::sync::atomic::{AtomicU64, Ordering};
use std::sync::{Arc, Mutex, OnceLock};
use std::time::{Duration, Instant};
use tokio::io::{AsyncReadExt, AsyncWriteExt};
use tokio::net::{TcpListener, UnixStream};
use vf_common::{Ctx, Outcome, Report};

#[derive(Clone, Copy, Debug, Hash, PartialEq, Eq, Serialize, Deserialize)]
pub enum Attempt {
    /// accept the TCP connection and close it at once
    AcceptAndDrop,
    /// accept and never answer the HTTP upgrade (client: handshake timeout)
    AcceptAndStall,
    /// answer the upgrade with 403 (not retryable)
    Http403,
    /// complete the handshake, serve, then close the WebSocket in an orderly way after d ms
    ServeThenClose(u16),
    /// complete the handshake, serve, then drop the TCP connection abruptly after d ms
    ServeThenDrop(u16),
    /// complete the handshake but never answer anything (stream requests time out)
    HandshakeThenSilent,
    /// complete the handshake, never answer anything, drop the TCP connection after d ms (a pending stream request fails)
    SilentThenDrop(u16),
    /// serve until the end of the case
    Healthy,
}

#[derive(Clone, Debug, Hash, PartialEq, Eq, Serialize, Deserialize)]
pub struct ClientCase {
    pub script: Vec<Attempt>,
    pub max_retry_count: u32,
    pub max_retry_interval: u64,
    /// open a local connection right after this attempt was observed (None: no local connection)
    pub local_after_attempt: Option<u8>,
    pub local_delay_ms: u16,
    /// datagrams sent to the client's UDP remote right after the first connection attempt was seen (for scripts that start with
    /// a failure: while the tunnel is down and nobody drains the client's datagram queue)
    #[serde(default)]
    pub udp_burst: u16,
    /// the server's abrupt drops are TCP resets (SO_LINGER 0: the client sees ECONNRESET, a retryable reason) instead of FINs
    #[serde(default)]
    pub tcp_reset: bool,
    /// wss: the tunnel runs over TLS (the fake server presents a certificate for 127.0.0.1 under a CA the client is given);
    /// connections cut before or during the TLS handshake are retryable failures like any other
    #[serde(default)]
    pub tls: bool,
    /// handshake timeout of the client in ms (0 = the 1 s all timing oracles assume)
    #[serde(default)]
    pub handshake_timeout_ms: u32,
    /// further local connections opened together with the first one, each through another kind of local listener
    /// (0 = the Unix-socket remote again, 1 = a TCP remote, 2 = the SOCKS5 listener (CONNECT by domain), 3 = the HTTP CONNECT listener):
    /// every listener stays open while the tunnel is down and every accepted connection is served by the next successful connection
    #[serde(default)]
    pub extra_locals: Vec<u8>,
    /// after an orderly close (`ServeThenClose`: Close frames exchanged) the server does NOT close the TCP connection (it lingers, as a
    /// busy or sloppy server or a middlebox may): the client's connection task then waits for an end-of-file that does not come. The
    /// client need not notice while it is idle, but the next local connection must still be served - by a new tunnel connection.
    #[serde(default)]
    pub linger_tcp: bool,
}

pub fn rt() -> &'static tokio::runtime::Runtime {
    static RT: OnceLock<tokio::runtime::Runtime> = OnceLock::new();
    RT.get_or_init(|| {
        rusty_penguin_lib::tls::init_crypto_provider();
        tokio::runtime::Builder::new_multi_thread().worker_threads(16).enable_all().build().expect("rt")
    })
}

static UNIQ: AtomicU64 = AtomicU64::new(0);

pub fn tmp_dir() -> PathBuf {
    let p = PathBuf::from(format!("{}/target/tmp", vf_common::out_root()));
    std::fs::create_dir_all(&p).ok();
    p
}

/// plain TCP or TLS over TCP, behind one type
pub trait AsyncRw: tokio::io::AsyncRead + tokio::io::AsyncWrite + Unpin + Send {}
impl<T: tokio::io::AsyncRead + tokio::io::AsyncWrite + Unpin + Send> AsyncRw for T {}
pub type DynStream = Box<dyn AsyncRw>;

/// server identity of the wss cases: one CA and one leaf for 127.0.0.1, generated once per process
pub struct TlsFix {
    pub cfg: Arc<rustls::ServerConfig>,
    pub ca_path: String,
    _files: crate::c17::Files,
}
pub fn tls_fix() -> &'static TlsFix {
    static F: OnceLock<TlsFix> = OnceLock::new();
    F.get_or_init(|| {
        let files = crate::c17::Files::new();
        let ca = crate::c17::make_ca("c19 ca", 0);
        let leaf = crate::c17::make_leaf(&["127.0.0.1".to_string()], "c19 leaf", Some(&ca), 0, false);
        let (cp, kp, ca_path) = (files.write("cert.pem", &leaf.0), files.write("key.pem", &leaf.1), files.write("ca.pem", &ca.pem));
        let cfg = rt().block_on(rusty_penguin_lib::tls::make_server_config(&cp, &kp, None)).expect("server config");
        TlsFix { cfg: Arc::new(cfg), ca_path, _files: files }
    })
}

#[derive(Debug, Default)]
pub struct Obs {
    /// time of each accepted connection attempt (ms since start), and when its failure was made visible to the client
    pub attempts: Vec<(u64, Attempt, Option<u64>)>,
    /// datagrams that reached the fake server through the tunnel and were sent back by it: (payload number, ms since start)
    pub dgram_echoed: Vec<(u16, u64)>,
}

struct AbortOnDrop(tokio::task::JoinHandle<()>);
impl Drop for AbortOnDrop {
    fn drop(&mut self) {
        self.0.abort();
    }
}

async fn serve_mux(ws: tokio_tungstenite::WebSocketStream<DynStream>, how: Attempt, obs: Arc<Mutex<Obs>>, idx: usize, t0: Instant) {
    let mut js = tokio::task::JoinSet::new();
    let mux = Multiplexor::new_with_opt(ws, penguin_mux::config::Options::new(), Some(&mut js));
    let mux = Arc::new(mux);
    let m2 = mux.clone();
    let acceptor = tokio::spawn(async move {
        while let Ok(mut s) = m2.accept_stream_channel().await {
            tokio::spawn(async move {
                let mut buf = vec![0u8; 4096];
                loop {
                    match s.read(&mut buf).await {
                        Ok(0) | Err(_) => break,
                        Ok(n) => {
                            if s.write_all(&buf[..n]).await.is_err() {
                                break;
                            }
                        }
                    }
                }
                s.shutdown().await.ok();
            });
        }
    });
    // every datagram that arrives through the tunnel is sent straight back (same flow id, host and port: the target's reply)
    let (m3, obs3) = (mux.clone(), obs.clone());
    let dg_echo = tokio::spawn(async move {
        while let Ok(d) = m3.get_datagram().await {
            if d.data.len() == 2 {
                obs3.lock().unwrap().dgram_echoed.push((u16::from_be_bytes([d.data[0], d.data[1]]), t0.elapsed().as_millis() as u64));
            }
            if m3.send_datagram(d).await.is_err() {
                break;
            }
        }
    });
    match how {
        Attempt::ServeThenClose(d) => {
            tokio::time::sleep(Duration::from_millis(d as u64)).await;
            obs.lock().unwrap().attempts[idx].2 = Some(t0.elapsed().as_millis() as u64);
            acceptor.abort();
            let _ = acceptor.await;
            // (the echo task holds a reference to the multiplexor too: it has to go first)
            dg_echo.abort();
            let _ = dg_echo.await;
            drop(mux); // orderly: queued frames are flushed and a Close is sent
            while js.join_next().await.is_some() {}
        }
        Attempt::ServeThenDrop(d) => {
            tokio::time::sleep(Duration::from_millis(d as u64)).await;
            obs.lock().unwrap().attempts[idx].2 = Some(t0.elapsed().as_millis() as u64);
            // abrupt: the connection task (which owns the socket) is killed, no Close frame
            js.abort_all();
            acceptor.abort();
            dg_echo.abort();
            while js.join_next().await.is_some() {}
        }
        _ => {
            // healthy: until the case is over (the task is aborted with the server)
            let _dg_guard = AbortOnDrop(dg_echo);
            while js.join_next().await.is_some() {}
        }
    }
}

async fn fake_server(listener: TcpListener, script: Vec<Attempt>, obs: Arc<Mutex<Obs>>, t0: Instant, tcp_reset: bool, tls: Option<Arc<rustls::ServerConfig>>, linger_tcp: bool) {
    let mut n = 0usize;
    let mut held: Vec<tokio::net::TcpStream> = vec![];
    let mut lingering: Vec<std::net::TcpStream> = vec![];
    loop {
        let Ok((mut stream, _)) = listener.accept().await else { continue };
        let how = script.get(n).copied().unwrap_or(*script.last().unwrap());
        if tcp_reset && matches!(how, Attempt::AcceptAndDrop | Attempt::ServeThenDrop(_) | Attempt::SilentThenDrop(_)) {
            // closing this socket sends RST instead of FIN
            #[allow(deprecated)]
            stream.set_linger(Some(Duration::ZERO)).ok();
        }
        let idx = {
            let mut o = obs.lock().unwrap();
            o.attempts.push((t0.elapsed().as_millis() as u64, how, None));
            o.attempts.len() - 1
        };
        n += 1;
        match how {
            Attempt::AcceptAndDrop => {
                obs.lock().unwrap().attempts[idx].2 = Some(t0.elapsed().as_millis() as u64);
                drop(stream);
            }
            Attempt::AcceptAndStall => {
                // never answer; keep the socket until the client gives it up (then release ours too)
                let _ = &mut held;
                tokio::spawn(async move {
                    let mut b = [0u8; 512];
                    loop {
                        match stream.read(&mut b).await {
                            Ok(0) | Err(_) => break,
                            Ok(_) => {}
                        }
                    }
                });
            }
            Attempt::Http403 => {
                let mut stream: DynStream = match &tls {
                    None => Box::new(stream),
                    Some(cfg) => match tokio_rustls::TlsAcceptor::from(cfg.clone()).accept(stream).await {
                        Ok(s) => Box::new(s),
                        Err(_) => continue,
                    },
                };
                let mut buf = [0u8; 2048];
                let _ = tokio::time::timeout(Duration::from_millis(500), stream.read(&mut buf)).await;
                stream.write_all(b"HTTP/1.1 403 Forbidden\r\ncontent-length: 0\r\nconnection: close\r\n\r\n").await.ok();
                stream.shutdown().await.ok();
                obs.lock().unwrap().attempts[idx].2 = Some(t0.elapsed().as_millis() as u64);
            }
            Attempt::ServeThenClose(_) | Attempt::ServeThenDrop(_) | Attempt::Healthy | Attempt::HandshakeThenSilent | Attempt::SilentThenDrop(_) => {
                let obs2 = obs.clone();
                let tls2 = tls.clone();
                // a lingering server keeps the TCP connection open after the WebSocket close handshake: a duplicate of the socket
                // outlives the connection object (no FIN is sent while it exists)
                let mut stream = stream;
                if linger_tcp && matches!(how, Attempt::ServeThenClose(_)) {
                    if let Ok(stdsock) = stream.into_std() {
                        if let Ok(dup) = stdsock.try_clone() {
                            lingering.push(dup);
                        }
                        stream = match tokio::net::TcpStream::from_std(stdsock) {
                            Ok(s) => s,
                            Err(_) => continue,
                        };
                    } else {
                        continue;
                    }
                }
                tokio::spawn(async move {
                    let stream: DynStream = match &tls2 {
                        None => Box::new(stream),
                        Some(cfg) => match tokio_rustls::TlsAcceptor::from(cfg.clone()).accept(stream).await {
                            Ok(s) => Box::new(s),
                            Err(_) => return,
                        },
                    };
                    let cb = |_req: &tokio_tungstenite::tungstenite::handshake::server::Request, mut resp: tokio_tungstenite::tungstenite::handshake::server::Response| {
                        resp.headers_mut().insert("sec-websocket-protocol", http::HeaderValue::from_static("penguin-v7"));
                        Ok(resp)
                    };
                    let Ok(ws) = tokio_tungstenite::accept_hdr_async(stream, cb).await else { return };
                    if let Attempt::SilentThenDrop(d) = how {
                        tokio::time::sleep(Duration::from_millis(d as u64)).await;
                        obs2.lock().unwrap().attempts[idx].2 = Some(t0.elapsed().as_millis() as u64);
                        drop(ws);
                        return;
                    }
                    if how == Attempt::HandshakeThenSilent {
                        // keep the socket open, never read nor write
                        tokio::time::sleep(Duration::from_secs(3600)).await;
                        drop(ws);
                        return;
                    }
                    serve_mux(ws, how, obs2, idx, t0).await;
                });
            }
        }
    }
}

#[derive(Debug)]
pub struct RunOut {
    pub obs: Obs,
    /// (ms, description) when client_main_inner returned
    pub client_end: Option<(u64, String)>,
    /// local connection: (opened at ms, result)
    pub local: Option<(u64, Result<u64, String>)>,
    pub local_connect_failures: u32,
    /// the additional local connections: (kind, opened at ms, result)
    pub extra: Vec<(u8, u64, Result<u64, String>)>,
    /// when the datagram burst had been sent (ms), and the payload numbers of the replies that came back on the sending socket
    pub udp_sent_at: u64,
    pub udp_replies: Vec<u16>,
    pub wall_ms: u64,
}

/// how late an attempt may be before the (re-run-confirmed) "too long" verdict: well below the difference between two
/// consecutive back-off steps of the scripts used here, far above loopback latencies
const UPPER_SLACK_MS: u64 = 300;

fn expected_delay(k: u32, max: u64) -> u64 {
    (200u64.saturating_mul(1u64 << k.min(30))).min(max)
}

/// how long the case needs at most, from the script
fn budget_ms(c: &ClientCase) -> u64 {
    let hs = if c.handshake_timeout_ms == 0 { 1000 } else { c.handshake_timeout_ms as u64 + 30 };
    let mut t = 0u64;
    let mut k = 0u32;
    for a in &c.script {
        match a {
            Attempt::AcceptAndDrop | Attempt::Http403 => {
                t += expected_delay(k, c.max_retry_interval);
                k += 1;
            }
            Attempt::AcceptAndStall => {
                t += hs + expected_delay(k, c.max_retry_interval);
                k += 1;
            }
            Attempt::ServeThenClose(d) | Attempt::ServeThenDrop(d) | Attempt::SilentThenDrop(d) => {
                t += *d as u64 + 200;
                k = 1;
            }
            Attempt::HandshakeThenSilent => {
                t += 1000 + 200 + c.local_delay_ms as u64 + 20 * c.extra_locals.len() as u64;
                k = 1;
            }
            Attempt::Healthy => {}
        }
    }
    t + 2500
}

trait LocalIo: tokio::io::AsyncRead + tokio::io::AsyncWrite + Unpin + Send {}
impl<T: tokio::io::AsyncRead + tokio::io::AsyncWrite + Unpin + Send> LocalIo for T {}

async fn connect_local_tcp(port: u16) -> Result<tokio::net::TcpStream, String> {
    let mut failures = 0;
    loop {
        match tokio::net::TcpStream::connect(("127.0.0.1", port)).await {
            Ok(s) => return Ok(s),
            Err(e) => {
                failures += 1;
                if failures > 200 {
                    return Err(format!("local listener does not accept connections: {e}"));
                }
                tokio::time::sleep(Duration::from_millis(10)).await;
            }
        }
    }
}

/// One additional local connection: open it through the listener of `kind`, complete that listener's own handshake (SOCKS5 / HTTP
/// CONNECT: the success reply can only come once the tunnel carries the stream), send a payload and expect it echoed.
async fn extra_local(kind: u8, uds: &std::path::Path, ports: [u16; 3], n: u8) -> Result<(), String> {
    let mut s: Box<dyn LocalIo> = match kind {
        0 => {
            let mut failures = 0;
            loop {
                match UnixStream::connect(uds).await {
                    Ok(s) => break Box::new(s),
                    Err(e) => {
                        failures += 1;
                        if failures > 200 {
                            return Err(format!("local listener does not accept connections: {e}"));
                        }
                        tokio::time::sleep(Duration::from_millis(10)).await;
                    }
                }
            }
        }
        1 => Box::new(connect_local_tcp(ports[0]).await?),
        2 => {
            let mut s = connect_local_tcp(ports[1]).await?;
            s.write_all(&[5, 1, 0]).await.map_err(|e| format!("socks greeting: {e}"))?;
            let mut sel = [0u8; 2];
            s.read_exact(&mut sel).await.map_err(|e| format!("socks method selection: {e}"))?;
            if sel != [5, 0] {
                return Err(format!("socks5 method selection {sel:02x?}"));
            }
            let mut req = vec![5u8, 1, 0, 3, 12];
            req.extend_from_slice(b"echo.invalid");
            req.extend_from_slice(&7u16.to_be_bytes());
            s.write_all(&req).await.map_err(|e| format!("socks request: {e}"))?;
            let mut head = [0u8; 4];
            s.read_exact(&mut head).await.map_err(|e| format!("socks reply: {e}"))?;
            if head[..3] != [5, 0, 0] {
                return Err(format!("socks5 reply header {head:02x?} is not a success reply"));
            }
            let rest = match head[3] {
                1 => 6,
                4 => 18,
                3 => {
                    let mut l = [0u8; 1];
                    s.read_exact(&mut l).await.map_err(|e| format!("socks reply: {e}"))?;
                    l[0] as usize + 2
                }
                x => return Err(format!("socks5 reply with ATYP {x}")),
            };
            let mut skip = vec![0u8; rest];
            s.read_exact(&mut skip).await.map_err(|e| format!("socks reply: {e}"))?;
            Box::new(s)
        }
        _ => {
            let mut s = connect_local_tcp(ports[2]).await?;
            s.write_all(b"CONNECT echo.invalid:7 HTTP/1.1\r\nHost: echo.invalid:7\r\n\r\n").await.map_err(|e| format!("http connect: {e}"))?;
            let mut head = vec![];
            let mut b = [0u8; 1];
            while !head.ends_with(b"\r\n\r\n") {
                s.read_exact(&mut b).await.map_err(|e| format!("http proxy reply: {e}"))?;
                head.push(b[0]);
                if head.len() > 4096 {
                    return Err("http proxy reply too long".into());
                }
            }
            let line = String::from_utf8_lossy(&head).to_string();
            if !line.starts_with("HTTP/1.1 200") {
                return Err(format!("http proxy answered {:?}", line.lines().next()));
            }
            Box::new(s)
        }
    };
    let payload: Vec<u8> = (0..61u32 + n as u32).map(|i| (i * 11 + 5 + n as u32) as u8).collect();
    s.write_all(&payload).await.map_err(|e| format!("local write: {e}"))?;
    let mut back = vec![0u8; payload.len()];
    s.read_exact(&mut back).await.map_err(|e| format!("local read: {e}"))?;
    if back != payload {
        return Err("echo corrupted".to_string());
    }
    Ok(())
}

pub async fn run_client_case(c: &ClientCase) -> Result<RunOut, String> {
    let t0 = Instant::now();
    let listener = TcpListener::bind("127.0.0.1:0").await.map_err(|e| format!("bind: {e}"))?;
    let port = listener.local_addr().unwrap().port();
    let obs = Arc::new(Mutex::new(Obs::default()));
    let server = tokio::spawn(fake_server(listener, c.script.clone(), obs.clone(), t0, c.tcp_reset, if c.tls { Some(tls_fix().cfg.clone()) } else { None }, c.linger_tcp));
    let uds = tmp_dir().join(format!("c19-{}-{}.sock", std::process::id(), UNIQ.fetch_add(1, Ordering::Relaxed)));
    let _ = std::fs::remove_file(&uds);
    let udp_port = {
        let s = tokio::net::UdpSocket::bind("127.0.0.1:0").await.map_err(|e| format!("udp bind: {e}"))?;
        s.local_addr().map_err(|e| e.to_string())?.port()
    };
    // three free TCP ports for the additional listeners (TCP remote, SOCKS, HTTP CONNECT)
    let mut extra_ports = [0u16; 3];
    if !c.extra_locals.is_empty() {
        let mut keep = vec![];
        for p in extra_ports.iter_mut() {
            let l = TcpListener::bind("127.0.0.1:0").await.map_err(|e| format!("bind: {e}"))?;
            *p = l.local_addr().map_err(|e| e.to_string())?.port();
            keep.push(l);
        }
    }
    let args: &'static ClientArgs = Box::leak(Box::new(ClientArgs {
        server: ServerUrl::from_str(&format!("{}://127.0.0.1:{port}/ws", if c.tls { "wss" } else { "ws" })).map_err(|e| format!("url: {e}"))?,
        tls_ca: if c.tls { Some(tls_fix().ca_path.clone()) } else { None },
        remote: {
            let mut v = vec![
                Remote { local_addr: LocalSpec::DomainSocket(uds.clone()), remote_addr: RemoteSpec::Inet(("echo.invalid".to_string(), 7)), protocol: Protocol::Tcp },
                Remote { local_addr: LocalSpec::Inet(("127.0.0.1".to_string(), udp_port)), remote_addr: RemoteSpec::Inet(("echo.invalid".to_string(), 7)), protocol: Protocol::Udp },
            ];
            if !c.extra_locals.is_empty() {
                v.push(Remote { local_addr: LocalSpec::Inet(("127.0.0.1".to_string(), extra_ports[0])), remote_addr: RemoteSpec::Inet(("echo.invalid".to_string(), 7)), protocol: Protocol::Tcp });
                v.push(Remote { local_addr: LocalSpec::Inet(("127.0.0.1".to_string(), extra_ports[1])), remote_addr: RemoteSpec::Socks, protocol: Protocol::Tcp });
                v.push(Remote { local_addr: LocalSpec::Inet(("127.0.0.1".to_string(), extra_ports[2])), remote_addr: RemoteSpec::Http, protocol: Protocol::Tcp });
            }
            v
        },
        keepalive: OptionalDuration::NONE,
        keepalive_timeout: OptionalDuration::NONE,
        max_retry_count: c.max_retry_count,
        max_retry_interval: c.max_retry_interval,
        handshake_timeout: if c.handshake_timeout_ms == 0 { OptionalDuration::from_secs(1) } else { OptionalDuration::from(Duration::from_millis(c.handshake_timeout_ms as u64)) },
        channel_timeout: OptionalDuration::from_secs(1),
        ..Default::default()
    }));
    let (hr, stream_rx, dgram_rx) = HandlerResources::create();
    let hr: &'static HandlerResources = Box::leak(Box::new(hr));
    let client = tokio::spawn(async move {
        let r = client_main_inner(args, hr, stream_rx, dgram_rx).await;
        (t0.elapsed().as_millis() as u64, match r { Ok(()) => "Ok".to_string(), Err(e) => format!("{e:?}") })
    });
    // datagrams into the UDP remote as soon as the first attempt has been seen
    let udp_got: Arc<Mutex<(u64, Vec<u16>)>> = Arc::new(Mutex::new((0, vec![])));
    let mut udp_task = None;
    if c.udp_burst > 0 {
        let (obs3, n, udp_got2) = (obs.clone(), c.udp_burst, udp_got.clone());
        udp_task = Some(tokio::spawn(async move {
            loop {
                if !obs3.lock().unwrap().attempts.is_empty() {
                    break;
                }
                if t0.elapsed() > Duration::from_secs(30) {
                    return;
                }
                tokio::time::sleep(Duration::from_millis(2)).await;
            }
            let Ok(sock) = tokio::net::UdpSocket::bind("127.0.0.1:0").await else { return };
            for k in 0..n {
                // (the listener may not be bound yet in the very first milliseconds: a lost datagram is fine here)
                let _ = sock.send_to(&k.to_be_bytes(), ("127.0.0.1", udp_port)).await;
                if k % 32 == 31 {
                    tokio::time::sleep(Duration::from_millis(1)).await;
                }
            }
            udp_got2.lock().unwrap().0 = t0.elapsed().as_millis() as u64;
            // the replies: whatever the far end sends back for these datagrams must arrive on this very socket
            let mut buf = [0u8; 64];
            loop {
                match sock.recv_from(&mut buf).await {
                    Ok((2, _)) => udp_got2.lock().unwrap().1.push(u16::from_be_bytes([buf[0], buf[1]])),
                    Ok(_) => {}
                    Err(_) => tokio::time::sleep(Duration::from_millis(5)).await,
                }
            }
        }));
    }
    // local connection
    let want_local = c.local_after_attempt;
    let local_delay = c.local_delay_ms as u64;
    let obs2 = obs.clone();
    let uds2 = uds.clone();
    let local = tokio::spawn(async move {
        let Some(after) = want_local else { return (None, 0u32) };
        // wait until that attempt has been observed
        loop {
            if obs2.lock().unwrap().attempts.len() > after as usize {
                break;
            }
            if t0.elapsed() > Duration::from_secs(60) {
                return (None, 0);
            }
            tokio::time::sleep(Duration::from_millis(5)).await;
        }
        tokio::time::sleep(Duration::from_millis(local_delay)).await;
        let opened = t0.elapsed().as_millis() as u64;
        let mut failures = 0;
        let mut s = loop {
            match UnixStream::connect(&uds2).await {
                Ok(s) => break s,
                Err(_) => {
                    failures += 1;
                    if failures > 200 {
                        return (Some((opened, Err("local listener does not accept connections".to_string()))), failures);
                    }
                    tokio::time::sleep(Duration::from_millis(10)).await;
                }
            }
        };
        let payload: Vec<u8> = (0..97u32).map(|i| (i * 7 + 3) as u8).collect();
        let r = async {
            s.write_all(&payload).await.map_err(|e| format!("local write: {e}"))?;
            let mut back = vec![0u8; payload.len()];
            s.read_exact(&mut back).await.map_err(|e| format!("local read: {e}"))?;
            if back != payload {
                return Err("echo corrupted".to_string());
            }
            Ok::<_, String>(t0.elapsed().as_millis() as u64)
        };
        let r = match tokio::time::timeout(Duration::from_secs(20), r).await {
            Ok(x) => x,
            Err(_) => Err("no echo within 20 s".to_string()),
        };
        (Some((opened, r)), failures.min(1) - failures.min(1))
    });
    // further local connections through the other kinds of listener, opened together with the first one
    let mut extras = vec![];
    for (n, kind) in c.extra_locals.iter().copied().enumerate() {
        let Some(after) = want_local else { break };
        let (obs4, uds4) = (obs.clone(), uds.clone());
        extras.push((kind, tokio::spawn(async move {
            loop {
                if obs4.lock().unwrap().attempts.len() > after as usize {
                    break;
                }
                if t0.elapsed() > Duration::from_secs(60) {
                    return (0u64, Err("the attempt the connection waits for was never seen".to_string()));
                }
                tokio::time::sleep(Duration::from_millis(5)).await;
            }
            tokio::time::sleep(Duration::from_millis(local_delay + 3 * (n as u64 + 1))).await;
            let opened = t0.elapsed().as_millis() as u64;
            let r = tokio::time::timeout(Duration::from_secs(25), extra_local(kind, &uds4, extra_ports, n as u8)).await.unwrap_or_else(|_| Err("no echo within 25 s".to_string()));
            (opened, r.map(|()| t0.elapsed().as_millis() as u64))
        })));
    }
    let budget = budget_ms(c);
    // wait for the budget, or for both the client end (if the script makes it give up) and the local result
    let deadline = t0 + Duration::from_millis(budget + 6000);
    let mut client = client;
    let mut client_end = None;
    loop {
        if client_end.is_none() && client.is_finished() {
            client_end = (&mut client).await.ok();
        }
        let served = local.is_finished() && extras.iter().all(|(_, h)| h.is_finished());
        let enough = t0.elapsed() > Duration::from_millis(budget);
        if (enough && (served || want_local.is_none())) || Instant::now() > deadline {
            break;
        }
        if client_end.is_some() && (served || want_local.is_none()) {
            break;
        }
        tokio::time::sleep(Duration::from_millis(10)).await;
    }
    let local_res = if local.is_finished() { local.await.ok() } else { local.abort(); Some((Some((0, Err("local connection still waiting at the end of the case".to_string()))), 0)) };
    if let Some(t) = udp_task {
        // (replies that were sent back less than a second ago are not demanded)
        t.abort();
    }
    let udp = udp_got.lock().unwrap().clone();
    let mut extra_res = vec![];
    for (kind, h) in extras {
        if h.is_finished() {
            if let Ok((opened, r)) = h.await {
                extra_res.push((kind, opened, r));
            }
        } else {
            h.abort();
            extra_res.push((kind, 0, Err("local connection still waiting at the end of the case".to_string())));
        }
    }
    if client_end.is_none() {
        client.abort();
    }
    server.abort();
    let _ = std::fs::remove_file(&uds);
    let o = std::mem::take(&mut *obs.lock().unwrap());
    let (local, lf) = match local_res {
        Some((l, f)) => (l, f),
        None => (None, 0),
    };
    Ok(RunOut { obs: o, client_end, local: if want_local.is_some() { local } else { None }, local_connect_failures: lf, extra: extra_res, udp_sent_at: udp.0, udp_replies: udp.1, wall_ms: t0.elapsed().as_millis() as u64 })
}

/// Verdict on one run. Err((sig, msg, needs_confirmation))
pub fn judge(c: &ClientCase, r: &RunOut) -> Result<Vec<&'static str>, (String, String, bool)> {
    let mut cl = vec![];
    let at = &r.obs.attempts;
    let n_script = c.script.len();
    // reference: which attempts must happen and with which gaps
    let mut k = 0u32; // consecutive failures so far
    let mut failures_in_a_row = 0u32;
    for (i, a) in c.script.iter().enumerate() {
        if i >= at.len() {
            // the attempt never arrived
            let prev = if i > 0 { Some(c.script[i - 1]) } else { None };
            // after giving up or a fatal answer no further attempt is due
            let gave_up = c.max_retry_count != 0 && failures_in_a_row > c.max_retry_count;
            let fatal = c.script[..i].contains(&Attempt::Http403);
            let silent_wait = prev == Some(Attempt::HandshakeThenSilent) && c.local_after_attempt.is_none();
            if gave_up || fatal || silent_wait {
                break;
            }
            let what = match prev {
                Some(Attempt::ServeThenClose(_)) => "orderly-close",
                Some(Attempt::ServeThenDrop(_)) | Some(Attempt::SilentThenDrop(_)) => "abrupt-drop",
                Some(Attempt::AcceptAndStall) => "handshake-stall",
                Some(Attempt::HandshakeThenSilent) => "silent-server",
                _ => "failed-attempt",
            };
            return Err((
                format!("c19-no-reconnect:{what}"),
                format!("attempt {i} never arrived within {} ms after {prev:?} (attempts seen at {:?}, client end {:?}, local {:?})", r.wall_ms, at.iter().map(|x| x.0).collect::<Vec<_>>(), r.client_end, r.local),
                true,
            ));
        }
        if at[i].1 != *a {
            return Err(("c19-harness".into(), "script order mismatch".into(), true));
        }
        // gap from the moment the previous failure was made visible to this attempt
        if i > 0 {
            let prev = c.script[i - 1];
            let fail_at = match prev {
                Attempt::AcceptAndStall => Some(at[i - 1].0 + 1000),
                Attempt::HandshakeThenSilent => None, // depends on when a stream request timed out
                Attempt::ServeThenClose(_) if c.linger_tcp => None, // the client notices at its next stream request
                _ => at[i - 1].2,
            };
            if let Some(f) = fail_at {
                let want = expected_delay(k.saturating_sub(1), c.max_retry_interval);
                let gap = at[i].0.saturating_sub(f);
                // lower bound is hard: a sleep cannot finish early (2 ms clock granularity)
                if at[i].0 + 2 < f + want && !(prev == Attempt::AcceptAndStall && at[i].0 + 40 >= f + want) {
                    return Err((
                        "c19-backoff-too-short".into(),
                        format!("attempt {i} arrived {gap} ms after the failure of attempt {} ({prev:?}); the back-off for consecutive failure #{} is {want} ms (max_retry_interval {})", i - 1, k, c.max_retry_interval),
                        // after a stalled handshake the failure time is estimated from the accept time (the client's timer started
                        // at its connect, slightly earlier): that verdict is confirmed by a re-run; all other failure times are
                        // recorded before the failing action, so the bound is hard
                        prev == Attempt::AcceptAndStall,
                    ));
                }
                if gap > want + UPPER_SLACK_MS {
                    return Err((
                        "c19-backoff-too-long".into(),
                        format!("attempt {i} arrived {gap} ms after the failure of attempt {} ({prev:?}); expected about {want} ms (consecutive failure #{k}, max_retry_interval {})", i - 1, c.max_retry_interval),
                        true,
                    ));
                }
            }
        }
        match a {
            Attempt::AcceptAndDrop | Attempt::AcceptAndStall => {
                k += 1;
                failures_in_a_row += 1;
            }
            Attempt::Http403 => break,
            Attempt::ServeThenClose(_) | Attempt::ServeThenDrop(_) | Attempt::HandshakeThenSilent | Attempt::SilentThenDrop(_) => {
                // connected once: the back-off starts again from the shortest delay
                k = 1;
                failures_in_a_row = 1;
                cl.push("reconnect-after-success");
            }
            Attempt::Healthy => break,
        }
    }
    // giving up
    let all_fail = c.script.iter().all(|a| matches!(a, Attempt::AcceptAndDrop | Attempt::AcceptAndStall));
    if all_fail {
        let want_attempts = c.max_retry_count as usize + 1;
        if c.max_retry_count != 0 && n_script >= want_attempts {
            match &r.client_end {
                None => return Err(("c19-never-gives-up".into(), format!("max_retry_count {}: {} failed attempts seen but the client is still running", c.max_retry_count, at.len()), true)),
                Some((_, e)) if !e.contains("MaxRetryCountReached") => return Err(("c19-wrong-final-error".into(), format!("client ended with {e}"), false)),
                _ => {}
            }
            if at.len() != want_attempts {
                return Err(("c19-retry-count".into(), format!("max_retry_count {}: the client made {} attempts before giving up, expected {}", c.max_retry_count, at.len(), want_attempts), false));
            }
            cl.push("gave-up");
        } else if let Some((t, e)) = &r.client_end {
            return Err(("c19-gave-up-early".into(), format!("max_retry_count {} ({}): the client ended at {t} ms with {e} after only {} attempts", c.max_retry_count, if c.max_retry_count == 0 { "retry for ever" } else { "limit not reached" }, at.len()), false));
        }
    }
    if let Some(p) = c.script.iter().position(|a| *a == Attempt::Http403) {
        if at.len() > p {
            match &r.client_end {
                None => return Err(("c19-fatal-error-retried".into(), "the server answered 403 (not retryable) but the client keeps running".into(), true)),
                Some((_, e)) if e.contains("MaxRetryCountReached") => return Err(("c19-fatal-error-retried".into(), format!("non-retryable answer ended as {e}"), false)),
                _ => {}
            }
            if at.len() > p + 1 {
                return Err(("c19-fatal-error-retried".into(), format!("{} attempts after the non-retryable answer", at.len() - p - 1), false));
            }
            cl.push("non-retryable");
        }
    } else if !all_fail {
        if let Some((t, e)) = &r.client_end {
            return Err(("c19-client-exited".into(), format!("the client ended at {t} ms with {e} although a retryable situation was scripted"), false));
        }
    }
    // replies to datagrams: a datagram that the client accepted on its UDP listener - while the tunnel was up or down - and that it
    // forwarded when a connection came up reached the far end, whose reply must be delivered to the socket that sent the datagram
    // (the client forgets an idle UDP client after about 10 s: replies that late, and replies sent back in the last second of the
    // case, are not demanded)
    if c.udp_burst > 0 && r.udp_sent_at > 0 {
        let due: Vec<u16> = r.obs.dgram_echoed.iter().filter(|(_, t)| *t < r.udp_sent_at + 7000 && *t + 1000 < r.wall_ms).map(|x| x.0).collect();
        let missing: Vec<u16> = due.iter().copied().filter(|k| !r.udp_replies.contains(k)).collect();
        if !due.is_empty() {
            cl.push("udp-replies-demanded");
            if missing.len() * 10 > due.len() {
                return Err((
                    "c19-udp-reply-lost".into(),
                    format!("{} datagrams sent to the client's UDP listener at ~{} ms were forwarded through the tunnel and answered by the far end (first at {} ms), but {} of the replies never reached the socket that had sent them (first missing: {:?}); attempts at {:?}", due.len(), r.udp_sent_at, r.obs.dgram_echoed.first().map(|x| x.1).unwrap_or(0), missing.len(), &missing[..missing.len().min(5)], at.iter().map(|x| (x.0, x.1)).collect::<Vec<_>>()),
                    true,
                ));
            }
        }
    }
    // the local connection
    if let Some((opened, res)) = &r.local {
        let reaches_healthy = c.script.last() == Some(&Attempt::Healthy) && !c.script.contains(&Attempt::Http403) && !(c.max_retry_count != 0 && max_consecutive_failures(&c.script) > c.max_retry_count);
        if reaches_healthy {
            match res {
                Err(e) => {
                    return Err((
                        "c19-local-connection-lost".into(),
                        format!("a local connection opened at {opened} ms was not served by the next successful tunnel connection: {e} (attempts at {:?})", at.iter().map(|x| (x.0, x.1)).collect::<Vec<_>>()),
                        true,
                    ))
                }
                Ok(_) => cl.push("local-served"),
            }
            for (kind, opened, res) in &r.extra {
                match res {
                    Err(e) => {
                        return Err((
                            "c19-local-connection-lost".into(),
                            format!("an additional local connection (listener kind {kind}: 0 unix remote, 1 tcp remote, 2 socks5, 3 http connect) opened at {opened} ms was not served by the next successful tunnel connection: {e} (attempts at {:?})", at.iter().map(|x| (x.0, x.1)).collect::<Vec<_>>()),
                            true,
                        ))
                    }
                    Ok(_) => cl.push(match kind { 0 => "extra-local-unix", 1 => "extra-local-tcp", 2 => "extra-local-socks5", _ => "extra-local-http" }),
                }
            }
            // opened while the tunnel was down?
            let healthy_at = at.iter().find(|x| x.1 == Attempt::Healthy).map(|x| x.0);
            if healthy_at.is_none_or(|h| *opened < h) {
                cl.push("local-while-disconnected");
            }
        }
    }
    Ok(cl)
}

fn max_consecutive_failures(s: &[Attempt]) -> u32 {
    let (mut best, mut cur) = (0u32, 0u32);
    for a in s {
        match a {
            Attempt::AcceptAndDrop | Attempt::AcceptAndStall => {
                cur += 1;
                best = best.max(cur);
            }
            Attempt::ServeThenClose(_) | Attempt::ServeThenDrop(_) | Attempt::HandshakeThenSilent | Attempt::SilentThenDrop(_) => {
                cur = 1;
                best = best.max(cur);
            }
            _ => cur = 0,
        }
    }
    best
}

pub fn check(c: &ClientCase) -> Outcome {
    if c.tls {
        let _ = tls_fix(); // built outside the runtime
    }
    let run = |c: &ClientCase| rt().block_on(run_client_case(c));
    let r = match run(c) {
        Ok(r) => r,
        Err(e) => return Outcome::inconclusive(format!("harness: {e}")),
    };
    match judge(c, &r) {
        Ok(cl) => {
            let fails = c.script.iter().filter(|a| !matches!(a, Attempt::Healthy)).count();
            let nontrivial = (fails >= 2 && c.script.contains(&Attempt::Healthy)) || cl.contains(&"local-while-disconnected");
            Outcome::pass(nontrivial, cl)
        }
        Err((sig, msg, confirm)) => {
            if sig == "c19-harness" {
                return Outcome::inconclusive(msg);
            }
            if confirm {
                // timing / hang verdicts are confirmed by an isolated re-run of the same case
                std::thread::sleep(Duration::from_millis(300));
                match run(c).map(|r2| judge(c, &r2)) {
                    Ok(Err((sig2, msg2, _))) if sig2 == sig => Outcome::violation(sig, format!("{msg} | confirmed by a re-run: {msg2}")),
                    Ok(Err((sig2, msg2, _))) => Outcome::violation(sig2, format!("{msg2} | (first run: {sig}: {msg})")),
                    _ => Outcome::inconclusive(format!("not reproduced on re-run: {sig}: {msg}")),
                }
            } else {
                Outcome::violation(sig, msg)
            }
        }
    }
}

/// Very many consecutive handshake timeouts with few file descriptors to spare: a client that "never gives up" (max_retry_count 0)
/// must still be retrying after 150 attempts against a server that accepts TCP and never answers, and must reach the healthy
/// server behind them; every abandoned attempt has to release what it held.
pub fn check_many_stalls(n: &u32) -> Outcome {
    let n = *n as usize;
    let mut script = vec![Attempt::AcceptAndStall; n];
    script.push(Attempt::Healthy);
    let c = ClientCase { script, max_retry_count: 0, max_retry_interval: 20, local_after_attempt: None, local_delay_ms: 0, udp_burst: 0, tcp_reset: false, tls: false, handshake_timeout_ms: 50, extra_locals: vec![], linger_tcp: false };
    // descriptors: what is open now + room for a handful of connections
    let open_now = std::fs::read_dir("/proc/self/fd").map(|d| d.count()).unwrap_or(64) as u64;
    let mut old = libc::rlimit { rlim_cur: 0, rlim_max: 0 };
    unsafe { libc::getrlimit(libc::RLIMIT_NOFILE, &mut old) };
    let tight = libc::rlimit { rlim_cur: (open_now + 70).min(old.rlim_max), rlim_max: old.rlim_max };
    unsafe { libc::setrlimit(libc::RLIMIT_NOFILE, &tight) };
    let r = rt().block_on(run_client_case(&c));
    unsafe { libc::setrlimit(libc::RLIMIT_NOFILE, &old) };
    let r = match r {
        Ok(r) => r,
        Err(e) => return Outcome::inconclusive(format!("harness: {e}")),
    };
    let seen = r.obs.attempts.len();
    if let Some((at, how)) = &r.client_end {
        return Outcome::violation("c19-gave-up:many-handshake-timeouts", format!("max_retry_count = 0, a server that accepts TCP and never answers the handshake (handshake timeout 50 ms, {} descriptors to spare): after {seen} attempts the client ended at {at} ms with {how}", 70));
    }
    if seen <= n {
        return Outcome::violation("c19-no-reconnect:many-handshake-timeouts", format!("only {seen} of {} attempts arrived within {} ms; the healthy server behind the stalled attempts was never reached", n + 1, r.wall_ms));
    }
    Outcome::pass(true, vec!["150-consecutive-handshake-timeouts"])
}

fn attempt() -> impl Strategy<Value = Attempt> {
    prop_oneof![
        5 => Just(Attempt::AcceptAndDrop),
        1 => Just(Attempt::AcceptAndStall),
        2 => (0u16..400).prop_map(Attempt::ServeThenClose),
        2 => (0u16..400).prop_map(Attempt::ServeThenDrop),
    ]
}

fn client_case() -> impl Strategy<Value = ClientCase> {
    // (any script may also run over TLS)
    (client_case_plain(), prop::bool::weighted(0.3)).prop_map(|(mut c, tls)| {
        c.tls = c.tls || tls;
        c
    })
}

fn client_case_plain() -> impl Strategy<Value = ClientCase> {
    prop_oneof![
        // reconnect scripts ending in a healthy server, with a local connection at some point
        6 => (prop::collection::vec(attempt(), 0..5), 200u64..1000, prop_oneof![Just(0u32), 4u32..8], prop::option::weighted(0.8, 0u8..5), 0u16..300, (prop_oneof![3 => Just(0u16), 1 => Just(10u16), 1 => Just(70u16), 1 => Just(300u16)], any::<bool>(), prop::bool::weighted(0.4))).prop_map(|(mut script, mri, mrc, la, ld, (burst, tcp_reset, tls))| {
            // keep consecutive failures below the limit so that the healthy server is reached
            if mrc != 0 {
                script.truncate(3);
            }
            let la = la.map(|x| x.min(script.len() as u8));
            script.push(Attempt::Healthy);
            ClientCase { script, max_retry_count: mrc, max_retry_interval: mri, local_after_attempt: la, local_delay_ms: ld, udp_burst: burst, tcp_reset, tls, handshake_timeout_ms: 0, extra_locals: vec![], linger_tcp: false }
        }),
        // the same with one to four further local connections through the other listeners (TCP remote, SOCKS5, HTTP CONNECT, Unix again)
        4 => (prop::collection::vec(attempt(), 1..4), 200u64..800, 0u8..4, 0u16..200, prop::collection::vec(0u8..4, 1..5), any::<bool>(), prop::bool::weighted(0.3)).prop_map(|(mut script, mri, la, ld, extra_locals, tcp_reset, tls)| {
            let la = la.min(script.len() as u8 - 1);
            script.push(Attempt::Healthy);
            ClientCase { script, max_retry_count: 0, max_retry_interval: mri, local_after_attempt: Some(la), local_delay_ms: ld, udp_burst: 0, tcp_reset, tls, handshake_timeout_ms: 0, extra_locals, linger_tcp: false }
        }),
        // several stream requests pending on a silent or dropped connection
        2 => (200u64..800, 0u16..100, prop::collection::vec(0u8..4, 1..4), prop_oneof![Just(Attempt::HandshakeThenSilent), (30u16..400).prop_map(Attempt::SilentThenDrop)]).prop_map(|(mri, ld, extra_locals, first)| ClientCase { script: vec![first, Attempt::Healthy], max_retry_count: 0, max_retry_interval: mri, local_after_attempt: Some(0), local_delay_ms: ld, udp_burst: 0, tcp_reset: false, tls: false, handshake_timeout_ms: 0, extra_locals, linger_tcp: false }),
        // a stalled stream request: handshake, then silence; the local connection must be served by the next connection
        1 => (200u64..1000, 0u16..200).prop_map(|(mri, ld)| ClientCase { script: vec![Attempt::HandshakeThenSilent, Attempt::Healthy], max_retry_count: 0, max_retry_interval: mri, local_after_attempt: Some(0), local_delay_ms: ld, udp_burst: 0, tcp_reset: false, tls: false, handshake_timeout_ms: 0, extra_locals: vec![], linger_tcp: false }),
        // a stream request is pending (never answered) when the connection is dropped: it must be parked and served by the next connection
        2 => (200u64..1000, 30u16..400, 0u16..20, any::<bool>()).prop_map(|(mri, d, ld, tcp_reset)| ClientCase { script: vec![Attempt::SilentThenDrop(d), Attempt::Healthy], max_retry_count: 0, max_retry_interval: mri, local_after_attempt: Some(0), local_delay_ms: ld, udp_burst: 0, tcp_reset, tls: false, handshake_timeout_ms: 0, extra_locals: vec![], linger_tcp: false }),
        // giving up after max_retry_count
        2 => (1u32..=4, 200u64..700, prop::bool::weighted(0.2)).prop_map(|(mrc, mri, stall)| {
            let mut script = vec![Attempt::AcceptAndDrop; mrc as usize + 2];
            if stall {
                script[0] = Attempt::AcceptAndStall;
            }
            ClientCase { script, max_retry_count: mrc, max_retry_interval: mri, local_after_attempt: None, local_delay_ms: 0, udp_burst: 0, tcp_reset: false, tls: false, handshake_timeout_ms: 0, extra_locals: vec![], linger_tcp: false }
        }),
        // never giving up with max_retry_count = 0
        1 => (200u64..500).prop_map(|mri| ClientCase { script: vec![Attempt::AcceptAndDrop; 6], max_retry_count: 0, max_retry_interval: mri, local_after_attempt: None, local_delay_ms: 0, udp_burst: 0, tcp_reset: false, tls: false, handshake_timeout_ms: 0, extra_locals: vec![], linger_tcp: false }),
        // non-retryable answer
        1 => (prop::collection::vec(Just(Attempt::AcceptAndDrop), 0..3), 200u64..800).prop_map(|(mut script, mri)| {
            script.push(Attempt::Http403);
            script.push(Attempt::Healthy);
            ClientCase { script, max_retry_count: 0, max_retry_interval: mri, local_after_attempt: None, local_delay_ms: 0, udp_burst: 0, tcp_reset: false, tls: false, handshake_timeout_ms: 0, extra_locals: vec![], linger_tcp: false }
        }),
    ]
}

pub fn run(ctx: &Ctx, rep: &mut Report) {
    rep.rule = "G1: Backoff::new(initial,max,mult,max_count) over all small tuples (initial,max in 0..6 units, mult 0..3, max_count 0..4) x all advance/reset sequences of length <= 8 (exhaustive) + random larger, against the closed form min(initial*mult^k, max). \
                G2: the real client (client_main_inner, Unix-socket TCP remote) against a scripted fake server on loopback: per connection attempt {accept and drop, accept and stall the upgrade, 403, serve then orderly Close after d ms, serve then abrupt drop after d ms, handshake then silence, handshake then silence then drop after d ms, healthy}, max_retry_count 0..7, max_retry_interval 200..1000 ms (1600/3200 in the directed reset-after-success family), \
                handshake/channel timeout 1 s, a local connection opened at a generated moment (in a third of the cases together with 1-4 further local connections through the client's other listeners: a TCP remote, the SOCKS5 listener, the HTTP CONNECT listener, the Unix-socket remote again - each must complete its own proxy handshake and be echoed through the next successful connection), 0/10/70/300 datagrams sent into the client's UDP remote right after the first attempt (while disconnected when the script starts with a failure). Oracle: gap between a visible failure and the next attempt >= the reference delay (hard) and <= delay + 0.3 s (confirmed by re-run), shortest delay again after any success, a new attempt after orderly Close / drop / stall, exactly max_retry_count+1 attempts then MaxRetryCountReached (never for 0), immediate end on the non-retryable answer, \
                the local connection is echoed through the next successful connection (also when the server closed the WebSocket in an orderly way but left the TCP connection open, so that the client's old connection task never sees an end-of-file); the fake server sends every datagram it receives straight back, and the reply to a datagram that the client took in while the tunnel was down and forwarded later must reach the socket that sent it (not demanded after 7 s - the client forgets idle UDP clients - nor in the last second of a case; 10 % loss tolerated). Non-trivial = a script with >= 2 failures and a success, or a local connection made while disconnected. Distinct = distinct case value."
        .into();
    rep.assumptions = vec![
        "real sockets and the real tokio scheduler: interleavings and timing are sampled; lower bounds on delays are hard, upper bounds and 'never arrives' verdicts are reported only if an isolated re-run of the same case shows them again (otherwise the case counts as inconclusive)".into(),
        "fake server = tokio-tungstenite accept + a real penguin_mux::Multiplexor echoing every stream".into(),
        "attempt times are taken at the fake server's accept()".into(),
    ];
    vf_pure::backoff::sections(ctx, rep);
    ctx.max_shrink_iters.store(12, std::sync::atomic::Ordering::Relaxed);
    ctx.prop(rep, "client", ctx.tier.pick(64, 1_200), 8, client_case, check);
    // a parked stream request that fails again on each new connection: every one of these connections WAS established, so the back-off
    // restarts each time and a retry limit is never reached; the pending local connection is served by the first healthy server
    ctx.enumerate(
        rep,
        "parked-request-fails-again",
        ctx.tier.pick(2, 6),
        2,
        |i| {
            let k = 3 + (i % 3) as usize;
            let mut script = vec![Attempt::HandshakeThenSilent; k];
            script.push(Attempt::Healthy);
            ClientCase { script, max_retry_count: 2 + (i / 3) as u32, max_retry_interval: 3200, local_after_attempt: Some(0), local_delay_ms: 20, udp_burst: 0, tcp_reset: false, tls: i % 2 == 1, handshake_timeout_ms: 0, extra_locals: vec![], linger_tcp: false }
        },
        check,
    );
    // the server closes the WebSocket in an orderly way but leaves the TCP connection open; a local connection made afterwards must be
    // served by a new tunnel connection (the old connection task never sees an end-of-file)
    ctx.enumerate(
        rep,
        "close-frame-then-tcp-lingers",
        4,
        2,
        |i| ClientCase { script: vec![Attempt::ServeThenClose(if i % 2 == 0 { 40 } else { 150 }), Attempt::Healthy], max_retry_count: 0, max_retry_interval: 400, local_after_attempt: Some(0), local_delay_ms: 450, udp_burst: 0, tcp_reset: false, tls: i / 2 == 1, handshake_timeout_ms: 0, extra_locals: if i % 2 == 0 { vec![] } else { vec![2] }, linger_tcp: true },
        check,
    );
    // many consecutive timeouts with few descriptors to spare (runs alone: the limit is process-wide while it lasts)
    ctx.enumerate(rep, "many-handshake-timeouts", 1, 1, |_| 150u32, check_many_stalls);
    // directed: three failures (200, 400, 800 ms), a served connection that is then lost, and the delay before the next
    // attempt, which must be the shortest one again; the limit is high enough for the steps to differ by more than the slack
    ctx.enumerate(
        rep,
        "reset-after-success",
        ctx.tier.pick(4, 16),
        2,
        |i| {
            let served = if i % 2 == 0 { Attempt::ServeThenClose(40 + 20 * (i as u16 / 4)) } else { Attempt::ServeThenDrop(40 + 20 * (i as u16 / 4)) };
            let mri = if (i / 2) % 2 == 0 { 3200 } else { 1600 };
            ClientCase { script: vec![Attempt::AcceptAndDrop, Attempt::AcceptAndDrop, Attempt::AcceptAndDrop, served, Attempt::AcceptAndDrop, Attempt::Healthy], max_retry_count: 0, max_retry_interval: mri, local_after_attempt: Some(4), local_delay_ms: 10, udp_burst: if i % 2 == 0 { 200 } else { 0 }, tcp_reset: (i / 2) % 2 == 1, tls: i % 4 == 3, handshake_timeout_ms: 0, extra_locals: vec![], linger_tcp: false }
        },
        check,
    );
}
