//! C01 – end-to-end transparency of the tunnel: real client + real server on loopback, the harness plays the
//! local clients (TCP, Unix, SOCKS4/4a/5, HTTP CONNECT, UDP, SOCKS5-UDP) and the targets.
use crate::c19::{rt, tmp_dir};
use penguin_mux::timing::OptionalDuration;
use proptest::prelude::*;
use rusty_penguin_lib::arg::{ClientArgs, LocalSpec, Protocol, Remote, RemoteSpec, ServerUrl};
use rusty_penguin_lib::client::{client_main_inner, HandlerResources};
use rusty_penguin_lib::server::{run_listener, State};
use serde::{Deserialize, Serialize};
use std::collections::HashMap;
use std::net::SocketAddr;
use std::path::PathBuf;
use std::str::FromStr;
use std::sync::atomic::{AtomicU64, Ordering};
use std::sync::{Arc, Mutex, OnceLock};
use std::time::Duration;
use tokio::io::{AsyncRead, AsyncReadExt, AsyncWrite, AsyncWriteExt};
use tokio::net::{TcpListener, TcpStream, UdpSocket, UnixStream};
use vf_common::{Ctx, Outcome, Report};
use vf_ref::socks as rs;

pub fn pay(token: u64, dir: u8, off: usize) -> u8 {
    (vf_common::splitmix(token ^ ((dir as u64) << 60) ^ (off as u64).wrapping_mul(0x9E37)) >> 17) as u8
}
fn payload(token: u64, dir: u8, from: usize, n: usize) -> Vec<u8> {
    (0..n).map(|i| pay(token, dir, from + i)).collect()
}

#[derive(Clone, Copy, Debug, Hash, PartialEq, Eq, Serialize, Deserialize)]
pub enum Entry {
    TcpRemote,
    UnixRemote,
    Socks4,
    Socks4a,
    Socks5V4,
    Socks5Domain,
    Socks5V6,
    HttpConnect,
}
pub const ENTRIES: [Entry; 8] = [Entry::TcpRemote, Entry::UnixRemote, Entry::Socks4, Entry::Socks4a, Entry::Socks5V4, Entry::Socks5Domain, Entry::Socks5V6, Entry::HttpConnect];

#[derive(Clone, Copy, Debug, Hash, PartialEq, Eq, Serialize, Deserialize)]
pub enum Order {
    /// client writes everything, half-closes; the target reads to EOF, then writes, then closes
    ClientHalfCloseFirst,
    /// the target writes everything, half-closes; the client reads to EOF, then writes, then closes
    TargetHalfCloseFirst,
    /// both write concurrently, then both half-close
    Simultaneous,
    /// the target reads a little and resets the connection
    TargetReset,
    /// nothing listens on the target port
    TargetPortClosed,
    /// like ClientHalfCloseFirst, but the target does not read until the client's upload has been blocked for a while
    /// (every buffer on the way is full and the sender's flow-control window is exhausted), then reads everything
    TargetStalls,
    /// like TargetHalfCloseFirst, but the client does not read until the target's writer has been blocked for a while
    ClientStalls,
}

#[derive(Clone, Debug, Hash, PartialEq, Eq, Serialize, Deserialize)]
pub struct Conn {
    pub entry: Entry,
    pub order: Order,
    pub n_c2t: u32,
    pub n_t2c: u32,
    pub chunk_c: u32,
    pub chunk_t: u32,
    pub flush_every: u8,
    /// SOCKS entries only: the first bytes of the payload (the 8-byte connection token) leave in the SAME write as the SOCKS
    /// handshake (for SOCKS5: greeting + request + payload), as an application that does not wait for the reply does
    #[serde(default)]
    pub pipeline: bool,
}

#[derive(Clone, Debug, Hash, PartialEq, Eq, Serialize, Deserialize)]
pub struct TcpCase {
    pub conns: Vec<Conn>,
}

#[derive(Clone, Debug)]
struct TScript {
    conn: Conn,
    /// set by the writing side of a *Stalls order once it has been blocked (or is done): the stalled reader starts
    go: Arc<std::sync::atomic::AtomicBool>,
    /// filled by the target: (bytes verified from the client, saw EOF, error)
    result: Option<(usize, bool, Option<String>)>,
}

pub struct Fx {
    pub tcp_target_port: u16,
    pub closed_port: u16,
    pub udp_target_port: u16,
    /// a second UDP service on the same hosts, different port, different tag
    pub udp_target2_port: u16,
    pub lp_tcp: u16,
    pub uds: PathBuf,
    pub socks_port: u16,
    /// second SOCKS listener of the client, on [::1] (0 = no IPv6 loopback available)
    pub socks6_port: u16,
    pub http_port: u16,
    pub lp_udp: u16,
    /// further plain UDP remotes (same target): used by cases that need a listener nobody else talks to
    pub lp_udp_extra: Vec<u16>,
    registry: Arc<Mutex<HashMap<u64, TScript>>>,
}

static FX: OnceLock<Result<Fx, String>> = OnceLock::new();
static TOKEN: AtomicU64 = AtomicU64::new(1);

async fn free_port() -> u16 {
    let l = TcpListener::bind("127.0.0.1:0").await.expect("bind");
    l.local_addr().unwrap().port()
}

/// a writer that makes no progress for this long counts as blocked by back-pressure
const BLOCKED_AFTER: Duration = Duration::from_millis(300);

async fn wait_flag(flag: &std::sync::atomic::AtomicBool) {
    for _ in 0..12_000 {
        if flag.load(Ordering::SeqCst) {
            return;
        }
        tokio::time::sleep(Duration::from_millis(5)).await;
    }
}

async fn target_conn(mut s: TcpStream, reg: Arc<Mutex<HashMap<u64, TScript>>>) {
    let mut tok = [0u8; 8];
    if s.read_exact(&mut tok).await.is_err() {
        return;
    }
    let token = u64::from_be_bytes(tok);
    let Some((script, go)) = reg.lock().unwrap().get(&token).map(|t| (t.conn.clone(), t.go.clone())) else { return };
    let c = script;
    let n1 = c.n_c2t as usize;
    let n2 = c.n_t2c as usize;
    let set = |r: (usize, bool, Option<String>)| {
        if let Some(t) = reg.lock().unwrap().get_mut(&token) {
            t.result = Some(r);
        }
    };
    let (mut rd, mut wr) = s.into_split();
    let read_all = move |mut rd: tokio::net::tcp::OwnedReadHalf, limit: Option<usize>| async move {
        let mut got = 0usize;
        let mut buf = vec![0u8; 16384];
        let mut err = None;
        let mut eof = false;
        loop {
            if limit.is_some_and(|l| got >= l) {
                break;
            }
            match rd.read(&mut buf).await {
                Ok(0) => {
                    eof = true;
                    break;
                }
                Ok(n) => {
                    for (i, b) in buf[..n].iter().enumerate() {
                        if *b != pay(token, 0, 8 + got + i) && err.is_none() {
                            err = Some(format!("target: byte {} of the client->target stream is {:#04x}, the client wrote {:#04x}", 8 + got + i, b, pay(token, 0, 8 + got + i)));
                        }
                    }
                    got += n;
                }
                Err(e) => {
                    err = Some(format!("target read error: {e}"));
                    break;
                }
            }
        }
        (rd, got, eof, err)
    };
    let go_w = go.clone();
    let write_all = move |mut wr: tokio::net::tcp::OwnedWriteHalf, chunk: usize| async move {
        let mut off = 0;
        while off < n2 {
            let n = chunk.max(1).min(n2 - off);
            let data = payload(token, 1, off, n);
            let mut w = std::pin::pin!(wr.write_all(&data));
            let r = match tokio::time::timeout(BLOCKED_AFTER, &mut w).await {
                Ok(r) => r,
                Err(_) => {
                    go_w.store(true, Ordering::SeqCst); // blocked: the stalled reader may start
                    w.await
                }
            };
            if r.is_err() {
                break;
            }
            off += n;
        }
        go_w.store(true, Ordering::SeqCst);
        wr
    };
    match c.order {
        Order::ClientHalfCloseFirst => {
            let (_rd, got, eof, err) = read_all(rd, None).await;
            set((got, eof, err));
            let mut wr = write_all(wr, c.chunk_t as usize).await;
            wr.shutdown().await.ok();
        }
        Order::TargetHalfCloseFirst | Order::ClientStalls => {
            let mut wr = write_all(wr, c.chunk_t as usize).await;
            wr.shutdown().await.ok();
            let (_rd, got, eof, err) = read_all(rd, None).await;
            set((got, eof, err));
        }
        Order::TargetStalls => {
            wait_flag(&go).await;
            let (_rd, got, eof, err) = read_all(rd, None).await;
            set((got, eof, err));
            let mut wr = write_all(wr, c.chunk_t as usize).await;
            wr.shutdown().await.ok();
        }
        Order::Simultaneous => {
            let w = tokio::spawn(async move {
                let mut wr = write_all(wr, c.chunk_t as usize).await;
                wr.shutdown().await.ok();
            });
            let (_rd, got, eof, err) = read_all(rd, None).await;
            set((got, eof, err));
            w.await.ok();
        }
        Order::TargetReset => {
            let want = n1.saturating_sub(8).min(64);
            let (rd2, got, _eof, err) = read_all(rd, Some(want)).await;
            rd = rd2;
            set((got, false, err));
            let s = rd.reunite(wr).expect("reunite");
            s.set_linger(Some(Duration::from_secs(0))).ok();
            drop(s); // RST
        }
        Order::TargetPortClosed => {}
    }
}

async fn build_fixture() -> Result<Fx, String> {
    rusty_penguin_lib::tls::init_crypto_provider();
    let registry: Arc<Mutex<HashMap<u64, TScript>>> = Arc::new(Mutex::new(HashMap::new()));
    // TCP target on 127.0.0.1 and [::1], same port
    let (t4, t6, tport) = {
        let mut found = None;
        for _ in 0..50 {
            let l4 = TcpListener::bind("127.0.0.1:0").await.map_err(|e| e.to_string())?;
            let p = l4.local_addr().unwrap().port();
            if let Ok(l6) = TcpListener::bind(("::1", p)).await {
                found = Some((l4, l6, p));
                break;
            }
        }
        found.ok_or("no port free on both 127.0.0.1 and ::1")?
    };
    for l in [t4, t6] {
        let reg = registry.clone();
        tokio::spawn(async move {
            loop {
                if let Ok((s, _)) = l.accept().await {
                    tokio::spawn(target_conn(s, reg.clone()));
                }
            }
        });
    }
    // UDP target on both families, same port: replies k copies "R<k>:" + payload, k taken from the first payload byte's low 2 bits
    let (u4, u6, uport) = {
        let mut found = None;
        for _ in 0..50 {
            let s4 = UdpSocket::bind("127.0.0.1:0").await.map_err(|e| e.to_string())?;
            let p = s4.local_addr().unwrap().port();
            if let Ok(s6) = UdpSocket::bind(("::1", p)).await {
                found = Some((s4, s6, p));
                break;
            }
        }
        found.ok_or("no udp port free on both families")?
    };
    let (v4b, v6b, uport2) = {
        let mut found = None;
        for _ in 0..50 {
            let s4 = UdpSocket::bind("127.0.0.1:0").await.map_err(|e| e.to_string())?;
            let p = s4.local_addr().unwrap().port();
            if let Ok(s6) = UdpSocket::bind(("::1", p)).await {
                found = Some((s4, s6, p));
                break;
            }
        }
        found.ok_or("no udp port free on both families")?
    };
    for (s, tag) in [(u4, b'R'), (u6, b'R'), (v4b, b'S'), (v6b, b'S')] {
        tokio::spawn(async move {
            let mut buf = vec![0u8; 70000];
            loop {
                let Ok((n, from)) = s.recv_from(&mut buf).await else { continue };
                let data = buf[..n].to_vec();
                // number of replies is encoded in the last byte (0..=3); empty datagrams get one reply
                let copies = data.last().map(|b| b & 3).unwrap_or(1);
                for k in 0..copies {
                    let mut r = vec![tag, b'0' + k, b':'];
                    r.extend_from_slice(&data);
                    s.send_to(&r, from).await.ok();
                }
            }
        });
    }
    // server
    let sl = TcpListener::bind("127.0.0.1:0").await.map_err(|e| e.to_string())?;
    let sport = sl.local_addr().unwrap().port();
    let state = State::new().await.map_err(|e| e.to_string())?.with_backend_http2_support(false);
    tokio::spawn(run_listener(sl, None, state));
    // client
    let lp_tcp = free_port().await;
    let socks_port = free_port().await;
    let http_port = free_port().await;
    let socks6_port = {
        match TcpListener::bind("[::1]:0").await {
            Ok(l) => l.local_addr().map(|a| a.port()).unwrap_or(0),
            Err(_) => 0, // no IPv6 loopback here: the IPv6 variants are skipped
        }
    };
    let socks6_bind = if socks6_port == 0 { free_port().await } else { socks6_port };
    let lp_udp = {
        let s = UdpSocket::bind("127.0.0.1:0").await.map_err(|e| e.to_string())?;
        s.local_addr().unwrap().port()
    };
    let mut lp_udp_extra = vec![];
    for _ in 0..8 {
        let s = UdpSocket::bind("127.0.0.1:0").await.map_err(|e| e.to_string())?;
        lp_udp_extra.push(s.local_addr().unwrap().port());
    }
    let closed_port = free_port().await;
    let uds = tmp_dir().join(format!("c01-{}.sock", std::process::id()));
    let _ = std::fs::remove_file(&uds);
    let inet = |p: u16| LocalSpec::Inet(("127.0.0.1".to_string(), p));
    let mut extra_remotes: Vec<Remote> = lp_udp_extra.iter().map(|p| Remote { local_addr: inet(*p), remote_addr: RemoteSpec::Inet(("127.0.0.1".into(), uport)), protocol: Protocol::Udp }).collect();
    let args: &'static ClientArgs = Box::leak(Box::new(ClientArgs {
        server: ServerUrl::from_str(&format!("ws://127.0.0.1:{sport}/ws")).map_err(|e| e.to_string())?,
        remote: {
            let mut v = vec![
            Remote { local_addr: inet(lp_tcp), remote_addr: RemoteSpec::Inet(("127.0.0.1".into(), tport)), protocol: Protocol::Tcp },
            Remote { local_addr: LocalSpec::DomainSocket(uds.clone()), remote_addr: RemoteSpec::Inet(("127.0.0.1".into(), tport)), protocol: Protocol::Tcp },
            Remote { local_addr: inet(socks_port), remote_addr: RemoteSpec::Socks, protocol: Protocol::Tcp },
            Remote { local_addr: inet(http_port), remote_addr: RemoteSpec::Http, protocol: Protocol::Tcp },
            Remote { local_addr: LocalSpec::Inet((if socks6_port == 0 { "127.0.0.1" } else { "::1" }.to_string(), socks6_bind)), remote_addr: RemoteSpec::Socks, protocol: Protocol::Tcp },
            Remote { local_addr: inet(lp_udp), remote_addr: RemoteSpec::Inet(("127.0.0.1".into(), uport)), protocol: Protocol::Udp },
            ];
            v.append(&mut extra_remotes);
            v
        },
        keepalive: OptionalDuration::NONE,
        keepalive_timeout: OptionalDuration::NONE,
        max_retry_count: 0,
        max_retry_interval: 500,
        handshake_timeout: OptionalDuration::from_secs(5),
        channel_timeout: OptionalDuration::from_secs(10),
        ..Default::default()
    }));
    let (hr, srx, drx) = HandlerResources::create();
    let hr: &'static HandlerResources = Box::leak(Box::new(hr));
    tokio::spawn(async move {
        let r = client_main_inner(args, hr, srx, drx).await;
        eprintln!("C01 fixture: client_main_inner returned {r:?}");
    });
    // wait until the listeners are up
    for _ in 0..400 {
        if TcpStream::connect(("127.0.0.1", lp_tcp)).await.is_ok() && TcpStream::connect(("127.0.0.1", socks_port)).await.is_ok() && TcpStream::connect(("127.0.0.1", http_port)).await.is_ok() && uds.exists() {
            break;
        }
        tokio::time::sleep(Duration::from_millis(10)).await;
    }
    Ok(Fx { tcp_target_port: tport, closed_port, udp_target_port: uport, udp_target2_port: uport2, lp_tcp, uds, socks_port, socks6_port, http_port, lp_udp, lp_udp_extra, registry })
}

pub fn fx() -> Result<&'static Fx, String> {
    FX.get_or_init(|| rt().block_on(build_fixture())).as_ref().map_err(Clone::clone)
}

trait Io: AsyncRead + AsyncWrite + Unpin + Send {}
impl<T: AsyncRead + AsyncWrite + Unpin + Send> Io for T {}

async fn read_exact_vec(s: &mut (dyn Io), n: usize) -> Result<Vec<u8>, String> {
    let mut v = vec![0u8; n];
    s.read_exact(&mut v).await.map_err(|e| format!("proxy handshake read: {e}"))?;
    Ok(v)
}

/// open the local connection of `entry` towards the TCP target (or the closed port)
async fn open_entry(f: &Fx, entry: Entry, port: u16, early: &[u8]) -> Result<Box<dyn Io>, String> {
    match entry {
        Entry::TcpRemote => Ok(Box::new(TcpStream::connect(("127.0.0.1", f.lp_tcp)).await.map_err(|e| format!("connect tcp remote: {e}"))?)),
        Entry::UnixRemote => Ok(Box::new(UnixStream::connect(&f.uds).await.map_err(|e| format!("connect unix remote: {e}"))?)),
        Entry::Socks4 | Entry::Socks4a => {
            let mut s = TcpStream::connect(("127.0.0.1", f.socks_port)).await.map_err(|e| format!("connect socks: {e}"))?;
            let mut req = vec![4u8];
            if entry == Entry::Socks4 {
                req.extend(rs::v4_request_after_vn(1, port, [127, 0, 0, 1], b"user", None));
            } else {
                req.extend(rs::v4_request_after_vn(1, port, [0, 0, 0, 9], b"user", Some(b"localhost")));
            }
            req.extend_from_slice(early);
            s.write_all(&req).await.map_err(|e| e.to_string())?;
            let rep = read_exact_vec(&mut s, 8).await?;
            if rep != rs::v4_reply(90) {
                return Err(format!("socks4 reply {rep:02x?} is not the 'request granted' reply"));
            }
            Ok(Box::new(s))
        }
        Entry::Socks5V4 | Entry::Socks5Domain | Entry::Socks5V6 => {
            let mut s = TcpStream::connect(("127.0.0.1", f.socks_port)).await.map_err(|e| format!("connect socks: {e}"))?;
            let addr = match entry {
                Entry::Socks5V4 => rs::Addr5::V4([127, 0, 0, 1]),
                Entry::Socks5Domain => rs::Addr5::Domain(b"localhost".to_vec()),
                _ => rs::Addr5::V6(std::net::Ipv6Addr::LOCALHOST.octets()),
            };
            if early.is_empty() {
                s.write_all(&[5, 1, 0]).await.map_err(|e| e.to_string())?;
            } else {
                // greeting, request and the first payload bytes in one write
                let mut all = vec![5u8, 1, 0];
                all.extend(rs::v5_request(5, 1, 0, &addr, port));
                all.extend_from_slice(early);
                s.write_all(&all).await.map_err(|e| e.to_string())?;
            }
            let sel = read_exact_vec(&mut s, 2).await?;
            if sel != [5, 0] {
                return Err(format!("socks5 method selection {sel:02x?}"));
            }
            if early.is_empty() {
                s.write_all(&rs::v5_request(5, 1, 0, &addr, port)).await.map_err(|e| e.to_string())?;
            }
            let head = read_exact_vec(&mut s, 4).await?;
            if head[0] != 5 || head[1] != 0 || head[2] != 0 {
                return Err(format!("socks5 reply header {head:02x?} is not a success reply"));
            }
            let rest = match head[3] {
                1 => 4 + 2,
                4 => 16 + 2,
                3 => {
                    let l = read_exact_vec(&mut s, 1).await?;
                    l[0] as usize + 2
                }
                x => return Err(format!("socks5 reply with ATYP {x}")),
            };
            read_exact_vec(&mut s, rest).await?;
            Ok(Box::new(s))
        }
        Entry::HttpConnect => {
            let mut s = TcpStream::connect(("127.0.0.1", f.http_port)).await.map_err(|e| format!("connect http proxy: {e}"))?;
            let req = format!("CONNECT 127.0.0.1:{port} HTTP/1.1\r\nHost: 127.0.0.1:{port}\r\n\r\n");
            s.write_all(req.as_bytes()).await.map_err(|e| e.to_string())?;
            let mut head = vec![];
            let mut b = [0u8; 1];
            while !head.ends_with(b"\r\n\r\n") {
                s.read_exact(&mut b).await.map_err(|e| format!("http proxy reply: {e}"))?;
                head.push(b[0]);
                if head.len() > 4096 {
                    return Err("http proxy reply too long".into());
                }
            }
            let line = String::from_utf8_lossy(&head);
            if !line.starts_with("HTTP/1.1 200") {
                return Err(format!("http proxy answered {:?}", line.lines().next()));
            }
            Ok(Box::new(s))
        }
    }
}

async fn run_conn(f: &'static Fx, c: Conn) -> Result<(), (String, String)> {
    let token = TOKEN.fetch_add(1, Ordering::Relaxed).wrapping_mul(0x9E37_79B9_7F4A_7C15);
    let go = Arc::new(std::sync::atomic::AtomicBool::new(false));
    f.registry.lock().unwrap().insert(token, TScript { conn: c.clone(), go: go.clone(), result: None });
    let e = |sig: &str, msg: String| (sig.to_string(), format!("{:?} {:?} c2t={} t2c={}: {msg}", c.entry, c.order, c.n_c2t, c.n_t2c));
    let port = if c.order == Order::TargetPortClosed { f.closed_port } else { f.tcp_target_port };
    let socks = matches!(c.entry, Entry::Socks4 | Entry::Socks4a | Entry::Socks5V4 | Entry::Socks5Domain | Entry::Socks5V6);
    let pipelined = c.pipeline && socks;
    let early = token.to_be_bytes();
    let s = match open_entry(f, c.entry, port, if pipelined { &early } else { &[] }).await {
        Ok(s) => s,
        Err(m) => {
            // a proxy entry may refuse at the handshake when the target is unreachable; that closes the connection, which is fine
            if c.order == Order::TargetPortClosed {
                return Ok(());
            }
            return Err(e("c01-entry-handshake", m));
        }
    };
    let (mut rd, mut wr) = tokio::io::split(s);
    let n1 = c.n_c2t as usize;
    let n2 = c.n_t2c as usize;
    let chunk = (c.chunk_c as usize).max(1);
    let flush_every = c.flush_every;
    // the token goes out first in every order: the target needs it to find its script
    if pipelined {
        // (already sent with the handshake)
    } else if let Err(x) = wr.write_all(&token.to_be_bytes()).await {
        if !matches!(c.order, Order::TargetPortClosed) {
            return Err(e("c01-local-io", format!("writing the first 8 bytes: {x}")));
        }
    }
    wr.flush().await.ok();
    let go_w = go.clone();
    let writer = async move {
        let all = payload(token, 0, 8, n1.saturating_sub(8));
        let mut off = 0;
        let mut k = 0u8;
        while off < all.len() {
            let n = chunk.min(all.len() - off);
            {
                let mut w = std::pin::pin!(wr.write_all(&all[off..off + n]));
                match tokio::time::timeout(BLOCKED_AFTER, &mut w).await {
                    Ok(r) => r,
                    Err(_) => {
                        go_w.store(true, Ordering::SeqCst); // blocked: a stalled target may start reading
                        w.await
                    }
                }
                .map_err(|e| format!("local write: {e}"))?;
            }
            off += n;
            k = k.wrapping_add(1);
            if flush_every > 0 && k % flush_every == 0 {
                wr.flush().await.ok();
            }
        }
        go_w.store(true, Ordering::SeqCst);
        Ok::<_, String>(wr)
    };
    let reader = |mut rd: tokio::io::ReadHalf<Box<dyn Io>>| async move {
        let mut got = 0usize;
        let mut buf = vec![0u8; 16384];
        let mut err = None;
        loop {
            match rd.read(&mut buf).await {
                Ok(0) => return (got, true, err),
                Ok(n) => {
                    for (i, b) in buf[..n].iter().enumerate() {
                        if *b != pay(token, 1, got + i) && err.is_none() {
                            err = Some(format!("byte {} of the target->client stream is {:#04x}, the target wrote {:#04x}", got + i, b, pay(token, 1, got + i)));
                        }
                    }
                    got += n;
                }
                Err(e2) => return (got, false, err.or(Some(format!("reset: {e2}")))),
            }
        }
    };
    // the target checks pay(token,0,off) for off >= 8 and the token itself for the first 8 bytes: adjust expectation there
    let limit = if matches!(c.order, Order::TargetStalls | Order::ClientStalls) { Duration::from_secs(90) } else { Duration::from_secs(20) };
    let fut = async {
        match c.order {
            Order::ClientHalfCloseFirst | Order::TargetStalls => {
                let mut wr = writer.await?;
                wr.shutdown().await.map_err(|e| format!("local shutdown: {e}"))?;
                let (got, eof, err) = reader(rd).await;
                Ok::<_, String>((got, eof, err))
            }
            Order::TargetHalfCloseFirst | Order::ClientStalls => {
                if c.order == Order::ClientStalls {
                    wait_flag(&go).await;
                }
                let (got, eof, err) = reader(rd).await;
                let mut wr = writer.await?;
                wr.shutdown().await.ok();
                Ok((got, eof, err))
            }
            Order::Simultaneous => {
                let w = tokio::spawn(async move {
                    let mut wr = writer.await?;
                    wr.shutdown().await.ok();
                    Ok::<_, String>(())
                });
                let r = reader(rd).await;
                w.await.map_err(|e| e.to_string())??;
                Ok(r)
            }
            Order::TargetReset | Order::TargetPortClosed => {
                // write what we can; the connection must be closed on us, not left hanging
                let w = tokio::spawn(async move {
                    let _ = writer.await;
                });
                let r = reader(rd).await;
                w.abort();
                Ok(r)
            }
        }
    };
    let (got, eof, rerr) = match tokio::time::timeout(limit, fut).await {
        Err(_) => return Err(e("c01-hang", format!("the local connection was neither served nor closed within {limit:?}"))),
        Ok(Err(m)) => return Err(e("c01-local-io", m)),
        Ok(Ok(x)) => x,
    };
    match c.order {
        Order::TargetReset | Order::TargetPortClosed => {
            // closed (EOF or reset) is all that is required
            let _ = (got, eof, rerr);
            Ok(())
        }
        _ => {
            if let Some(m) = rerr {
                return Err(e("c01-t2c-corrupt", m));
            }
            if got != n2 || !eof {
                return Err(e("c01-t2c-incomplete", format!("the client received {got} of {n2} bytes (eof: {eof})")));
            }
            // the target's view (give it a moment to record)
            let mut res = None;
            for _ in 0..400 {
                res = f.registry.lock().unwrap().get(&token).and_then(|t| t.result.clone());
                if res.is_some() {
                    break;
                }
                tokio::time::sleep(Duration::from_millis(5)).await;
            }
            f.registry.lock().unwrap().remove(&token);
            let Some((tgot, teof, terr)) = res else { return Err(e("c01-hang", "the target never saw the end of the client's stream".into())) };
            if let Some(m) = terr {
                // offsets 0..8 carry the token, which the target consumed before checking
                return Err(e("c01-c2t-corrupt", m));
            }
            let want = n1.max(8) - 8;
            if tgot != want || !teof {
                return Err(e("c01-c2t-incomplete", format!("the target received {tgot} of {want} payload bytes after the token (eof: {teof})")));
            }
            Ok(())
        }
    }
}

pub fn check_tcp(case: &TcpCase) -> Outcome {
    let f = match fx() {
        Ok(f) => f,
        Err(e) => return Outcome::inconclusive(format!("fixture: {e}")),
    };
    let run = |case: &TcpCase| {
        rt().block_on(async {
            let hs: Vec<_> = case.conns.iter().cloned().map(|c| tokio::spawn(run_conn(f, c))).collect();
            let mut first = None;
            for h in hs {
                match h.await {
                    Ok(Ok(())) => {}
                    Ok(Err(e)) => {
                        first.get_or_insert(e);
                    }
                    Err(e) => {
                        first.get_or_insert(("c01-harness-panic".to_string(), e.to_string()));
                    }
                }
            }
            first
        })
    };
    if let Some((sig, msg)) = run(case) {
        if std::env::var("VERIF_DEBUG").is_ok() {
            eprintln!("DEBUG C01 failure: {sig}: {msg}");
        }
        if sig == "c01-hang" {
            // confirm by an isolated re-run
            if let Some((sig2, msg2)) = run(case) {
                return Outcome::violation(sig2, format!("{msg2} | first run: {msg}"));
            }
            return Outcome::inconclusive(format!("hang not reproduced: {msg}"));
        }
        return Outcome::violation(sig, msg);
    }
    let half = case.conns.iter().any(|c| matches!(c.order, Order::ClientHalfCloseFirst | Order::TargetHalfCloseFirst | Order::TargetStalls | Order::ClientStalls) && c.n_c2t > 8 && c.n_t2c > 0);
    let mut cl = vec![];
    if half {
        cl.push("bidirectional-with-half-close");
    }
    if case.conns.len() >= 2 {
        cl.push("concurrent-connections");
    }
    if case.conns.iter().any(|c| matches!(c.order, Order::TargetReset | Order::TargetPortClosed)) {
        cl.push("target-reset-or-refused");
    }
    if case.conns.iter().any(|c| c.n_c2t > 300_000 || c.n_t2c > 300_000) {
        cl.push("several-windows");
    }
    if case.conns.iter().any(|c| matches!(c.order, Order::TargetStalls | Order::ClientStalls)) {
        cl.push("stalled-consumer-window-exhausted");
    }
    Outcome::pass(half || case.conns.len() >= 2, cl)
}

// ------------------------------------------------------------------ UDP

#[derive(Clone, Debug, Hash, PartialEq, Eq, Serialize, Deserialize)]
pub struct UdpClient {
    /// false: plain UDP remote; true: SOCKS5 UDP association
    pub socks5: bool,
    /// for SOCKS5: 0 = IPv4 target address, 1 = domain, 2 = IPv6
    pub atyp: u8,
    /// payload sizes of the datagrams to send
    pub sizes: Vec<u32>,
    /// replies requested per datagram (0..=3)
    pub replies: u8,
    /// SOCKS5 only: which of the two UDP services each datagram is addressed to (index modulo length; empty = always the first)
    #[serde(default)]
    pub targets: Vec<u8>,
    /// keep the socket (and the SOCKS5 association with its control connection) open this long after the last exchange
    #[serde(default)]
    pub hold_ms: u16,
    /// stay silent this long before datagram number `idle_at` (same socket, same association): longer than the 10 s after
    /// which client and server forget an inactive UDP flow
    #[serde(default)]
    pub idle_ms: u32,
    #[serde(default)]
    pub idle_at: u8,
    /// during the idle period keep sending datagrams that ask for no reply (send-only traffic), one per second
    #[serde(default)]
    pub idle_send_only: bool,
    /// plain UDP remote to use: 0 = the shared one, k = the k-th extra listener (nobody else talks to it)
    #[serde(default)]
    pub listener: u8,
    /// SOCKS5 only: the local client reaches the SOCKS listener and its UDP relay over IPv6 loopback (a second SOCKS listener of the
    /// client on [::1]); the relay's replies then carry an IPv6 address in their RFC 1928 header
    #[serde(default)]
    pub via_v6: bool,
}

/// many UDP clients that stay open at the same time, and TCP connections made while they are
#[derive(Clone, Debug, Hash, PartialEq, Eq, Serialize, Deserialize)]
pub struct CrowdCase {
    pub n_udp: u16,
    pub socks5: bool,
    pub tcp: Vec<Conn>,
}

#[derive(Clone, Debug, Hash, PartialEq, Eq, Serialize, Deserialize)]
pub struct UdpCase {
    pub clients: Vec<UdpClient>,
}

async fn run_udp_client(f: &'static Fx, idx: usize, c: UdpClient, hold_until: Option<Arc<std::sync::atomic::AtomicBool>>) -> Result<(), (String, String)> {
    let e = |sig: &str, msg: String| (sig.to_string(), format!("udp client {idx} (socks5={}, atyp={}): {msg}", c.socks5, c.atyp));
    let v6 = c.via_v6 && c.socks5 && f.socks6_port != 0;
    let sock = UdpSocket::bind(if v6 { "[::1]:0" } else { "127.0.0.1:0" }).await.map_err(|x| e("c01-harness", x.to_string()))?;
    let me = (TOKEN.fetch_add(1, Ordering::Relaxed) as u32) << 8;
    // for SOCKS5: association
    let mut _ctrl = None;
    let relay: SocketAddr = if v6 {
        let mut s = TcpStream::connect(("::1", f.socks6_port)).await.map_err(|x| e("c01-entry-handshake", x.to_string()))?;
        s.write_all(&[5, 1, 0]).await.map_err(|x| e("c01-entry-handshake", x.to_string()))?;
        let mut sel = [0u8; 2];
        s.read_exact(&mut sel).await.map_err(|x| e("c01-entry-handshake", x.to_string()))?;
        s.write_all(&rs::v5_request(5, 3, 0, &rs::Addr5::V6([0; 16]), 0)).await.map_err(|x| e("c01-entry-handshake", x.to_string()))?;
        let mut head = [0u8; 4];
        s.read_exact(&mut head).await.map_err(|x| e("c01-entry-handshake", format!("associate reply: {x}")))?;
        if head[..3] != [5, 0, 0] {
            return Err(e("c01-entry-handshake", format!("associate reply {head:02x?}")));
        }
        let relay = match head[3] {
            4 => {
                let mut rest = [0u8; 18];
                s.read_exact(&mut rest).await.map_err(|x| e("c01-entry-handshake", format!("associate reply: {x}")))?;
                let mut ip = [0u8; 16];
                ip.copy_from_slice(&rest[..16]);
                let ip = std::net::Ipv6Addr::from(ip);
                SocketAddr::from((if ip.is_unspecified() { std::net::Ipv6Addr::LOCALHOST } else { ip }, u16::from_be_bytes([rest[16], rest[17]])))
            }
            1 => {
                let mut rest = [0u8; 6];
                s.read_exact(&mut rest).await.map_err(|x| e("c01-entry-handshake", format!("associate reply: {x}")))?;
                SocketAddr::from((std::net::Ipv6Addr::LOCALHOST, u16::from_be_bytes([rest[4], rest[5]])))
            }
            x => return Err(e("c01-entry-handshake", format!("associate reply with ATYP {x}"))),
        };
        _ctrl = Some(s);
        relay
    } else if c.socks5 {
        let mut s = TcpStream::connect(("127.0.0.1", f.socks_port)).await.map_err(|x| e("c01-entry-handshake", x.to_string()))?;
        s.write_all(&[5, 1, 0]).await.map_err(|x| e("c01-entry-handshake", x.to_string()))?;
        let mut sel = [0u8; 2];
        s.read_exact(&mut sel).await.map_err(|x| e("c01-entry-handshake", x.to_string()))?;
        s.write_all(&rs::v5_request(5, 3, 0, &rs::Addr5::V4([0, 0, 0, 0]), 0)).await.map_err(|x| e("c01-entry-handshake", x.to_string()))?;
        let mut rep = [0u8; 10];
        s.read_exact(&mut rep).await.map_err(|x| e("c01-entry-handshake", format!("associate reply: {x}")))?;
        if rep[..4] != [5, 0, 0, 1] {
            return Err(e("c01-entry-handshake", format!("associate reply {rep:02x?}")));
        }
        let port = u16::from_be_bytes([rep[8], rep[9]]);
        let ip = std::net::Ipv4Addr::new(rep[4], rep[5], rep[6], rep[7]);
        _ctrl = Some(s);
        SocketAddr::from((if ip.is_unspecified() { std::net::Ipv4Addr::LOCALHOST } else { ip }, port))
    } else {
        SocketAddr::from(([127, 0, 0, 1], if c.listener == 0 { f.lp_udp } else { f.lp_udp_extra[(c.listener as usize - 1) % f.lp_udp_extra.len()] }))
    };
    for (k, size) in c.sizes.iter().enumerate() {
        if c.idle_ms > 0 && k == c.idle_at as usize {
            let until = tokio::time::Instant::now() + Duration::from_millis(c.idle_ms as u64);
            while tokio::time::Instant::now() < until {
                if c.idle_send_only {
                    // a datagram that asks for no reply (size 0 gets one copy back, so use 5 bytes with reply count 0)
                    let mut d = [me.to_be_bytes().as_slice(), &0xffffu16.to_be_bytes()].concat();
                    d.push(0);
                    let w = if c.socks5 { rs::udp_datagram([0, 0], 0, &rs::Addr5::V4([127, 0, 0, 1]), f.udp_target_port, &d) } else { d };
                    sock.send_to(&w, relay).await.map_err(|x| e("c01-harness", x.to_string()))?;
                }
                tokio::time::sleep(Duration::from_millis(1000)).await;
            }
        }
        // payload: 4-byte client id, 2-byte sequence, filler, last byte = replies wanted (when size allows)
        let size = *size as usize;
        let mut data: Vec<u8> = Vec::with_capacity(size);
        let hdr = [me.to_be_bytes().as_slice(), &(k as u16).to_be_bytes()].concat();
        for i in 0..size {
            data.push(if i < hdr.len() { hdr[i] } else { pay(me as u64, 2, i) });
        }
        let copies = if size == 0 { 1 } else {
            let l = data.len() - 1;
            data[l] = (data[l] & !3) | (c.replies & 3);
            c.replies & 3
        } as usize;
        let second = c.socks5 && !c.targets.is_empty() && c.targets[k % c.targets.len()] % 2 == 1;
        let (tport, ttag) = if second { (f.udp_target2_port, b'S') } else { (f.udp_target_port, b'R') };
        let wire = if c.socks5 {
            let addr = match c.atyp {
                0 => rs::Addr5::V4([127, 0, 0, 1]),
                1 => rs::Addr5::Domain(b"localhost".to_vec()),
                _ => rs::Addr5::V6(std::net::Ipv6Addr::LOCALHOST.octets()),
            };
            rs::udp_datagram([0, 0], 0, &addr, tport, &data)
        } else {
            data.clone()
        };
        let mut ok = false;
        let mut last = String::new();
        'attempt: for _try in 0..3 {
            sock.send_to(&wire, relay).await.map_err(|x| e("c01-harness", x.to_string()))?;
            let mut seen = vec![false; copies];
            let deadline = tokio::time::Instant::now() + Duration::from_millis(if copies == 0 { 150 } else { 1500 });
            loop {
                if copies > 0 && seen.iter().all(|x| *x) {
                    // a little longer: duplicates?
                    ok = true;
                }
                let mut buf = vec![0u8; 70000];
                let r = tokio::time::timeout_at(if ok { tokio::time::Instant::now() + Duration::from_millis(30) } else { deadline }, sock.recv_from(&mut buf)).await;
                let Ok(Ok((n, from))) = r else {
                    if copies == 0 {
                        ok = true;
                    }
                    if ok {
                        break 'attempt;
                    }
                    last = format!("datagram {k} ({size} bytes): {} of {copies} replies arrived", seen.iter().filter(|x| **x).count());
                    break;
                };
                if from != relay {
                    return Err(e("c01-udp-wrong-source", format!("a reply arrived from {from}, the client sent to {relay}")));
                }
                let body = if c.socks5 {
                    match rs::parse_udp_datagram(&buf[..n]) {
                        Ok((_a, _p, d)) => d,
                        Err(m) => return Err(e("c01-udp-socks5-header", format!("reply {:02x?}.. does not start with a well-formed RFC 1928 UDP header: {m}", &buf[..n.min(24)]))),
                    }
                } else {
                    buf[..n].to_vec()
                };
                if body.len() < 3 || !(body[0] == b'R' || body[0] == b'S') || body[2] != b':' {
                    return Err(e("c01-udp-corrupt", format!("reply payload {:02x?}.. is not what the target sent", &body[..body.len().min(16)])));
                }
                let inner = &body[3..];
                // (the last payload byte carries the reply count, so compare with the header as sent)
                if inner.len() >= 4 && data.len() >= 4 && inner[..3] != data[..3] {
                    return Err(e("c01-udp-misdelivered", format!("received the reply to a datagram of another local client (id {:02x?}, mine {:02x?})", &inner[..4], &data[..4])));
                }
                if inner.len() >= 6 && inner[4..6] != (k as u16).to_be_bytes() {
                    // a late reply to an earlier datagram of ours (retries): ignore
                    continue;
                }
                if inner != data.as_slice() {
                    if inner.len() < 4 {
                        continue; // too short to attribute; may belong to an earlier retry
                    }
                    return Err(e("c01-udp-corrupt", format!("datagram {k}: reply payload differs from what was sent ({} vs {} bytes)", inner.len(), data.len())));
                }
                if body[0] != ttag {
                    return Err(e("c01-udp-wrong-target", format!("datagram {k} was addressed to the UDP service on port {tport} but the reply comes from the other service (tag {:?}): the datagram reached the wrong target", body[0] as char)));
                }
                let copy = (body[1] - b'0') as usize;
                if copy >= copies {
                    return Err(e("c01-udp-corrupt", format!("unexpected reply copy {copy}")));
                }
                if seen[copy] && _try == 0 {
                    return Err(e("c01-udp-duplicate", format!("datagram {k}: reply copy {copy} delivered twice")));
                }
                seen[copy] = true;
            }
        }
        if !ok {
            return Err(e("c01-udp-lost", format!("{last} after three attempts")));
        }
    }
    if c.hold_ms > 0 {
        tokio::time::sleep(Duration::from_millis(c.hold_ms as u64)).await;
    }
    if let Some(flag) = hold_until {
        // stay open until released (at most 40 s)
        for _ in 0..4000 {
            if flag.load(Ordering::SeqCst) {
                break;
            }
            tokio::time::sleep(Duration::from_millis(10)).await;
        }
    }
    drop(_ctrl);
    Ok(())
}

/// n UDP clients (SOCKS5 associations or users of the plain UDP remote) exchange one datagram each and stay open; while they are,
/// TCP connections through several entry kinds must be served like direct ones; afterwards everything closes
pub fn check_crowd(case: &CrowdCase) -> Outcome {
    let f = match fx() {
        Ok(f) => f,
        Err(e) => return Outcome::inconclusive(format!("fixture: {e}")),
    };
    let r = rt().block_on(async {
        // the UDP clients stay open until the TCP connections are done: a TCP connection that can only proceed once UDP clients
        // go away runs into its 20 s limit
        let release = Arc::new(std::sync::atomic::AtomicBool::new(false));
        let udp: Vec<_> = (0..case.n_udp as usize)
            .map(|i| tokio::spawn(run_udp_client(f, i, UdpClient { socks5: case.socks5, atyp: (i % 3) as u8, sizes: vec![16], replies: 1, targets: vec![], hold_ms: 0, idle_ms: 0, idle_at: 0, idle_send_only: false, listener: 0, via_v6: false }, Some(release.clone()))))
            .collect();
        // the exchanges take well under a second
        tokio::time::sleep(Duration::from_millis(1500)).await;
        let tcp: Vec<_> = case.tcp.iter().cloned().map(|c| tokio::spawn(run_conn(f, c))).collect();
        let mut first = None;
        for h in tcp {
            match h.await {
                Ok(Ok(())) => {}
                Ok(Err((sig, msg))) => {
                    first.get_or_insert((sig, format!("while {} {} were open: {msg}", case.n_udp, if case.socks5 { "SOCKS5 UDP associations" } else { "plain UDP clients" })));
                }
                Err(e) => {
                    first.get_or_insert(("c01-harness-panic".to_string(), e.to_string()));
                }
            }
        }
        release.store(true, Ordering::SeqCst);
        for h in udp {
            match h.await {
                Ok(Ok(())) => {}
                Ok(Err(e)) => {
                    first.get_or_insert(e);
                }
                Err(e) => {
                    first.get_or_insert(("c01-harness-panic".to_string(), e.to_string()));
                }
            }
        }
        first
    });
    match r {
        Some((sig, msg)) if sig == "c01-harness" => Outcome::inconclusive(msg),
        Some((sig, msg)) => Outcome::violation(sig, msg),
        None => Outcome::pass(true, vec!["many-udp-clients-open-with-tcp"]),
    }
}

pub fn check_udp(case: &UdpCase) -> Outcome {
    let f = match fx() {
        Ok(f) => f,
        Err(e) => return Outcome::inconclusive(format!("fixture: {e}")),
    };
    let r = rt().block_on(async {
        let hs: Vec<_> = case.clients.iter().cloned().enumerate().map(|(i, c)| tokio::spawn(run_udp_client(f, i, c, None))).collect();
        let mut first = None;
        for h in hs {
            match h.await {
                Ok(Ok(())) => {}
                Ok(Err(e)) => {
                    first.get_or_insert(e);
                }
                Err(e) => {
                    first.get_or_insert(("c01-harness-panic".to_string(), e.to_string()));
                }
            }
        }
        first
    });
    if let Some((sig, msg)) = r {
        if sig == "c01-harness" {
            return Outcome::inconclusive(msg);
        }
        return Outcome::violation(sig, msg);
    }
    let small = case.clients.iter().any(|c| c.sizes.iter().any(|s| *s < 4));
    let mut cl = vec![];
    if small {
        cl.push("udp-payload-under-4-bytes");
    }
    if case.clients.len() >= 2 {
        cl.push("concurrent-udp-clients");
    }
    if case.clients.iter().any(|c| c.socks5) {
        cl.push("socks5-udp");
    }
    Outcome::pass(small || case.clients.len() >= 2, cl)
}

fn conn() -> impl Strategy<Value = Conn> {
    let size = prop_oneof![2 => Just(0u32), 3 => 1u32..64, 3 => 64u32..20_000, 2 => 20_000u32..400_000, 1 => 400_000u32..3_000_000];
    (
        prop::sample::select(ENTRIES.to_vec()),
        prop_oneof![3 => Just(Order::ClientHalfCloseFirst), 3 => Just(Order::TargetHalfCloseFirst), 3 => Just(Order::Simultaneous), 1 => Just(Order::TargetReset), 1 => Just(Order::TargetPortClosed)],
        size.clone(),
        size,
        prop::sample::select(vec![1u32, 7, 100, 1460, 16_384, 100_000]),
        prop::sample::select(vec![1u32, 13, 512, 1460, 65_536]),
        (0u8..4, prop::bool::weighted(0.3)),
    )
        .prop_map(|(entry, order, a, b, chunk_c, chunk_t, (flush_every, pipeline))| {
            // the first 8 bytes client->target carry the connection token
            let n_c2t = a.max(8);
            // tiny chunks only with modest sizes (keeps a case within seconds)
            let chunk_c = if n_c2t > 50_000 { chunk_c.max(1460) } else { chunk_c };
            let chunk_t = if b > 50_000 { chunk_t.max(1460) } else { chunk_t };
            Conn { entry, order, n_c2t, n_t2c: b, chunk_c, chunk_t, flush_every, pipeline }
        })
}

pub fn run(ctx: &Ctx, rep: &mut Report) {
    rep.rule = "one real client (client_main_inner) and one real server (run_listener) on loopback with remotes for every entry kind. TCP cases = 1-8 concurrent connections, each: entry {fixed TCP remote, Unix-socket remote, SOCKS4, SOCKS4a by name, SOCKS5 IPv4/domain/IPv6, HTTP CONNECT} x payload sizes each way 0..3 MB in generated chunkings/flushes x close order {client half-close first, target half-close first, simultaneous, target reset, target port closed}, plus a stalled-consumer family (40+ MB one way while the receiving end does not read until the sender has been blocked for 300 ms, so that the sending bridge exhausts its flow-control window); \
                content is a function of (connection token, direction, offset). Crowd cases = 20/70/140 UDP clients (SOCKS5 associations or plain) held open at once while TCP connections through four entry kinds are made. UDP cases = 1-6 concurrent local sockets (plain UDP remote or SOCKS5 association with IPv4/domain/IPv6 target addresses, the SOCKS listener and its relay reached over IPv4 or - a third of the SOCKS5 clients - over IPv6 loopback through a second listener on [::1], so that the reply headers carry IPv6 addresses, one association addressing two UDP services on the same host), datagram sizes {0,1,2,3,4,512,1400,8000,60000}, target replying 0-3 tagged copies. \
                Oracle: both directions byte-exact and complete with EOF propagated in each close order, closed (not hanging) on target reset/refusal (20 s limit, hang verdicts confirmed by a re-run); UDP replies only on the socket of the originating client, from the address it sent to, payload unmodified, no duplicates, SOCKS5 replies prefixed by a header an independent RFC 1928 parser accepts; \
                loss tolerated only after three failed exchanges. Non-trivial = bidirectional traffic with a half-close, or >= 2 concurrent clients, or a UDP payload < 4 bytes. Distinct = distinct case value."
        .into();
    rep.assumptions = vec![
        "real sockets and the real tokio scheduler: interleavings are sampled, not controlled (the controlled exploration of the same code paths is C02-C13)".into(),
        "all cases of a run share one client/server pair".into(),
        "the address fields of SOCKS5 UDP reply headers are not compared (the statement requires a well-formed header that can be stripped)".into(),
    ];
    ctx.max_shrink_iters.store(10, std::sync::atomic::Ordering::Relaxed);
    ctx.prop(rep, "tcp", ctx.tier.pick(640, 12_000), 20, || prop::collection::vec(conn(), 1..=6).prop_map(|conns| TcpCase { conns }), check_tcp);
    ctx.enumerate(
        rep,
        "tcp-entry-order-matrix",
        (ENTRIES.len() * 5) as u64,
        8,
        |i| {
            let entry = ENTRIES[(i % 8) as usize];
            let order = [Order::ClientHalfCloseFirst, Order::TargetHalfCloseFirst, Order::Simultaneous, Order::TargetReset, Order::TargetPortClosed][(i / 8) as usize];
            TcpCase { conns: vec![Conn { entry, order, n_c2t: 3000, n_t2c: 5000, chunk_c: 700, chunk_t: 900, flush_every: 1, pipeline: false }, Conn { entry, order, n_c2t: 3000, n_t2c: 5000, chunk_c: 700, chunk_t: 900, flush_every: 1, pipeline: true }] }
        },
        check_tcp,
    );
    // a consumer that stops reading until the sender is blocked by back-pressure: every buffer between the two ends fills up
    // and the sending bridge runs out of flow-control credit in the middle of the transfer
    let stalls = ctx.tier.pick(8, 48);
    ctx.enumerate(
        rep,
        "tcp-stalled-consumer",
        stalls,
        4,
        |i| {
            let entry = ENTRIES[((i / 2) % 8) as usize];
            let big = 40_000_000 + (i as u32 / 16) * 3_000_000;
            let (order, n_c2t, n_t2c) = if i % 2 == 0 { (Order::TargetStalls, big, 70_000) } else { (Order::ClientStalls, 70_000, big) };
            TcpCase { conns: vec![Conn { entry, order, n_c2t, n_t2c, chunk_c: 16_384, chunk_t: 65_536, flush_every: 0, pipeline: false }] }
        },
        check_tcp,
    );
    // counts the random cases do not reach: 20 / 70 / 140 UDP clients open at once (SOCKS5 associations or plain), TCP meanwhile
    ctx.enumerate(
        rep,
        "crowd",
        ctx.tier.pick(4, 6),
        2,
        |i| {
            let n_udp = [70u16, 70, 20, 140, 140, 20][(i % 6) as usize];
            let socks5 = i % 2 == 0;
            let mk = |entry| Conn { entry, order: Order::ClientHalfCloseFirst, n_c2t: 20_000, n_t2c: 9_000, chunk_c: 4096, chunk_t: 4096, flush_every: 0, pipeline: false };
            CrowdCase { n_udp, socks5, tcp: vec![mk(Entry::Socks5V4), mk(Entry::TcpRemote), mk(Entry::HttpConnect), mk(Entry::UnixRemote)] }
        },
        check_crowd,
    );
    // a local UDP client that pauses for longer than the 10 s after which client and server forget an inactive UDP flow,
    // then goes on from the same socket (same association): its later exchanges must work like the first ones
    ctx.enumerate(
        rep,
        "udp-idle-resume",
        ctx.tier.pick(2, 8),
        1,
        |i| {
            let idle_ms = [21_500u32, 12_000, 31_000][((i / 2) % 3) as usize];
            let send_only = i % 2 == 1;
            let listener = 1 + (i % 8) as u8;
            let mk = |socks5: bool, atyp: u8, replies: u8| UdpClient { socks5, atyp, sizes: vec![40, 3, 700, 40], replies, targets: vec![], hold_ms: 0, idle_ms, idle_at: 2, idle_send_only: send_only, listener, via_v6: false };
            // exactly ONE user of the plain UDP remote (per-listener state about 'the previous sender' stays on it), or two that alternate
            let mut clients = vec![mk(false, 0, 1), mk(true, 0, 2), mk(true, 1, 1), mk(true, 2, 1)];
            if (i / 2) % 2 == 1 {
                clients.push(mk(false, 0, 3)); // a second user of the same listener: the two alternate
            }
            UdpCase { clients }
        },
        check_udp,
    );
    ctx.prop(
        rep,
        "udp",
        ctx.tier.pick(480, 10_000),
        20,
        || {
            let client = (any::<bool>(), 0u8..3, prop::collection::vec(prop::sample::select(vec![0u32, 1, 2, 3, 4, 7, 512, 1400, 8000, 60_000]), 1..5), 0u8..4, prop::collection::vec(0u8..2, 0..4), prop::bool::weighted(0.3)).prop_map(|(socks5, atyp, sizes, replies, targets, via_v6)| UdpClient { socks5, atyp, sizes, replies, targets, hold_ms: 0, idle_ms: 0, idle_at: 0, idle_send_only: false, listener: 0, via_v6 });
            prop::collection::vec(client, 1..=6).prop_map(|clients| UdpCase { clients })
        },
        check_udp,
    );
}
