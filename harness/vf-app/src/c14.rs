//! C14 – the server opens a tunnel only for fully valid, authenticated upgrade requests.
use bytes::Bytes;
use http::{HeaderName, HeaderValue, Method, Request};
use http_body_util::{BodyExt, Empty, Full};
use hyper::service::Service;
use proptest::prelude::*;
use rusty_penguin_lib::arg::BackendUrl;
use rusty_penguin_lib::server::State;
use serde::{Deserialize, Serialize};
use std::str::FromStr;
use std::sync::OnceLock;
use vf_common::{Ctx, Outcome, Report};

pub const PSK: &str = "s3cr3t-PSK value";
/// a pre-shared key with octets >= 0x80 (legal in a header value, opaque to the comparison)
pub const PSK_NON_ASCII: &str = "cl\u{e9}-\u{5bc6}\u{94a5}-\u{fc} key";

pub fn psk_of(cfg: Cfg) -> &'static str {
    if cfg.psk == 2 { PSK_NON_ASCII } else { PSK }
}
pub const NOT_FOUND_BODY: &str = "custom 404 body";
pub const KEY: &str = "dGhlIHNhbXBsZSBub25jZQ==";

pub const METHODS: [&str; 5] = ["GET", "POST", "HEAD", "PUT", "OPTIONS"];
pub const PATHS: [&str; 9] = ["/ws", "/ws?x=1", "/ws/", "/WS", "/wsx", "/", "/health", "/version", "/x"];

/// header index: 0 Connection, 1 Upgrade, 2 Sec-WebSocket-Version, 3 Sec-WebSocket-Protocol, 4 Sec-WebSocket-Key, 5 X-Penguin-PSK
pub const HNAMES: [&str; 6] = ["connection", "upgrade", "sec-websocket-version", "sec-websocket-protocol", "sec-websocket-key", "x-penguin-psk"];
pub const HVALID: [&str; 6] = ["upgrade", "websocket", "13", "penguin-v7", KEY, PSK];

#[derive(Clone, Copy, Debug, Hash, PartialEq, Eq, Serialize, Deserialize)]
pub enum HV {
    Absent,
    Exact,
    CaseChanged,
    Prefix,
    Suffix,
    Padded,
    TokenList,
    Empty,
    DupValidValid,
    DupValidInvalid,
    DupInvalidValid,
    Other,
    /// the valid value with one letter replaced by a non-ASCII character that Unicode case folding maps onto it
    /// (KELVIN SIGN U+212A for k/K, LATIN SMALL LETTER LONG S U+017F for s/S): equal only under a Unicode-aware comparison
    UnicodeFold,
    /// another well-formed member of the same family of values: the previous protocol revision / WebSocket version, another
    /// upgrade token, another connection option, another (valid) key, another pre-shared key of the same length
    SiblingOlder,
    /// ... and the next one (penguin-v8, version 14, ...), in changed letter case where letters exist
    SiblingNewer,
}
pub const HVS: [HV; 15] = [HV::Exact, HV::Absent, HV::CaseChanged, HV::Prefix, HV::Suffix, HV::Padded, HV::TokenList, HV::Empty, HV::DupValidValid, HV::DupValidInvalid, HV::DupInvalidValid, HV::Other, HV::UnicodeFold, HV::SiblingOlder, HV::SiblingNewer];

fn case_changed(s: &str) -> String {
    s.chars().enumerate().map(|(i, c)| if i % 2 == 0 { c.to_ascii_uppercase() } else { c.to_ascii_lowercase() }).collect()
}

/// values sent for header `h` under variant `v`
pub fn values(h: usize, v: HV, cfg: Cfg) -> Vec<String> {
    let valid = if h == 5 { psk_of(cfg) } else { HVALID[h] };
    let ok = valid.to_string();
    let bad = format!("{valid}x");
    match v {
        HV::Absent => vec![],
        HV::Exact => vec![ok],
        HV::CaseChanged => vec![case_changed(&ok)],
        HV::Prefix => vec![ok[..ok.len() - 1].to_string()],
        HV::Suffix => vec![bad],
        HV::Padded => vec![format!("{ok} ,")],
        HV::TokenList => vec![format!("keep-alive, {ok}")],
        HV::Empty => vec![String::new()],
        HV::DupValidValid => vec![ok.clone(), ok],
        HV::DupValidInvalid => vec![ok, bad],
        HV::DupInvalidValid => vec![bad, ok],
        HV::Other => vec!["something-else".to_string()],
        HV::SiblingOlder | HV::SiblingNewer => {
            let older = v == HV::SiblingOlder;
            vec![match h {
                0 => if older { "keep-alive" } else { "Close" }.to_string(),
                1 => if older { "h2c" } else { "WebSocket/13" }.to_string(),
                2 => if older { "8" } else { "14" }.to_string(),
                3 => if older { "penguin-v6" } else { "Penguin-V8" }.to_string(),
                4 => if older { "AQIDBAUGBwgJCgsMDQ4PEA==" } else { "x3JJHMbDL1EzLkh9GBhXDw==" }.to_string(),
                _ => {
                    // same length, last octet differs
                    let mut b = ok.clone().into_bytes();
                    let l = b.len() - 1;
                    b[l] = if older { b[l].wrapping_sub(1) } else { b[l].wrapping_add(1) };
                    match String::from_utf8(b) {
                        Ok(s) => s,
                        Err(_) => format!("{ok}."),
                    }
                }
            }]
        }
        HV::UnicodeFold => {
            let folded = if let Some(i) = ok.find(['k', 'K']) {
                format!("{}\u{212A}{}", &ok[..i], &ok[i + 1..])
            } else if let Some(i) = ok.find(['s', 'S']) {
                format!("{}\u{17F}{}", &ok[..i], &ok[i + 1..])
            } else {
                ok // no letter with a non-ASCII case partner: the value itself
            };
            vec![folded]
        }
    }
}

#[derive(Clone, Copy, Debug, Hash, PartialEq, Eq, Serialize, Deserialize)]
pub struct Cfg {
    /// 0 = no pre-shared key configured, 1 = an ASCII key, 2 = a key with octets >= 0x80
    pub psk: u8,
    pub obfs: bool,
    pub backend: bool,
}

#[derive(Clone, Debug, Hash, PartialEq, Eq, Serialize, Deserialize)]
pub struct ReqCase {
    pub cfg: Cfg,
    pub method: u8,
    pub path: u8,
    pub headers: [HV; 6],
    /// extra irrelevant header
    pub extra: bool,
    /// the HTTP layer offers no upgrade for this request (no OnUpgrade extension: what hyper does for HTTP/1.0 and HTTP/2
    /// requests): a 101 cannot be served, the request must be treated like any other
    #[serde(default)]
    pub no_upgrade: bool,
}

#[derive(Clone, Copy, Debug, PartialEq, Eq)]
pub enum Want {
    Upgrade,
    Fallback,
    Either,
}

/// is one value of header h acceptable by the statement?
fn value_ok(h: usize, val: &str, cfg: Cfg) -> bool {
    match h {
        0..=3 => val.eq_ignore_ascii_case(HVALID[h]),
        4 => true, // any key that is present
        5 => cfg.psk == 0 || val == psk_of(cfg),
        _ => unreachable!(),
    }
}

/// reference predicate written from the property statement
pub fn should_upgrade(c: &ReqCase) -> Want {
    if METHODS[c.method as usize] != "GET" || !(PATHS[c.path as usize] == "/ws" || PATHS[c.path as usize] == "/ws?x=1") {
        return Want::Fallback;
    }
    let mut either = false;
    for h in 0..6 {
        let vals = values(h, c.headers[h], c.cfg);
        if h == 5 && c.cfg.psk == 0 {
            continue; // ignored when no PSK is configured
        }
        if vals.is_empty() {
            return Want::Fallback;
        }
        let oks: Vec<bool> = vals.iter().map(|v| value_ok(h, v, c.cfg)).collect();
        if oks.iter().all(|x| !*x) {
            return Want::Fallback;
        }
        if !oks.iter().all(|x| *x) {
            either = true; // duplicated header with mixed validity
        }
    }
    if either { Want::Either } else { Want::Upgrade }
}

pub fn build_request(c: &ReqCase, path_override: Option<&str>) -> Request<Empty<Bytes>> {
    let path = path_override.unwrap_or(PATHS[c.path as usize]);
    let mut b = Request::builder().method(Method::from_str(METHODS[c.method as usize]).unwrap()).uri(format!("http://localhost{path}"));
    b = b.header("host", "localhost");
    if c.extra {
        b = b.header("x-unrelated", "1");
    }
    for h in 0..6 {
        for v in values(h, c.headers[h], c.cfg) {
            b = b.header(HeaderName::from_static(HNAMES[h]), HeaderValue::from_bytes(v.as_bytes()).unwrap());
        }
    }
    let mut req = b.body(Empty::<Bytes>::new()).unwrap();
    // the gate is only reachable with an OnUpgrade extension (as hyper's server connection provides for HTTP/1.1)
    if !c.no_upgrade {
        let mut dummy = Request::new(());
        let on_upgrade = hyper::upgrade::on(&mut dummy);
        req.extensions_mut().insert(on_upgrade);
    }
    req
}

#[derive(Debug, PartialEq, Eq)]
pub struct Resp {
    pub status: u16,
    pub headers: Vec<(String, Vec<u8>)>,
    pub body: Vec<u8>,
}

pub async fn call(state: &State, req: Request<Empty<Bytes>>) -> Result<Resp, String> {
    let resp = Service::call(state, req).await.map_err(|e| format!("service error: {e}"))?;
    let (parts, body) = resp.into_parts();
    let body = body.collect().await.map_err(|e| format!("body error: {e}"))?.to_bytes().to_vec();
    let mut headers: Vec<(String, Vec<u8>)> = parts.headers.iter().map(|(k, v)| (k.as_str().to_string(), v.as_bytes().to_vec())).collect();
    headers.sort();
    Ok(Resp { status: parts.status.as_u16(), headers, body })
}

// ------------------------------------------------------------------ fixtures

pub struct Fixture {
    pub rt: tokio::runtime::Runtime,
    /// indexed by (psk, obfs, backend)
    pub states: Vec<(Cfg, State)>,
}

static FIXTURE: OnceLock<Fixture> = OnceLock::new();

async fn backend_server() -> std::net::SocketAddr {
    use hyper::server::conn::http1;
    use hyper_util::rt::TokioIo;
    let listener = tokio::net::TcpListener::bind("127.0.0.1:0").await.expect("bind backend");
    let addr = listener.local_addr().unwrap();
    tokio::spawn(async move {
        loop {
            let Ok((stream, _)) = listener.accept().await else { continue };
            tokio::spawn(async move {
                let svc = hyper::service::service_fn(|req: Request<hyper::body::Incoming>| async move {
                    // deterministic echo of method and headers (not of the path)
                    let mut hs: Vec<String> = req.headers().iter().map(|(k, v)| format!("{}={}", k.as_str(), String::from_utf8_lossy(v.as_bytes()))).collect();
                    hs.sort();
                    let body = format!("BACKEND {} {}", req.method(), hs.join("|"));
                    Ok::<_, std::convert::Infallible>(http::Response::builder().status(203).header("x-backend", "yes").body(Full::new(Bytes::from(body))).unwrap())
                });
                let mut b = http1::Builder::new();
                b.auto_date_header(false);
                let _ = b.serve_connection(TokioIo::new(stream), svc).await;
            });
        }
    });
    addr
}

pub fn fixture() -> &'static Fixture {
    FIXTURE.get_or_init(|| {
        rusty_penguin_lib::tls::init_crypto_provider();
        let rt = tokio::runtime::Builder::new_multi_thread().worker_threads(4).enable_all().build().expect("runtime");
        let states = rt.block_on(async {
            let addr = backend_server().await;
            let backend: &'static BackendUrl = Box::leak(Box::new(BackendUrl::from_str(&format!("http://{addr}/")).expect("backend url")));
            let psk1: &'static HeaderValue = Box::leak(Box::new(HeaderValue::from_static(PSK)));
            let psk2: &'static HeaderValue = Box::leak(Box::new(HeaderValue::from_bytes(PSK_NON_ASCII.as_bytes()).expect("non-ASCII header value")));
            let base = State::new().await.expect("State::new");
            let mut v = vec![];
            for p in [0u8, 1, 2] {
                for o in [false, true] {
                    for b in [false, true] {
                        let mut s = base.clone().with_ws_psk(match p { 0 => None, 1 => Some(psk1), _ => Some(psk2) }).obfs(o).with_not_found_resp(NOT_FOUND_BODY).with_backend(if b { Some(backend) } else { None });
                        if !b {
                            s = s.with_backend_http2_support(false);
                        }
                        v.push((Cfg { psk: p, obfs: o, backend: b }, s));
                    }
                }
            }
            v
        });
        Fixture { rt, states }
    })
}

pub fn check(c: &ReqCase) -> Outcome {
    let fx = fixture();
    let state = &fx.states.iter().find(|s| s.0 == c.cfg).expect("cfg").1;
    let mut want = should_upgrade(c);
    if c.no_upgrade && want == Want::Upgrade {
        // the statement does not mention the HTTP version; without an upgrade offered by the HTTP layer the only well-formed
        // outcomes are a (futile) 101 or the unknown-path response
        want = Want::Either;
    }
    let (got, fallback) = fx.rt.block_on(async {
        let got = call(state, build_request(c, None)).await;
        let fb = call(state, build_request(c, Some("/no-such-path-zz"))).await;
        (got, fb)
    });
    let got = match got {
        Ok(g) => g,
        Err(e) => return Outcome::violation("c14-service-error", e),
    };
    let fallback = match fallback {
        Ok(g) => g,
        Err(e) => return Outcome::violation("c14-service-error", format!("fallback request: {e}")),
    };
    let desc = || {
        format!(
            "{} {} [{}] psk={} obfs={} backend={}{}",
            METHODS[c.method as usize],
            PATHS[c.path as usize],
            (0..6).map(|h| format!("{}:{:?}", HNAMES[h], c.headers[h])).collect::<Vec<_>>().join(" "),
            c.cfg.psk,
            c.cfg.obfs,
            c.cfg.backend,
            if c.no_upgrade { " (no upgrade offered by the HTTP layer)" } else { "" }
        )
    };
    let is_upgrade = got.status == 101;
    let path = PATHS[c.path as usize];
    // /health and /version: distinguishable only when obfuscation is off
    if (path == "/health" || path == "/version") && !c.cfg.obfs {
        let want_body: &[u8] = if path == "/health" { b"OK" } else { b"" };
        if got.status != 200 || (path == "/health" && got.body != want_body) {
            return Outcome::violation("c14-health-version", format!("{}: status {} body {:?}", desc(), got.status, String::from_utf8_lossy(&got.body)));
        }
        return Outcome::pass(false, vec!["health-version-plain"]);
    }
    let check_101 = |r: &Resp| -> Result<(), String> {
        let get = |n: &str| r.headers.iter().find(|h| h.0 == n).map(|h| String::from_utf8_lossy(&h.1).to_string());
        let key = values(4, c.headers[4], c.cfg).first().cloned().unwrap_or_default();
        let accept = vf_ref::ws::accept_hash(key.as_bytes());
        if !get("connection").is_some_and(|v| v.eq_ignore_ascii_case("upgrade")) || !get("upgrade").is_some_and(|v| v.eq_ignore_ascii_case("websocket")) {
            return Err(format!("101 without connection/upgrade headers: {:?}", r.headers));
        }
        if get("sec-websocket-protocol").as_deref() != Some("penguin-v7") {
            return Err(format!("101 does not carry the accepted protocol: {:?}", get("sec-websocket-protocol")));
        }
        if get("sec-websocket-accept").as_deref() != Some(accept.as_str()) {
            return Err(format!("sec-websocket-accept {:?} != RFC 6455 hash {accept} of key {key:?}", get("sec-websocket-accept")));
        }
        Ok(())
    };
    match want {
        Want::Upgrade => {
            if !is_upgrade {
                return Outcome::violation("c14-valid-upgrade-refused", format!("{}: a fully valid upgrade request got status {} instead of 101", desc(), got.status));
            }
            if let Err(e) = check_101(&got) {
                return Outcome::violation("c14-bad-101", format!("{}: {e}", desc()));
            }
        }
        Want::Fallback => {
            if is_upgrade {
                return Outcome::violation("c14-invalid-upgraded", format!("{}: the server answered 101 although the request is not a valid authenticated upgrade", desc()));
            }
            if got != fallback {
                return Outcome::violation(
                    "c14-distinguishable",
                    format!("{}: response differs from the one for an unknown path: got status {} headers {:?} body {:?}; unknown path gives status {} headers {:?} body {:?}", desc(), got.status, hdrs(&got), String::from_utf8_lossy(&got.body), fallback.status, hdrs(&fallback), String::from_utf8_lossy(&fallback.body)),
                );
            }
        }
        Want::Either => {
            if is_upgrade {
                if let Err(e) = check_101(&got) {
                    return Outcome::violation("c14-bad-101", format!("{}: {e}", desc()));
                }
            } else if got != fallback {
                return Outcome::violation("c14-distinguishable", format!("{}: neither a 101 nor the unknown-path response", desc()));
            }
        }
    }
    // non-trivial: a request to /ws that differs from a valid upgrade in exactly one or two places, or a valid one
    let mut dev = 0;
    if METHODS[c.method as usize] != "GET" {
        dev += 1;
    }
    if path != "/ws" {
        dev += 1;
    }
    for h in 0..6 {
        if c.headers[h] != HV::Exact && !(h == 5 && c.cfg.psk == 0 && c.headers[h] == HV::Absent) {
            dev += 1;
        }
    }
    let cl = vec![match want { Want::Upgrade => "valid-upgrade", Want::Fallback => "must-fall-back", Want::Either => "mixed-duplicate" }, if c.cfg.backend { "backend" } else { "static-404" }];
    Outcome::pass(path.starts_with("/ws") && dev <= 2, cl)
}

fn hdrs(r: &Resp) -> Vec<String> {
    r.headers.iter().map(|h| format!("{}: {}", h.0, String::from_utf8_lossy(&h.1))).collect()
}

fn cfgs() -> Vec<Cfg> {
    let mut v = vec![];
    for psk in [0u8, 1, 2] {
        for obfs in [false, true] {
            for backend in [false, true] {
                v.push(Cfg { psk, obfs, backend });
            }
        }
    }
    v
}

/// all single deviations ("places"): (kind, index, alt)
fn places() -> Vec<(u8, u8, u8)> {
    let mut v = vec![];
    for m in 1..METHODS.len() {
        v.push((0u8, 0u8, m as u8));
    }
    for p in 1..PATHS.len() {
        v.push((1, 0, p as u8));
    }
    for h in 0..6 {
        for (k, _) in HVS.iter().enumerate().skip(1) {
            v.push((2, h as u8, k as u8));
        }
    }
    v
}

fn apply(c: &mut ReqCase, p: (u8, u8, u8)) {
    match p.0 {
        0 => c.method = p.2,
        1 => c.path = p.2,
        _ => c.headers[p.1 as usize] = HVS[p.2 as usize],
    }
}

// ------------------------------------------------------------------ over a real socket (run_listener)

/// The gate behind a real listening socket, as deployed: `run_listener` + hyper's HTTP/1.1 connection handling + the recovery of
/// the raw socket after the 101. A valid upgrade must give a tunnel that WORKS (a logical stream to an echo target carries
/// bytes both ways); a rejected one must be answered byte for byte like the same request on an unknown path.
#[derive(Clone, Debug, Hash, PartialEq, Eq, Serialize, Deserialize)]
pub struct LoopCase {
    /// HTTP/TLS timeout of the server: 0 = disabled (the library default), 1 = 60 s (the command-line default), 2 = 2 s
    pub timeout: u8,
    pub psk: bool,
    pub obfs: bool,
    /// 0 valid; 1 wrong PSK (or, without a configured PSK, an unneeded one: still valid); 2 no key; 3 another protocol revision;
    /// 4 POST; 5 Upgrade: h2c
    pub req: u8,
}

async fn echo_target() -> u16 {
    let l = tokio::net::TcpListener::bind("127.0.0.1:0").await.expect("bind");
    let port = l.local_addr().unwrap().port();
    tokio::spawn(async move {
        loop {
            let Ok((mut s, _)) = l.accept().await else { continue };
            tokio::spawn(async move {
                let (mut r, mut w) = s.split();
                let _ = tokio::io::copy(&mut r, &mut w).await;
            });
        }
    });
    port
}

/// one raw HTTP/1.1 exchange: (status line, sorted headers without date, body)
async fn raw_exchange(port: u16, request: &[u8]) -> Result<(String, Vec<String>, Vec<u8>), String> {
    use tokio::io::{AsyncReadExt, AsyncWriteExt};
    let mut s = tokio::net::TcpStream::connect(("127.0.0.1", port)).await.map_err(|e| e.to_string())?;
    s.write_all(request).await.map_err(|e| e.to_string())?;
    let mut buf = vec![];
    let mut tmp = [0u8; 4096];
    let head_end = loop {
        if let Some(p) = buf.windows(4).position(|w| w == b"\r\n\r\n") {
            break p;
        }
        let n = tokio::time::timeout(std::time::Duration::from_secs(10), s.read(&mut tmp)).await.map_err(|_| "no response within 10 s".to_string())?.map_err(|e| e.to_string())?;
        if n == 0 {
            return Err(format!("connection closed after {} bytes of response", buf.len()));
        }
        buf.extend_from_slice(&tmp[..n]);
    };
    let head = String::from_utf8_lossy(&buf[..head_end]).to_string();
    let mut lines = head.split("\r\n");
    let status = lines.next().unwrap_or("").to_string();
    let mut headers: Vec<String> = lines.map(|l| l.to_string()).filter(|l| !l.to_ascii_lowercase().starts_with("date:")).collect();
    headers.sort();
    let clen = headers.iter().find_map(|h| h.to_ascii_lowercase().strip_prefix("content-length:").map(|v| v.trim().parse::<usize>().unwrap_or(0))).unwrap_or(0);
    let mut body = buf[head_end + 4..].to_vec();
    while body.len() < clen {
        let n = tokio::time::timeout(std::time::Duration::from_secs(10), s.read(&mut tmp)).await.map_err(|_| "body incomplete after 10 s".to_string())?.map_err(|e| e.to_string())?;
        if n == 0 {
            break;
        }
        body.extend_from_slice(&tmp[..n]);
    }
    Ok((status, headers, body))
}

pub fn check_loopback(c: &LoopCase) -> Outcome {
    use penguin_mux::timing::OptionalDuration;
    use tokio::io::{AsyncReadExt, AsyncWriteExt};
    let fx = fixture();
    let valid = match c.req {
        0 => true,
        1 => !c.psk,
        _ => false,
    };
    let r: Result<(), (String, String)> = fx.rt.block_on(async {
        let psk: &'static HeaderValue = Box::leak(Box::new(HeaderValue::from_static(PSK)));
        let timeout = match c.timeout {
            0 => OptionalDuration::NONE,
            1 => OptionalDuration::from_secs(60),
            _ => OptionalDuration::from_secs(2),
        };
        let state = State::new().await.map_err(|e| ("c14-harness".to_string(), e.to_string()))?.with_ws_psk(if c.psk { Some(psk) } else { None }).obfs(c.obfs).with_not_found_resp(NOT_FOUND_BODY).with_backend(None).with_backend_http2_support(false).with_http_timeout(timeout).with_tls_timeout(timeout);
        let listener = tokio::net::TcpListener::bind("127.0.0.1:0").await.map_err(|e| ("c14-harness".to_string(), e.to_string()))?;
        let port = listener.local_addr().unwrap().port();
        let server = tokio::spawn(rusty_penguin_lib::server::run_listener(listener, None, state));
        let headers = |path: &str| {
            let mut h = format!("{} {path} HTTP/1.1\r\nhost: localhost\r\nconnection: upgrade\r\nupgrade: {}\r\nsec-websocket-version: 13\r\nsec-websocket-protocol: {}\r\n", if c.req == 4 { "POST" } else { "GET" }, if c.req == 5 { "h2c" } else { "websocket" }, if c.req == 3 { "penguin-v6" } else { "penguin-v7" });
            if c.req != 2 {
                h.push_str(&format!("sec-websocket-key: {KEY}\r\n"));
            }
            if c.psk || c.req == 1 {
                h.push_str(&format!("x-penguin-psk: {}\r\n", if c.req == 1 { "not the key" } else { PSK }));
            }
            if c.req == 4 {
                h.push_str("content-length: 0\r\n");
            }
            h.push_str("\r\n");
            h
        };
        let res = async {
            if valid {
                // a real WebSocket client on a real socket, then a real multiplexor on top: the tunnel has to carry a stream
                let tcp = tokio::net::TcpStream::connect(("127.0.0.1", port)).await.map_err(|e| ("c14-harness".to_string(), e.to_string()))?;
                let mut req = tokio_tungstenite::tungstenite::client::IntoClientRequest::into_client_request(format!("ws://127.0.0.1:{port}/ws")).map_err(|e| ("c14-harness".to_string(), e.to_string()))?;
                req.headers_mut().insert("sec-websocket-protocol", HeaderValue::from_static("penguin-v7"));
                if c.psk {
                    req.headers_mut().insert("x-penguin-psk", HeaderValue::from_static(PSK));
                } else if c.req == 1 {
                    req.headers_mut().insert("x-penguin-psk", HeaderValue::from_static("not the key"));
                }
                let (ws, resp) = tokio_tungstenite::client_async(req, tcp).await.map_err(|e| ("c14-loopback:valid-rejected".to_string(), format!("a valid upgrade over a real socket was not answered with a proper 101: {e}")))?;
                if resp.headers().get("sec-websocket-protocol").map(|v| v.as_bytes()) != Some(b"penguin-v7") {
                    return Err(("c14-loopback:101-without-protocol".to_string(), format!("101 headers: {:?}", resp.headers())));
                }
                let target = echo_target().await;
                let mux = penguin_mux::Multiplexor::new(ws);
                let work = async {
                    let mut st = mux.new_stream_channel(b"127.0.0.1", target).await.map_err(|e| format!("stream request failed: {e}"))?;
                    st.write_all(b"tunnel?").await.map_err(|e| format!("write failed: {e}"))?;
                    let mut back = [0u8; 7];
                    st.read_exact(&mut back).await.map_err(|e| format!("read failed: {e}"))?;
                    if &back != b"tunnel?" {
                        return Err(format!("echo corrupted: {back:?}"));
                    }
                    Ok::<(), String>(())
                };
                match tokio::time::timeout(std::time::Duration::from_secs(10), work).await {
                    Ok(Ok(())) => Ok(()),
                    Ok(Err(e)) => Err(("c14-loopback:101-but-no-tunnel".to_string(), format!("the server answered 101 to a valid upgrade but the tunnel does not work: {e}"))),
                    Err(_) => Err(("c14-loopback:101-but-no-tunnel".to_string(), "the server answered 101 to a valid upgrade but a stream through the tunnel got no echo within 10 s".to_string())),
                }
            } else {
                let a = raw_exchange(port, headers("/ws").as_bytes()).await.map_err(|e| ("c14-loopback:no-response".to_string(), format!("rejected /ws request: {e}")))?;
                let b = raw_exchange(port, headers("/nothing-here").as_bytes()).await.map_err(|e| ("c14-loopback:no-response".to_string(), format!("unknown path: {e}")))?;
                if a != b {
                    return Err(("c14-distinguishable:loopback".to_string(), format!("over a real socket the rejected /ws request got {a:?}, the same request on an unknown path {b:?}")));
                }
                if a.0.contains(" 101") {
                    return Err(("c14-invalid-upgraded:loopback".to_string(), format!("an invalid request was answered {}", a.0)));
                }
                Ok(())
            }
        }
        .await;
        server.abort();
        res
    });
    match r {
        Err((sig, msg)) if sig == "c14-harness" => Outcome::inconclusive(msg),
        Err((sig, msg)) => Outcome::violation(sig, format!("{c:?}: {msg}")),
        Ok(()) => Outcome::pass(true, vec![if valid { "loopback-valid-upgrade-tunnel-works" } else { "loopback-rejected-equals-unknown-path" }]),
    }
}

/// Several requests on ONE HTTP/1.1 keep-alive connection to the real listener: one to three requests that must be refused (or that
/// address other paths), each answered exactly as on a connection of its own, and then a fully valid upgrade on the same connection,
/// which must get its 101 (accept hash, protocol) and a tunnel that carries a stream. The gate judges a request, not the
/// connection's history (reverse proxies reuse upstream connections).
#[derive(Clone, Debug, Hash, PartialEq, Eq, Serialize, Deserialize)]
pub struct SeqCase {
    pub timeout: u8,
    pub psk: bool,
    pub obfs: bool,
    /// earlier requests on the connection: 1 wrong PSK, 2 no key, 3 another protocol revision, 4 POST, 5 Upgrade: h2c, 6 no PSK header
    /// at all, 7 GET /health, 8 GET /nothing-here (plain request without upgrade headers), 9 the valid upgrade headers on /wsx
    pub earlier: Vec<u8>,
}

/// read one response (head + content-length body) from an open connection
async fn read_response(s: &mut tokio::net::TcpStream) -> Result<(String, Vec<String>, Vec<u8>), String> {
    use tokio::io::AsyncReadExt;
    let mut head = vec![];
    let mut b = [0u8; 1];
    while !head.ends_with(b"\r\n\r\n") {
        let n = tokio::time::timeout(std::time::Duration::from_secs(10), s.read(&mut b)).await.map_err(|_| "no response within 10 s".to_string())?.map_err(|e| e.to_string())?;
        if n == 0 {
            return Err(format!("connection closed after {} bytes of response", head.len()));
        }
        head.push(b[0]);
        if head.len() > 65536 {
            return Err("response head too long".into());
        }
    }
    let text = String::from_utf8_lossy(&head[..head.len() - 4]).to_string();
    let mut lines = text.split("\r\n");
    let status = lines.next().unwrap_or("").to_string();
    let mut headers: Vec<String> = lines.map(|l| l.to_string()).filter(|l| !l.to_ascii_lowercase().starts_with("date:")).collect();
    headers.sort();
    let clen = headers.iter().find_map(|h| h.to_ascii_lowercase().strip_prefix("content-length:").map(|v| v.trim().parse::<usize>().unwrap_or(0))).unwrap_or(0);
    let mut body = vec![0u8; clen];
    if clen > 0 {
        tokio::time::timeout(std::time::Duration::from_secs(10), s.read_exact(&mut body)).await.map_err(|_| "body incomplete after 10 s".to_string())?.map_err(|e| e.to_string())?;
    }
    Ok((status, headers, body))
}

pub fn check_keepalive_sequence(c: &SeqCase) -> Outcome {
    use penguin_mux::timing::OptionalDuration;
    use tokio::io::{AsyncReadExt, AsyncWriteExt};
    let fx = fixture();
    let r: Result<(), (String, String)> = fx.rt.block_on(async {
        let h = |e: String| ("c14-harness".to_string(), e);
        let psk: &'static HeaderValue = Box::leak(Box::new(HeaderValue::from_static(PSK)));
        let timeout = match c.timeout {
            0 => OptionalDuration::NONE,
            1 => OptionalDuration::from_secs(60),
            _ => OptionalDuration::from_secs(2),
        };
        let state = State::new().await.map_err(|e| h(e.to_string()))?.with_ws_psk(if c.psk { Some(psk) } else { None }).obfs(c.obfs).with_not_found_resp(NOT_FOUND_BODY).with_backend(None).with_backend_http2_support(false).with_http_timeout(timeout).with_tls_timeout(timeout);
        let listener = tokio::net::TcpListener::bind("127.0.0.1:0").await.map_err(|e| h(e.to_string()))?;
        let port = listener.local_addr().unwrap().port();
        let server = tokio::spawn(rusty_penguin_lib::server::run_listener(listener, None, state));
        let request = |kind: u8| -> String {
            let path = match kind {
                7 => "/health",
                8 => "/nothing-here",
                9 => "/wsx",
                _ => "/ws",
            };
            if kind == 7 || kind == 8 {
                return format!("GET {path} HTTP/1.1\r\nhost: localhost\r\n\r\n");
            }
            let mut t = format!("{} {path} HTTP/1.1\r\nhost: localhost\r\nconnection: upgrade\r\nupgrade: {}\r\nsec-websocket-version: 13\r\nsec-websocket-protocol: {}\r\n", if kind == 4 { "POST" } else { "GET" }, if kind == 5 { "h2c" } else { "websocket" }, if kind == 3 { "penguin-v6" } else { "penguin-v7" });
            if kind != 2 {
                t.push_str(&format!("sec-websocket-key: {KEY}\r\n"));
            }
            if kind == 1 {
                t.push_str("x-penguin-psk: not the key\r\n");
            } else if c.psk && kind != 6 {
                t.push_str(&format!("x-penguin-psk: {PSK}\r\n"));
            }
            if kind == 4 {
                t.push_str("content-length: 0\r\n");
            }
            t.push_str("\r\n");
            t
        };
        let res = async {
            let mut s = tokio::net::TcpStream::connect(("127.0.0.1", port)).await.map_err(|e| h(e.to_string()))?;
            for (n, kind) in c.earlier.iter().copied().enumerate() {
                // without a configured PSK the kinds 1 and 6 are valid upgrades: they would end the HTTP phase of this connection
                let kind = if !c.psk && (kind == 1 || kind == 6) { 2 } else { kind };
                let req = request(kind);
                s.write_all(req.as_bytes()).await.map_err(|e| ("c14-keepalive:connection-lost".to_string(), format!("request {n} (kind {kind}) could not be written on the kept-alive connection: {e}")))?;
                let got = read_response(&mut s).await.map_err(|e| ("c14-keepalive:connection-lost".to_string(), format!("request {n} (kind {kind}) on the kept-alive connection: {e}")))?;
                let fresh = raw_exchange(port, req.as_bytes()).await.map_err(|e| ("c14-loopback:no-response".to_string(), format!("request kind {kind} on a connection of its own: {e}")))?;
                if got != fresh {
                    return Err(("c14-keepalive:answer-depends-on-history".to_string(), format!("request {n} (kind {kind}) was answered {got:?} as the {}th request of a connection but {fresh:?} on a connection of its own", n + 1)));
                }
                if got.0.contains(" 101") {
                    return Err(("c14-invalid-upgraded:loopback".to_string(), format!("request kind {kind} was answered {}", got.0)));
                }
            }
            // now the valid upgrade, on the same connection
            s.write_all(request(0).as_bytes()).await.map_err(|e| ("c14-keepalive:connection-lost".to_string(), format!("the valid upgrade could not be written after {:?}: {e}", c.earlier)))?;
            let got = read_response(&mut s).await.map_err(|e| ("c14-keepalive:valid-rejected".to_string(), format!("valid upgrade after {:?} on the same connection: {e}", c.earlier)))?;
            if !got.0.contains(" 101") {
                return Err(("c14-keepalive:valid-rejected".to_string(), format!("a fully valid upgrade request was answered {:?} because of the earlier requests {:?} on the same connection", got.0, c.earlier)));
            }
            let want_accept = format!("sec-websocket-accept: {}", vf_ref::ws::accept_hash(KEY.as_bytes()));
            if !got.1.iter().any(|l| l.to_ascii_lowercase() == want_accept.to_ascii_lowercase() && l.ends_with(&vf_ref::ws::accept_hash(KEY.as_bytes()))) {
                return Err(("c14-101-accept-hash".to_string(), format!("101 without the RFC 6455 accept hash of the key: {:?}", got.1)));
            }
            if !got.1.iter().any(|l| l.to_ascii_lowercase() == "sec-websocket-protocol: penguin-v7") {
                return Err(("c14-loopback:101-without-protocol".to_string(), format!("101 headers: {:?}", got.1)));
            }
            let ws = tokio_tungstenite::WebSocketStream::from_raw_socket(s, tokio_tungstenite::tungstenite::protocol::Role::Client, None).await;
            let target = echo_target().await;
            let mux = penguin_mux::Multiplexor::new(ws);
            let work = async {
                let mut st = mux.new_stream_channel(b"127.0.0.1", target).await.map_err(|e| format!("stream request failed: {e}"))?;
                st.write_all(b"tunnel?").await.map_err(|e| format!("write failed: {e}"))?;
                let mut back = [0u8; 7];
                st.read_exact(&mut back).await.map_err(|e| format!("read failed: {e}"))?;
                if &back != b"tunnel?" {
                    return Err(format!("echo corrupted: {back:?}"));
                }
                Ok::<(), String>(())
            };
            match tokio::time::timeout(std::time::Duration::from_secs(10), work).await {
                Ok(Ok(())) => Ok(()),
                Ok(Err(e)) => Err(("c14-loopback:101-but-no-tunnel".to_string(), format!("101 after {:?} on the same connection but the tunnel does not work: {e}", c.earlier))),
                Err(_) => Err(("c14-loopback:101-but-no-tunnel".to_string(), "101 but a stream through the tunnel got no echo within 10 s".to_string())),
            }
        }
        .await;
        server.abort();
        res
    });
    match r {
        Err((sig, msg)) if sig == "c14-harness" => Outcome::inconclusive(msg),
        Err((sig, msg)) => Outcome::violation(sig, format!("{c:?}: {msg}")),
        Ok(()) => Outcome::pass(true, vec!["keep-alive-sequence-then-valid-upgrade"]),
    }
}

pub fn run(ctx: &Ctx, rep: &mut Report) {
    rep.rule = "requests = method {GET,POST,HEAD,PUT,OPTIONS} x path {/ws,/ws?x=1,/ws/,/WS,/wsx,/,/health,/version,/x} x for each of Connection, Upgrade, Sec-WebSocket-Version, Sec-WebSocket-Protocol, Sec-WebSocket-Key, X-Penguin-PSK a variant in {exact, absent, case-changed, prefix, suffix, padded, token list, empty, duplicate valid+valid / valid+invalid / invalid+valid, other, one letter replaced by its non-ASCII Unicode case partner (U+212A, U+017F)} \
                x server configuration {no PSK, an ASCII PSK, a PSK with octets >= 0x80} x {obfs on/off} x {static 404 body, local deterministic backend}. ALL requests deviating from a valid upgrade in <= 2 places are enumerated under all 12 configurations, random requests beyond; the valid request and every single deviation also without an upgrade offered by the HTTP layer (HTTP/1.0, HTTP/2). \
                Oracle: reference predicate from the statement; 101 must carry the protocol and the RFC 6455 accept hash (own SHA-1/base64); every other response must equal (status, headers, body) the response to the same request on an unknown path; /health and /version equal it when obfs is on. \
                Non-trivial = a request to /ws deviating from a valid upgrade in at most two places (incl. the valid one). Distinct = distinct case value."
        .into();
    rep.assumptions = vec![
        "rusty_penguin_lib::server::State is called in-process as a hyper Service with an OnUpgrade extension (as hyper's connection provides); the tunnel itself is exercised by C01".into(),
        "a duplicated header with mixed validity may be accepted or refused, but the response must be one of the two well-formed outcomes".into(),
        "any present Sec-WebSocket-Key value (also an empty one) counts as 'a key'".into(),
        "backend = local HTTP/1.1 server on loopback echoing method and headers without a Date header".into(),
    ];
    let pl = places();
    let cf = cfgs();
    let valid = |cfg: Cfg| ReqCase { cfg, method: 0, path: 0, headers: [HV::Exact; 6], extra: false, no_upgrade: false };
    let n1 = 1 + pl.len() as u64;
    let two = true; // all requests deviating in <= 2 places, in both tiers
    let n2 = if two { (pl.len() * pl.len()) as u64 } else { 0 };
    let total = (n1 + n2) * cf.len() as u64;
    ctx.enumerate(
        rep,
        "deviations-exhaustive",
        total,
        200,
        |i| {
            let cfg = cf[(i % cf.len() as u64) as usize];
            let k = i / cf.len() as u64;
            let mut c = valid(cfg);
            if k == 0 {
            } else if k < n1 {
                apply(&mut c, pl[(k - 1) as usize]);
            } else {
                let j = k - n1;
                apply(&mut c, pl[(j / pl.len() as u64) as usize]);
                apply(&mut c, pl[(j % pl.len() as u64) as usize]);
            }
            c
        },
        check,
    );
    // the same single deviations (and the valid request) when the HTTP layer offers no upgrade
    let pl2 = places();
    let cf2 = cfgs();
    ctx.enumerate(
        rep,
        "no-upgrade-offered",
        (1 + pl2.len() as u64) * cf2.len() as u64,
        50,
        |i| {
            let cfg = cf2[(i % cf2.len() as u64) as usize];
            let k = i / cf2.len() as u64;
            let mut c = ReqCase { cfg, method: 0, path: 0, headers: [HV::Exact; 6], extra: false, no_upgrade: true };
            if k > 0 {
                apply(&mut c, pl2[(k - 1) as usize]);
            }
            c
        },
        check,
    );
    ctx.prop(
        rep,
        "random",
        ctx.tier.pick(20_000, 800_000),
        200,
        || {
            let hv = || prop::sample::select(HVS.to_vec());
            let hvb = move || prop_oneof![3 => Just(HV::Exact), 1 => Just(HV::CaseChanged), 2 => hv()];
            (0u8..3, any::<bool>(), any::<bool>(), prop_oneof![4 => Just(0u8), 1 => 0u8..5], prop_oneof![5 => Just(0u8), 1 => Just(1u8), 2 => 0u8..9], [hvb(), hvb(), hvb(), hvb(), hvb(), hvb()], (any::<bool>(), prop::bool::weighted(0.15)))
                .prop_map(|(psk, obfs, backend, method, path, headers, (extra, no_upgrade))| ReqCase { cfg: Cfg { psk, obfs, backend }, method, path, headers, extra, no_upgrade })
        },
        check,
    );
    // the same gate behind a real socket (run_listener): all combinations of {timeout disabled / 60 s / 2 s} x {PSK or not} x
    // {obfs or not} x six requests
    ctx.enumerate(
        rep,
        "loopback",
        3 * 2 * 2 * 6,
        20,
        |i| LoopCase { timeout: (i % 3) as u8, psk: (i / 3) % 2 == 1, obfs: (i / 6) % 2 == 1, req: (i / 12) as u8 },
        check_loopback,
    );
    // request sequences on one kept-alive connection: refused requests first, then a valid upgrade
    ctx.prop(
        rep,
        "keep-alive-sequences",
        ctx.tier.pick(48, 1_000),
        8,
        || (0u8..3, any::<bool>(), any::<bool>(), prop::collection::vec(1u8..10, 1..=3)).prop_map(|(timeout, psk, obfs, earlier)| SeqCase { timeout, psk, obfs, earlier }),
        check_keepalive_sequence,
    );
}
