mod c14;
mod c17;

use vf_common::Ctx;

fn main() {
    let ctx = Ctx::from_args(|_| "exploration");
    let mut rep = ctx.report();
    match ctx.property.as_str() {
        "C14" => c14::run(&ctx, &mut rep),
        "C17" => c17::run(&ctx, &mut rep),
        p => {
            eprintln!("vf-app does not serve property {p}");
            std::process::exit(3);
        }
    }
    std::process::exit(ctx.finish(rep));
}
