mod c01;
mod c14;
mod c17;
mod c19;

use vf_common::Ctx;

fn main() {
    let ctx = Ctx::from_args(|_| "exploration");
    let mut rep = ctx.report();
    match ctx.property.as_str() {
        "C01" => c01::run(&ctx, &mut rep),
        "C14" => c14::run(&ctx, &mut rep),
        "C17" => c17::run(&ctx, &mut rep),
        "C19" => c19::run(&ctx, &mut rep),
        p => {
            eprintln!("vf-app does not serve property {p}");
            std::process::exit(3);
        }
    }
    std::process::exit(ctx.finish(rep));
}
