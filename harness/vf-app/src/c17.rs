//! C17 – TLS peers are authenticated exactly as configured (in-process over tokio::io::duplex, rcgen PKIs).
use proptest::prelude::*;
use rcgen::{BasicConstraints, CertificateParams, DnType, IsCa, Issuer, KeyPair};
use rusty_penguin_lib::tls;
use serde::{Deserialize, Serialize};
use std::path::PathBuf;
use std::sync::Arc;
use std::sync::OnceLock;
use tokio::io::{AsyncReadExt, AsyncWriteExt};
use vf_common::{Ctx, Outcome, Report};

#[derive(Clone, Debug, Hash, PartialEq, Eq, Serialize, Deserialize)]
pub struct TlsCase {
    /// 0 = issued by the CA the client trusts, 1 = issued by another CA, 2 = self-signed
    pub issuer: u8,
    /// 0 = requested name is a SAN, 1 = a different name, 2 = a SAN in different letter case
    pub name: u8,
    pub skip_verify: bool,
    /// 0 = none, 1 = issued under the server's client CA, 2 = issued under another CA
    pub client_cert: u8,
    pub server_client_ca: bool,
    /// 0 P-256, 1 P-384, 2 Ed25519
    pub alg: u8,
    pub sans: Vec<String>,
    pub pick: u8,
}

fn rt() -> &'static tokio::runtime::Runtime {
    static RT: OnceLock<tokio::runtime::Runtime> = OnceLock::new();
    RT.get_or_init(|| {
        tls::init_crypto_provider();
        tokio::runtime::Builder::new_multi_thread().worker_threads(8).enable_all().build().expect("rt")
    })
}

fn tmp_root() -> PathBuf {
    let p = PathBuf::from(format!("{}/target/tmp", vf_common::out_root()));
    std::fs::create_dir_all(&p).ok();
    p
}

fn keypair(alg: u8) -> KeyPair {
    match alg {
        0 => KeyPair::generate_for(&rcgen::PKCS_ECDSA_P256_SHA256),
        1 => KeyPair::generate_for(&rcgen::PKCS_ECDSA_P384_SHA384),
        _ => KeyPair::generate_for(&rcgen::PKCS_ED25519),
    }
    .expect("keygen")
}

pub struct Ca {
    pub params: CertificateParams,
    pub key: KeyPair,
    pub pem: String,
}

pub fn make_ca(cn: &str, alg: u8) -> Ca {
    let mut params = CertificateParams::new(Vec::<String>::new()).unwrap();
    params.is_ca = IsCa::Ca(BasicConstraints::Unconstrained);
    params.distinguished_name.push(DnType::CommonName, cn);
    params.key_usages = vec![rcgen::KeyUsagePurpose::KeyCertSign, rcgen::KeyUsagePurpose::DigitalSignature, rcgen::KeyUsagePurpose::CrlSign];
    let key = keypair(alg);
    let pem = params.self_signed(&key).unwrap().pem();
    Ca { params, key, pem }
}

/// (cert pem, key pem, der)
pub fn make_leaf(sans: &[String], cn: &str, ca: Option<&Ca>, alg: u8, client: bool) -> (String, String, Vec<u8>) {
    let mut params = CertificateParams::new(sans.to_vec()).unwrap();
    params.distinguished_name.push(DnType::CommonName, cn);
    params.extended_key_usages = vec![if client { rcgen::ExtendedKeyUsagePurpose::ClientAuth } else { rcgen::ExtendedKeyUsagePurpose::ServerAuth }];
    let key = keypair(alg);
    let cert = match ca {
        Some(ca) => params.signed_by(&key, &Issuer::from_params(&ca.params, &ca.key)).unwrap(),
        None => params.self_signed(&key).unwrap(),
    };
    (cert.pem(), key.serialize_pem(), cert.der().to_vec())
}

pub struct Files {
    pub dir: tempfile::TempDir,
}
impl Files {
    pub fn new() -> Self {
        Files { dir: tempfile::Builder::new().prefix("c17-").tempdir_in(tmp_root()).expect("tempdir") }
    }
    pub fn write(&self, name: &str, content: &str) -> String {
        let p = self.dir.path().join(name);
        std::fs::write(&p, content).expect("write pem");
        p.to_str().unwrap().to_string()
    }
}

#[derive(Debug)]
pub struct HsResult {
    pub client_ok: bool,
    pub server_ok: bool,
    pub client_err: String,
    pub server_err: String,
    pub server_saw_client_cert: bool,
    pub server_leaf_seen_by_client: Option<Vec<u8>>,
}

/// one handshake + one byte echoed each way
pub async fn handshake(server_cfg: Arc<rustls::ServerConfig>, name: &str, cert: Option<&str>, key: Option<&str>, ca: Option<&str>, insecure: bool) -> HsResult {
    let (cio, sio) = tokio::io::duplex(1 << 16);
    let server = tokio::spawn(async move {
        let acc = tokio_rustls::TlsAcceptor::from(server_cfg);
        match acc.accept(sio).await {
            Err(e) => (false, format!("accept: {e}"), false),
            Ok(mut s) => {
                let saw = s.get_ref().1.peer_certificates().is_some_and(|c| !c.is_empty());
                let mut b = [0u8; 1];
                match tokio::time::timeout(std::time::Duration::from_secs(20), s.read_exact(&mut b)).await {
                    Ok(Ok(_)) => {}
                    Ok(Err(e)) => return (false, format!("server read: {e}"), saw),
                    Err(_) => return (false, "server read timed out".into(), saw),
                }
                if s.write_all(&[b[0] ^ 0xff]).await.is_err() || s.flush().await.is_err() {
                    return (false, "server write failed".into(), saw);
                }
                s.shutdown().await.ok();
                (true, String::new(), saw)
            }
        }
    });
    let client = async {
        let mut s = tls::tls_connect(cio, name, cert, key, ca, insecure).await.map_err(|e| format!("connect: {e}"))?;
        let leaf = s.get_ref().1.peer_certificates().and_then(|c| c.first()).map(|c| c.as_ref().to_vec());
        s.write_all(&[0x5a]).await.map_err(|e| format!("client write: {e}"))?;
        s.flush().await.map_err(|e| format!("client flush: {e}"))?;
        let mut b = [0u8; 1];
        tokio::time::timeout(std::time::Duration::from_secs(20), s.read_exact(&mut b)).await.map_err(|_| "client read timed out".to_string())?.map_err(|e| format!("client read: {e}"))?;
        if b[0] != 0xa5 {
            return Err(format!("echo corrupted: {:02x}", b[0]));
        }
        Ok::<_, String>(leaf)
    };
    let cres = client.await;
    let (server_ok, server_err, saw) = server.await.unwrap_or((false, "server task panicked".into(), false));
    HsResult {
        client_ok: cres.is_ok(),
        server_ok,
        client_err: cres.as_ref().err().cloned().unwrap_or_default(),
        server_err,
        server_saw_client_cert: saw,
        server_leaf_seen_by_client: cres.ok().flatten(),
    }
}

pub fn check(c: &TlsCase) -> Outcome {
    let sans: Vec<String> = if c.sans.is_empty() { vec!["server.test".into()] } else { c.sans.clone() };
    let files = Files::new();
    let trusted = make_ca("trusted ca", c.alg);
    let other = make_ca("other ca", (c.alg + 1) % 3);
    let client_ca = make_ca("client ca", c.alg);
    let (leaf_pem, leaf_key, leaf_der) = match c.issuer {
        0 => make_leaf(&sans, "leaf", Some(&trusted), c.alg, false),
        1 => make_leaf(&sans, "leaf", Some(&other), c.alg, false),
        _ => make_leaf(&sans, "leaf", None, c.alg, false),
    };
    let cert_path = files.write("server.pem", &leaf_pem);
    let key_path = files.write("server.key", &leaf_key);
    let client_ca_path = files.write("clientca.pem", &client_ca.pem);
    let trusted_path = files.write("trusted.pem", &trusted.pem);
    let picked = sans[c.pick as usize % sans.len()].clone();
    let name = match c.name {
        0 => picked.clone(),
        1 => format!("not-{}", picked.trim_start_matches("*.")),
        _ => picked.to_ascii_uppercase(),
    };
    let name = name.replace("*.", "a.");
    let (ccert, ckey) = match c.client_cert {
        0 => (None, None),
        1 => {
            let (p, k, _) = make_leaf(&["client.test".into()], "client", Some(&client_ca), c.alg, true);
            (Some(files.write("client.pem", &p)), Some(files.write("client.key", &k)))
        }
        _ => {
            let (p, k, _) = make_leaf(&["client.test".into()], "client", Some(&other), c.alg, true);
            (Some(files.write("client.pem", &p)), Some(files.write("client.key", &k)))
        }
    };
    let res = rt().block_on(async {
        let cfg = tls::make_server_config(&cert_path, &key_path, if c.server_client_ca { Some(client_ca_path.as_str()) } else { None }).await.map_err(|e| format!("make_server_config: {e}"))?;
        Ok::<_, String>(handshake(Arc::new(cfg), &name, ccert.as_deref(), ckey.as_deref(), Some(trusted_path.as_str()), c.skip_verify).await)
    });
    let r = match res {
        Ok(r) => r,
        Err(e) => return Outcome::violation("c17-config-error", e),
    };
    // decision table from the statement
    let name_matches = c.name != 1;
    let server_authenticated = c.skip_verify || (c.issuer == 0 && name_matches);
    let client_authenticated = !c.server_client_ca || c.client_cert == 1;
    let want = server_authenticated && client_authenticated;
    let got = r.client_ok && r.server_ok;
    let desc = format!(
        "server leaf {} , requested name {} ({name:?} vs SANs {sans:?}), skip_verify={}, client cert {}, server client-CA {}",
        ["issued by the trusted CA", "issued by another CA", "self-signed"][c.issuer as usize],
        ["matches", "differs", "matches in other letter case"][c.name as usize],
        c.skip_verify,
        ["none", "under the client CA", "under another CA"][c.client_cert as usize],
        c.server_client_ca
    );
    if got != want {
        let sig = if got {
            if !server_authenticated { "c17-unauthenticated-server-accepted" } else { "c17-unauthenticated-client-accepted" }
        } else if !r.client_ok && server_authenticated && client_authenticated {
            "c17-valid-handshake-refused"
        } else {
            "c17-valid-handshake-refused"
        };
        return Outcome::violation(sig, format!("{desc}: expected {} but the connection {} (client: {:?}, server: {:?})", if want { "success" } else { "failure" }, if got { "succeeded" } else { "failed" }, r.client_err, r.server_err));
    }
    if !c.server_client_ca && r.server_saw_client_cert {
        return Outcome::violation("c17-cert-requested-without-ca", format!("{desc}: the server has no client CA but obtained a client certificate (it must not ask for one)"));
    }
    if got && r.server_leaf_seen_by_client.as_deref() != Some(leaf_der.as_slice()) {
        return Outcome::violation("c17-wrong-leaf", format!("{desc}: the client did not see the configured server certificate"));
    }
    let mut cl = vec![if want { "expected-success" } else { "expected-failure" }];
    if c.skip_verify {
        cl.push("skip-verify");
    }
    if c.name == 2 {
        cl.push("name-case-variant");
    }
    Outcome::pass(!want, cl)
}

// ------------------------------------------------------------------ reload

#[derive(Clone, Debug, Hash, PartialEq, Eq, Serialize, Deserialize)]
pub enum RStep {
    /// new handshake; client certificate: 0 none, 1 under the server's client CA, 2 under another CA
    Connect(u8),
    UseOpen(u8),
    Reload,
    /// reload with a new leaf *and* a new client CA (only with `client_ca`; at most twice, then a plain reload)
    ReloadClientCa,
}

#[derive(Clone, Debug, Hash, PartialEq, Eq, Serialize, Deserialize)]
pub struct ReloadCase {
    pub steps: Vec<RStep>,
    pub alg: u8,
    /// the server is configured with a client CA (before and after every reload)
    #[serde(default)]
    pub client_ca: bool,
    /// every client keeps one rustls ClientConfig (and with it its TLS session cache) for all its connections, as a
    /// long-lived third-party client does; false: a fresh configuration per connection (what `tls_connect` does)
    #[serde(default)]
    pub keep_client_config: bool,
}

pub fn check_reload(c: &ReloadCase) -> Outcome {
    let files = Files::new();
    let ca = make_ca("trusted ca", c.alg);
    let ca_path = files.write("ca.pem", &ca.pem);
    let sans = vec!["reload.test".to_string()];
    let mut generation = 0u32;
    let mut write_leaf = |generation: u32| -> (String, String, Vec<u8>) {
        let (p, k, der) = make_leaf(&sans, &format!("leaf generation {generation}"), Some(&ca), c.alg, false);
        (files.write(&format!("s{generation}.pem"), &p), files.write(&format!("s{generation}.key"), &k), der)
    };
    let (cp, kp, mut current_der) = write_leaf(0);
    // three generations of client CA (rotated by ReloadClientCa), each with a client leaf issued under it
    let client_cas: Vec<Ca> = (0..3).map(|g| make_ca(&format!("client ca {g}"), c.alg)).collect();
    let other_ca = make_ca("other ca", c.alg);
    let client_ca_paths: Vec<String> = client_cas.iter().enumerate().map(|(g, ca)| files.write(&format!("clientca{g}.pem"), &ca.pem)).collect();
    let good_paths: Vec<(String, String)> = client_cas
        .iter()
        .enumerate()
        .map(|(g, ca)| {
            let l = make_leaf(&["client.test".into()], "client", Some(ca), c.alg, true);
            (files.write(&format!("cgood{g}.pem"), &l.0), files.write(&format!("cgood{g}.key"), &l.1))
        })
        .collect();
    let bad = make_leaf(&["client.test".into()], "client", Some(&other_ca), c.alg, true);
    let bad_paths = (files.write("cbad.pem", &bad.0), files.write("cbad.key", &bad.1));
    let mut ca_gen = 0usize;
    let ca_opt: Option<&str> = if c.client_ca { Some(client_ca_paths[0].as_str()) } else { None };
    // long-lived client configurations (keep_client_config), by certificate file
    let mut kept: std::collections::HashMap<String, Arc<tokio_rustls::rustls::ClientConfig>> = std::collections::HashMap::new();
    let r: Result<(u32, u32, bool), (String, String)> = rt().block_on(async {
        let identity = tls::make_tls_identity(&cp, &kp, ca_opt).await.map_err(|e| ("c17-config-error".to_string(), format!("{e}")))?;
        // open connections: (client stream, server stream, generation)
        let mut open: Vec<(tokio_rustls::TlsStream<tokio::io::DuplexStream>, tokio_rustls::server::TlsStream<tokio::io::DuplexStream>, u32)> = vec![];
        let mut connects = 0;
        let mut uses_after_reload = 0;
        let mut reloaded_with_live = false;
        for (i, st) in c.steps.iter().enumerate() {
            match st {
                RStep::Connect(cc) => {
                    // 0 none, 1 under the current client CA, 2 under another CA, 3 under the previous client CA (before a rotation)
                    let kind = if cc % 4 == 3 && ca_gen == 0 { 2 } else { cc % 4 };
                    let (ccert, ckey) = match kind {
                        0 => (None, None),
                        1 => (Some(good_paths[ca_gen].0.as_str()), Some(good_paths[ca_gen].1.as_str())),
                        3 => (Some(good_paths[ca_gen - 1].0.as_str()), Some(good_paths[ca_gen - 1].1.as_str())),
                        _ => (Some(bad_paths.0.as_str()), Some(bad_paths.1.as_str())),
                    };
                    let want_ok = !c.client_ca || kind == 1;
                    let (cio, sio) = tokio::io::duplex(1 << 16);
                    // as run_listener does: the identity is loaded per accepted connection
                    let cfg = identity.load_full();
                    let acc = tokio::spawn(async move { tokio_rustls::TlsAcceptor::from(cfg).accept(sio).await });
                    let cres = if c.keep_client_config {
                        let key = ccert.unwrap_or("none").to_string();
                        let cfg = match kept.get(&key) {
                            Some(cfg) => cfg.clone(),
                            None => {
                                let cfg = Arc::new(tls::make_client_config(ccert, ckey, Some(ca_path.as_str()), false, Some(&["http/1.1"])).await.map_err(|e| ("c17-config-error".to_string(), format!("{e}")))?);
                                kept.insert(key, cfg.clone());
                                cfg
                            }
                        };
                        let name = tokio_rustls::rustls::pki_types::ServerName::try_from("reload.test".to_string()).expect("name");
                        tokio_rustls::TlsConnector::from(cfg).connect(name, cio).await.map(tokio_rustls::TlsStream::Client).map_err(|e| e.to_string())
                    } else {
                        tls::tls_connect(cio, "reload.test", ccert, ckey, Some(ca_path.as_str()), false).await.map_err(|e| e.to_string())
                    };
                    let sres = acc.await.unwrap();
                    // with TLS 1.3 a refused client certificate surfaces on the first read: exchange a byte
                    let mut ok = cres.is_ok() && sres.is_ok();
                    let mut pair = None;
                    if let (Ok(mut cs), Ok(mut ss)) = (cres, sres) {
                        let echo = async {
                            cs.write_all(&[1]).await?;
                            cs.flush().await?;
                            let mut b = [0u8; 1];
                            ss.read_exact(&mut b).await?;
                            ss.write_all(&[2]).await?;
                            ss.flush().await?;
                            cs.read_exact(&mut b).await?;
                            Ok::<_, std::io::Error>(())
                        };
                        ok = matches!(tokio::time::timeout(std::time::Duration::from_secs(20), echo).await, Ok(Ok(())));
                        pair = Some((cs, ss));
                    }
                    if ok != want_ok {
                        let sig = if ok { "c17-reload-unauthenticated-client-accepted" } else { "c17-reload-connect-failed" };
                        return Err((sig.to_string(), format!("step {i}: after {generation} reload(s) ({ca_gen} client-CA rotation(s)), server client-CA configured: {}, client certificate {}{}: the connection {} but should have {}", c.client_ca, ["none", "under the current client CA", "under another CA", "under the previous client CA"][kind as usize], if c.keep_client_config { " (client keeps its TLS configuration and session cache)" } else { "" }, if ok { "succeeded" } else { "failed" }, if want_ok { "succeeded" } else { "failed" })));
                    }
                    if let (true, Some((cs, ss))) = (ok, pair) {
                        let seen = cs.get_ref().1.peer_certificates().and_then(|c| c.first()).map(|c| c.as_ref().to_vec());
                        if seen.as_deref() != Some(current_der.as_slice()) {
                            return Err(("c17-reload-stale-identity".to_string(), format!("step {i}: a handshake after {generation} reload(s) did not present the current certificate")));
                        }
                        open.push((cs, ss, generation));
                    }
                    connects += 1;
                }
                RStep::UseOpen(k) => {
                    if open.is_empty() {
                        continue;
                    }
                    let idx = *k as usize % open.len();
                    let g = open[idx].2;
                    let (cs, ss, _) = &mut open[idx];
                    cs.write_all(&[7]).await.map_err(|e| ("c17-reload-disturbs-open".to_string(), format!("step {i}: write on a connection of generation {g} failed after reload: {e}")))?;
                    cs.flush().await.ok();
                    let mut b = [0u8; 1];
                    tokio::time::timeout(std::time::Duration::from_secs(20), ss.read_exact(&mut b)).await.map_err(|_| ("c17-reload-disturbs-open".to_string(), format!("step {i}: established connection stalled")))?.map_err(|e| ("c17-reload-disturbs-open".to_string(), format!("step {i}: {e}")))?;
                    ss.write_all(&[b[0] + 1]).await.map_err(|e| ("c17-reload-disturbs-open".to_string(), format!("step {i}: {e}")))?;
                    ss.flush().await.ok();
                    tokio::time::timeout(std::time::Duration::from_secs(20), cs.read_exact(&mut b)).await.map_err(|_| ("c17-reload-disturbs-open".to_string(), format!("step {i}: established connection stalled")))?.map_err(|e| ("c17-reload-disturbs-open".to_string(), format!("step {i}: {e}")))?;
                    if b[0] != 8 {
                        return Err(("c17-reload-disturbs-open".to_string(), format!("step {i}: echo corrupted")));
                    }
                    if g < generation {
                        uses_after_reload += 1;
                    }
                }
                RStep::Reload | RStep::ReloadClientCa => {
                    generation += 1;
                    if *st == RStep::ReloadClientCa && c.client_ca && ca_gen + 1 < client_cas.len() {
                        ca_gen += 1;
                    }
                    let ca_now: Option<&str> = if c.client_ca { Some(client_ca_paths[ca_gen].as_str()) } else { None };
                    let (cp, kp, der) = write_leaf(generation);
                    tls::reload_tls_identity(&identity, &cp, &kp, ca_now).await.map_err(|e| ("c17-reload-failed".to_string(), format!("{e}")))?;
                    current_der = der;
                    if !open.is_empty() {
                        reloaded_with_live = true;
                    }
                }
            }
        }
        Ok((connects, uses_after_reload, reloaded_with_live))
    });
    match r {
        Err((sig, msg)) => Outcome::violation(sig, msg),
        Ok((_c, uses, live)) => Outcome::pass(live, if uses > 0 { vec!["old-connection-used-after-reload"] } else { vec![] }),
    }
}

pub fn run(ctx: &Ctx, rep: &mut Report) {
    rep.rule = "matrix {server leaf issued by the trusted CA / another CA / self-signed} x {requested name is a SAN / differs / SAN in other letter case} x {skip-verify on/off} x {client certificate none / under the client CA / under another CA} x {server client-CA configured / not} enumerated COMPLETELY (108 combinations) x 3 key algorithms in every run with fresh rcgen PKIs, \
                plus random cases with generated SAN lists (incl. wildcards and several names); stateful part: generated sequences of {connect with no client certificate / one under the current client CA / under a foreign CA / under the client CA that was replaced, use an open connection, reload identity, reload identity with a new client CA}, with and without a client CA on the server, clients building a fresh TLS configuration per connection or keeping one (with its session cache) for all their connections; plus one scenario through the real server_main and its SIGUSR1 handler (good rotation, failed rotation, completed rotation with a new client CA). Oracle: decision table of the statement; success = both handshakes complete and one byte is echoed each way; no client certificate is requested without a client CA; \
                after reload every new handshake presents the new leaf, is still authenticated as configured (client CA), and every established connection still echoes. Non-trivial = a case whose expected outcome is failure, or a reload with a live connection. Distinct = distinct case value."
        .into();
    rep.assumptions = vec![
        "TLS runs over tokio::io::duplex in-process through rusty_penguin_lib::tls::{tls_connect, make_server_config, make_tls_identity, reload_tls_identity} and tokio_rustls::TlsAcceptor exactly as serve_connection_tls uses it".into(),
        "the client is always given an explicit CA file (system roots, native-tls and ACME are outside the statement)".into(),
        "DNS names are compared case-insensitively (RFC 4343), so a SAN in different letter case counts as a match".into(),
    ];
    let _ = system_ca();
    ctx.enumerate(rep, "unusable-ca-bundle", 10, 10, |i| BadBundleCase { kind: (i % 5) as u8, server_side: i >= 5 }, check_bad_bundle);
    let algs = 3u64;
    ctx.enumerate(
        rep,
        "matrix",
        108 * algs,
        50,
        |i| {
            let mut k = i;
            let issuer = (k % 3) as u8;
            k /= 3;
            let name = (k % 3) as u8;
            k /= 3;
            let skip_verify = k % 2 == 1;
            k /= 2;
            let client_cert = (k % 3) as u8;
            k /= 3;
            let server_client_ca = k % 2 == 1;
            k /= 2;
            TlsCase { issuer, name, skip_verify, client_cert, server_client_ca, alg: (k % 3) as u8, sans: vec!["server.test".into()], pick: 0 }
        },
        check,
    );
    ctx.prop(
        rep,
        "random-sans",
        ctx.tier.pick(3_000, 60_000),
        20,
        || {
            let san = prop_oneof![3 => "[a-z]{1,8}\\.test", 1 => "[a-z]{1,5}\\.[a-z]{1,5}\\.example", 1 => "\\*\\.[a-z]{1,6}\\.test"];
            (0u8..3, 0u8..3, any::<bool>(), 0u8..3, any::<bool>(), 0u8..3, prop::collection::vec(san, 1..4), any::<u8>())
                .prop_map(|(issuer, name, skip_verify, client_cert, server_client_ca, alg, sans, pick)| TlsCase { issuer, name, skip_verify, client_cert, server_client_ca, alg, sans, pick })
        },
        check,
    );
    ctx.prop(
        rep,
        "reload",
        ctx.tier.pick(600, 12_000),
        10,
        || {
            (prop::collection::vec(prop_oneof![4 => (0u8..4).prop_map(RStep::Connect), 3 => any::<u8>().prop_map(RStep::UseOpen), 2 => Just(RStep::Reload), 1 => Just(RStep::ReloadClientCa)], 2..14), 0u8..3, any::<bool>(), any::<bool>())
                .prop_map(|(steps, alg, client_ca, keep_client_config)| ReloadCase { steps, alg, client_ca, keep_client_config })
        },
        check_reload,
    );
    // the name the REAL client asks for: URL host < --hostname < --tls-server-name (all combinations x one-SAN certificates)
    ctx.enumerate(
        rep,
        "name-selection",
        2 * 2 * 2 * 5 + 8,
        20,
        |i| {
            if i < 40 {
                NameCase { url_ip: i % 2 == 1, hostname: (i / 2) % 2 == 1, sni: (i / 4) % 2 == 1, san: (i / 8) as u8, skip_verify: false }
            } else {
                let j = i - 40;
                NameCase { url_ip: j % 2 == 1, hostname: (j / 2) % 2 == 1, sni: (j / 4) % 2 == 1, san: 4, skip_verify: true }
            }
        },
        check_name_selection,
    );
    // the operator's path: SIGUSR1 to a real server_main (one scenario; the signal is process-wide, so it runs on its own)
    ctx.enumerate(rep, "reload-via-signal", 2, 2, |i| i as u8, check_signal_reload);
}


// ------------------------------------------------------------------ a CA bundle that yields no usable certificate

/// The "operating system" trust store of this process: one CA generated at start-up and handed to rustls-native-certs through
/// SSL_CERT_FILE. No listed configuration may ever fall back to it: "the roots the client was given" / "that CA" are the files
/// named on the command line, also when such a file turns out to contain nothing usable.
struct SystemCa {
    ca: Ca,
    _files: Files,
}
fn system_ca() -> &'static SystemCa {
    static S: OnceLock<SystemCa> = OnceLock::new();
    S.get_or_init(|| {
        let files = Files::new();
        let ca = make_ca("pretend system root", 0);
        let path = files.write("system-roots.pem", &ca.pem);
        // (set before any TLS configuration is built in this process)
        unsafe { std::env::set_var("SSL_CERT_FILE", &path) };
        unsafe { std::env::remove_var("SSL_CERT_DIR") };
        SystemCa { ca, _files: files }
    })
}

#[derive(Clone, Debug, Hash, PartialEq, Eq, Serialize, Deserialize)]
pub struct BadBundleCase {
    /// 0 empty file, 1 DER instead of PEM, 2 PEM holding only a private key, 3 truncated PEM, 4 PEM whose body is not a certificate
    pub kind: u8,
    /// false: the client's --tls-ca is the unusable file; true: the server's client CA is
    pub server_side: bool,
}

pub fn check_bad_bundle(c: &BadBundleCase) -> Outcome {
    let sys = system_ca();
    let files = Files::new();
    let some_ca = make_ca("some ca", 0);
    let bundle: Vec<u8> = match c.kind {
        0 => vec![],
        1 => rustls_pemfile_der(&some_ca.pem),
        2 => some_ca.key.serialize_pem().into_bytes(),
        3 => some_ca.pem.as_bytes()[..some_ca.pem.len() / 2].to_vec(),
        _ => b"-----BEGIN CERTIFICATE-----\nTm90IGEgY2VydGlmaWNhdGUgYXQgYWxsLCBqdXN0IGJhc2U2NCB0ZXh0Lg==\n-----END CERTIFICATE-----\n".to_vec(),
    };
    let bad_path = {
        let p = files.dir.path().join("unusable-ca.pem");
        std::fs::write(&p, &bundle).expect("write");
        p.to_str().unwrap().to_string()
    };
    let kind = ["empty", "der-not-pem", "only-a-key", "truncated-pem", "not-a-certificate"][c.kind as usize % 5];
    let r: Result<(), (String, String)> = rt().block_on(async {
        if !c.server_side {
            // server certificate under the pretend system root; the client was given the unusable bundle as its roots
            let leaf = make_leaf(&["server.test".into()], "leaf", Some(&sys.ca), 0, false);
            let (cp, kp) = (files.write("s.pem", &leaf.0), files.write("s.key", &leaf.1));
            let cfg = tls::make_server_config(&cp, &kp, None).await.map_err(|e| ("c17-harness".to_string(), format!("server config: {e}")))?;
            let hs = handshake(Arc::new(cfg), "server.test", None, None, Some(&bad_path), false).await;
            if hs.client_ok {
                return Err((format!("c17-unusable-bundle:client:{kind}"), format!("the client was given a --tls-ca file without any usable certificate ({kind}); it nevertheless accepted a server whose certificate chains to the operating system's trust store")));
            }
        } else {
            let trusted = make_ca("trusted", 0);
            let leaf = make_leaf(&["server.test".into()], "leaf", Some(&trusted), 0, false);
            let (cp, kp, tp) = (files.write("s.pem", &leaf.0), files.write("s.key", &leaf.1), files.write("t.pem", &trusted.pem));
            match tls::make_server_config(&cp, &kp, Some(&bad_path)).await {
                Err(_) => {} // refusing to start is fine
                Ok(cfg) => {
                    let cl = make_leaf(&["client.test".into()], "client", Some(&sys.ca), 0, true);
                    let (ccp, ckp) = (files.write("c.pem", &cl.0), files.write("c.key", &cl.1));
                    let hs = handshake(Arc::new(cfg), "server.test", Some(&ccp), Some(&ckp), Some(&tp), false).await;
                    if hs.client_ok && hs.server_ok {
                        return Err((format!("c17-unusable-bundle:server:{kind}"), format!("the server was given a client-CA file without any usable certificate ({kind}); it nevertheless completed the handshake with a client whose certificate chains to the operating system's trust store")));
                    }
                    // and without a certificate nobody gets in either
                    let hs = handshake(Arc::new(tls::make_server_config(&cp, &kp, Some(&bad_path)).await.unwrap()), "server.test", None, None, Some(&tp), false).await;
                    if hs.client_ok && hs.server_ok {
                        return Err((format!("c17-unusable-bundle:server-no-cert:{kind}"), "a server configured with a client-CA file completed the handshake with a client that presented no certificate".to_string()));
                    }
                }
            }
        }
        Ok(())
    });
    match r {
        Err((sig, msg)) if sig == "c17-harness" => Outcome::inconclusive(msg),
        Err((sig, msg)) => Outcome::violation(sig, msg),
        Ok(()) => Outcome::pass(true, vec!["unusable-ca-bundle"]),
    }
}

/// first certificate of a PEM text as DER bytes
fn rustls_pemfile_der(pem: &str) -> Vec<u8> {
    let mut out = vec![];
    let (mut acc, mut bits) = (0u32, 0u32);
    for ch in pem.lines().filter(|l| !l.starts_with("-----")).flat_map(|l| l.bytes()) {
        let v = match ch {
            b'A'..=b'Z' => ch - b'A',
            b'a'..=b'z' => ch - b'a' + 26,
            b'0'..=b'9' => ch - b'0' + 52,
            b'+' => 62,
            b'/' => 63,
            _ => continue,
        } as u32;
        acc = (acc << 6) | v;
        bits += 6;
        if bits >= 8 {
            bits -= 8;
            out.push((acc >> bits) as u8);
            acc &= (1 << bits) - 1;
        }
    }
    out
}

// ------------------------------------------------------------------ which name does the real client ask for?

/// The statement's "requested server name" is chosen by the client from three places (client/ws_connect.rs): the URL host, the
/// `--hostname` option (also the Host header) and `--tls-server-name`, the later overriding the earlier. This family runs the
/// real client (`client_main_inner`) with a wss URL against a TLS + WebSocket listener of the harness whose leaf certificate
/// carries exactly ONE subject alternative name: the tunnel may come up only if that SAN is the name the precedence rule
/// selects (or verification is switched off), and the SNI the listener sees must be that name.
#[derive(Clone, Debug, Hash, PartialEq, Eq, Serialize, Deserialize)]
pub struct NameCase {
    /// host in the URL: false = "localhost", true = "127.0.0.1"
    pub url_ip: bool,
    pub hostname: bool,
    pub sni: bool,
    /// 0 localhost, 1 127.0.0.1 (IP SAN), 2 alt.example, 3 sni.example, 4 other.example
    pub san: u8,
    pub skip_verify: bool,
}
const NAME_SANS: [&str; 5] = ["localhost", "127.0.0.1", "alt.example", "sni.example", "other.example"];

pub fn check_name_selection(c: &NameCase) -> Outcome {
    use rusty_penguin_lib::arg::{ClientArgs, LocalSpec, Protocol, Remote, RemoteSpec, ServerUrl};
    use rusty_penguin_lib::client::{client_main_inner, HandlerResources};
    use std::str::FromStr;
    use std::sync::atomic::{AtomicBool, Ordering};
    use std::sync::Mutex;
    let selected = if c.sni { "sni.example" } else if c.hostname { "alt.example" } else if c.url_ip { "127.0.0.1" } else { "localhost" };
    let expect_ok = c.skip_verify || NAME_SANS[c.san as usize] == selected;
    let r: Result<(bool, Option<String>, String), String> = rt().block_on(async {
        let files = Files::new();
        let ca = make_ca("name ca", 0);
        let leaf = make_leaf(&[NAME_SANS[c.san as usize].to_string()], "name leaf", Some(&ca), 0, false);
        let (cert_path, key_path, ca_path) = (files.write("cert.pem", &leaf.0), files.write("key.pem", &leaf.1), files.write("ca.pem", &ca.pem));
        let cfg = tls::make_server_config(&cert_path, &key_path, None).await.map_err(|e| format!("harness: server config: {e}"))?;
        let listener = tokio::net::TcpListener::bind("127.0.0.1:0").await.map_err(|e| e.to_string())?;
        let port = listener.local_addr().unwrap().port();
        let accepted = Arc::new(AtomicBool::new(false));
        let seen_sni: Arc<Mutex<Option<String>>> = Arc::new(Mutex::new(None));
        let (acc2, sni2) = (accepted.clone(), seen_sni.clone());
        let server = tokio::spawn(async move {
            loop {
                let Ok((stream, _)) = listener.accept().await else { continue };
                let (cfg, acc3, sni3) = (cfg.clone(), acc2.clone(), sni2.clone());
                tokio::spawn(async move {
                    let acceptor = tokio_rustls::TlsAcceptor::from(Arc::new(cfg));
                    let Ok(s) = acceptor.accept(stream).await else { return };
                    *sni3.lock().unwrap() = s.get_ref().1.server_name().map(|x| x.to_string());
                    let cb = |_req: &tokio_tungstenite::tungstenite::handshake::server::Request, mut resp: tokio_tungstenite::tungstenite::handshake::server::Response| {
                        resp.headers_mut().insert("sec-websocket-protocol", http::HeaderValue::from_static("penguin-v7"));
                        Ok(resp)
                    };
                    if let Ok(_ws) = tokio_tungstenite::accept_hdr_async(s, cb).await {
                        acc3.store(true, Ordering::SeqCst);
                        tokio::time::sleep(std::time::Duration::from_secs(30)).await;
                    }
                });
            }
        });
        let uds = tmp_root().join(format!("c17n-{}-{:x}.sock", std::process::id(), vf_common::hash_of(c)));
        let _ = std::fs::remove_file(&uds);
        let url = format!("wss://{}:{port}/ws", if c.url_ip { "127.0.0.1" } else { "localhost" });
        let args: &'static ClientArgs = Box::leak(Box::new(ClientArgs {
            server: ServerUrl::from_str(&url).map_err(|e| format!("harness: url: {e}"))?,
            remote: vec![Remote { local_addr: LocalSpec::DomainSocket(uds.clone()), remote_addr: RemoteSpec::Inet(("echo.invalid".to_string(), 7)), protocol: Protocol::Tcp }],
            hostname: if c.hostname { Some(http::HeaderValue::from_static("alt.example")) } else { None },
            tls_server_name: if c.sni { Some("sni.example".to_string()) } else { None },
            tls_ca: Some(ca_path.clone()),
            tls_skip_verify: c.skip_verify,
            keepalive: penguin_mux::timing::OptionalDuration::NONE,
            keepalive_timeout: penguin_mux::timing::OptionalDuration::NONE,
            max_retry_count: 1,
            max_retry_interval: 200,
            handshake_timeout: penguin_mux::timing::OptionalDuration::from_secs(5),
            ..Default::default()
        }));
        let (hr, stream_rx, dgram_rx) = HandlerResources::create();
        let hr: &'static HandlerResources = Box::leak(Box::new(hr));
        let mut client = tokio::spawn(async move { client_main_inner(args, hr, stream_rx, dgram_rx).await.map_err(|e| format!("{e:?}")) });
        let t0 = std::time::Instant::now();
        let mut client_end = String::new();
        loop {
            if accepted.load(Ordering::SeqCst) {
                break;
            }
            if client.is_finished() {
                client_end = match (&mut client).await { Ok(Ok(())) => "Ok".into(), Ok(Err(e)) => e, Err(e) => format!("join: {e}") };
                break;
            }
            if t0.elapsed() > std::time::Duration::from_secs(15) {
                client.abort();
                server.abort();
                let _ = std::fs::remove_file(&uds);
                return Err("neither an established tunnel nor a client error within 15 s".to_string());
            }
            tokio::time::sleep(std::time::Duration::from_millis(5)).await;
        }
        client.abort();
        server.abort();
        let _ = std::fs::remove_file(&uds);
        let sni = seen_sni.lock().unwrap().clone();
        Ok((accepted.load(Ordering::SeqCst), sni, client_end))
    });
    let (ok, sni, client_end) = match r {
        Ok(x) => x,
        Err(e) => return Outcome::inconclusive(e),
    };
    let desc = format!("URL host {}, --hostname {}, --tls-server-name {}, leaf SAN {}, skip-verify {}", if c.url_ip { "127.0.0.1" } else { "localhost" }, if c.hostname { "alt.example" } else { "-" }, if c.sni { "sni.example" } else { "-" }, NAME_SANS[c.san as usize], c.skip_verify);
    if ok && !expect_ok {
        return Outcome::violation("c17-name:unauthenticated-server-accepted", format!("{desc}: the name to verify is {selected}, the certificate is for another name, yet the tunnel was established"));
    }
    if !ok && expect_ok {
        return Outcome::violation("c17-name:valid-server-rejected", format!("{desc}: the name to verify is {selected} and the certificate is valid for it, but the client gave up with {client_end}"));
    }
    if ok && !(selected.parse::<std::net::IpAddr>().is_ok()) && sni.as_deref() != Some(selected) {
        return Outcome::violation("c17-name:wrong-sni", format!("{desc}: the server saw SNI {sni:?}, the requested name is {selected}"));
    }
    Outcome::pass(!expect_ok || c.hostname || c.sni, vec![if expect_ok { "name-selected-matches" } else { "name-selected-does-not-match" }])
}

// ------------------------------------------------------------------ reload through the real server and its SIGUSR1 handler

/// One real `server_main` with a TLS identity (and a client CA), reloaded by SIGUSR1 as an operator would: a good rotation, a
/// rotation interrupted half-way (unreadable key: the reload fails, the old identity stays), and a good rotation again that
/// also replaces the client CA. After every step new handshakes must see exactly the identity on disk at the last *successful*
/// reload and be authenticated under the client CA of that reload.
pub fn check_signal_reload(c: &u8) -> Outcome {
    // case 1: the configured paths are symbolic links from the start (certbot's live/ directory, Kubernetes' ..data), rotation
    // also happens by re-pointing them
    let links_from_start = *c == 1;
    use rusty_penguin_lib::arg::ServerArgs;
    let files = Files::new();
    let ca = make_ca("trusted ca", 0);
    let ca_path = files.write("ca.pem", &ca.pem);
    let sans = vec!["reload.test".to_string()];
    let client_cas: Vec<Ca> = (0..2).map(|g| make_ca(&format!("client ca {g}"), 0)).collect();
    let client_paths: Vec<(String, String)> = client_cas
        .iter()
        .enumerate()
        .map(|(g, cca)| {
            let l = make_leaf(&["client.test".into()], "client", Some(cca), 0, true);
            (files.write(&format!("client{g}.pem"), &l.0), files.write(&format!("client{g}.key"), &l.1))
        })
        .collect();
    let leaf = |g: u32| make_leaf(&sans, &format!("signal leaf {g}"), Some(&ca), 0, false);
    let l0 = leaf(0);
    let cert_path = files.write("cert.pem", &l0.0);
    let key_path = files.write("privkey.pem", &l0.1);
    let cca_path = files.write("clientca.pem", &client_cas[0].pem);
    if links_from_start {
        for path in [&cert_path, &key_path, &cca_path] {
            let target = format!("{path}.gen0");
            std::fs::rename(path, &target).unwrap();
            std::os::unix::fs::symlink(&target, path).unwrap();
        }
    }
    let port = rt().block_on(async { tokio::net::TcpListener::bind("127.0.0.1:0").await.unwrap().local_addr().unwrap().port() });
    let args: &'static ServerArgs = Box::leak(Box::new(ServerArgs {
        host: vec!["127.0.0.1".to_string()],
        port: vec![port],
        not_found_resp: "nf".to_string(),
        tls_cert: Some(cert_path.clone()),
        tls_key: Some(key_path.clone()),
        tls_ca: Some(cca_path.clone()),
        ..Default::default()
    }));
    let r: Result<(), (String, String)> = rt().block_on(async {
        let server = tokio::spawn(rusty_penguin_lib::server::server_main(args));
        // one handshake + one HTTP exchange; Ok(leaf der) or Err(reason)
        let connect = |cpaths: Option<&(String, String)>| {
            let ca_path = ca_path.clone();
            let cp = cpaths.cloned();
            async move {
                let tcp = tokio::net::TcpStream::connect(("127.0.0.1", port)).await.map_err(|e| format!("tcp: {e}"))?;
                let (cc, ck) = match &cp {
                    Some((c, k)) => (Some(c.as_str()), Some(k.as_str())),
                    None => (None, None),
                };
                let mut st = tls::tls_connect(tcp, "reload.test", cc, ck, Some(ca_path.as_str()), false).await.map_err(|e| format!("tls: {e}"))?;
                st.write_all(b"GET /nothing HTTP/1.1\r\nHost: reload.test\r\nConnection: close\r\n\r\n").await.map_err(|e| format!("write: {e}"))?;
                let mut b = [0u8; 12];
                tokio::time::timeout(std::time::Duration::from_secs(10), st.read_exact(&mut b)).await.map_err(|_| "no HTTP answer".to_string())?.map_err(|e| format!("read: {e}"))?;
                let der = match &st {
                    tokio_rustls::TlsStream::Client(c) => c.get_ref().1.peer_certificates().and_then(|c| c.first()).map(|c| c.as_ref().to_vec()),
                    _ => None,
                };
                der.ok_or_else(|| "no peer certificate".to_string())
            }
        };
        // wait for the listener (the SIGUSR1 handler is registered before it binds)
        let mut up = false;
        for _ in 0..200 {
            if connect(Some(&client_paths[0])).await.is_ok() {
                up = true;
                break;
            }
            tokio::time::sleep(std::time::Duration::from_millis(50)).await;
        }
        if !up {
            server.abort();
            return Err(("c17-signal-harness".to_string(), "the server did not come up".to_string()));
        }
        let usr1 = || async {
            let ok = tokio::process::Command::new("kill").arg("-USR1").arg(std::process::id().to_string()).status().await.map(|s| s.success()).unwrap_or(false);
            if ok { Ok(()) } else { Err(("c17-signal-harness".to_string(), "cannot send SIGUSR1".to_string())) }
        };
        // waits until a handshake presents `der` (reloads are asynchronous); false after 5 s
        let wait_leaf = |der: Vec<u8>, cp: (String, String)| {
            let connect = &connect;
            async move {
                for _ in 0..100 {
                    if connect(Some(&cp)).await.ok().as_deref() == Some(der.as_slice()) {
                        return true;
                    }
                    tokio::time::sleep(std::time::Duration::from_millis(50)).await;
                }
                false
            }
        };
        let res: Result<(), (String, String)> = async {
            if connect(Some(&client_paths[0])).await.map_err(|e| ("c17-signal-connect".to_string(), e))? != l0.2 {
                return Err(("c17-signal-stale-identity".to_string(), "the initial handshake does not present the configured leaf".to_string()));
            }
            // 0. the port speaks TLS only: a peer that sends a plain-text HTTP request (here a complete, valid tunnel upgrade) must
            //    get no HTTP service - no handshake, no client certificate, no tunnel
            for req in ["GET /ws HTTP/1.1\r\nHost: reload.test\r\nConnection: upgrade\r\nUpgrade: websocket\r\nSec-WebSocket-Version: 13\r\nSec-WebSocket-Protocol: penguin-v7\r\nSec-WebSocket-Key: dGhlIHNhbXBsZSBub25jZQ==\r\n\r\n", "GET /health HTTP/1.1\r\nHost: reload.test\r\n\r\n"] {
                let mut tcp = tokio::net::TcpStream::connect(("127.0.0.1", port)).await.map_err(|e| ("c17-signal-connect".to_string(), format!("tcp: {e}")))?;
                tcp.write_all(req.as_bytes()).await.ok();
                let mut got = vec![];
                let mut b = [0u8; 64];
                while got.len() < 12 {
                    match tokio::time::timeout(std::time::Duration::from_secs(3), tcp.read(&mut b)).await {
                        Ok(Ok(n)) if n > 0 => got.extend_from_slice(&b[..n]),
                        _ => break,
                    }
                }
                if got.starts_with(b"HTTP/") {
                    return Err(("c17-plaintext-served-on-tls-port".to_string(), format!("a peer that sent a plain-text HTTP request to the TLS listener (server certificate and client CA configured) was answered {:?}: served without any TLS handshake, so without a client certificate", String::from_utf8_lossy(&got[..got.len().min(40)]))));
                }
            }
            // 1. a good rotation
            let l1 = leaf(1);
            std::fs::write(&cert_path, &l1.0).unwrap();
            std::fs::write(&key_path, &l1.1).unwrap();
            usr1().await?;
            if !wait_leaf(l1.2.clone(), client_paths[0].clone()).await {
                return Err(("c17-signal-reload-not-applied".to_string(), "5 s after SIGUSR1 new handshakes still do not present the certificate that was put in place".to_string()));
            }
            // 2. a rotation caught half-way: the key file is unreadable, the reload fails, the running identity stays
            std::fs::write(&key_path, "").unwrap();
            usr1().await?;
            tokio::time::sleep(std::time::Duration::from_millis(400)).await;
            match connect(Some(&client_paths[0])).await {
                Ok(d) if d == l1.2 => {}
                Ok(_) => return Err(("c17-signal-stale-identity".to_string(), "after a failed reload a handshake presents something else than the last good identity".to_string())),
                Err(e) => return Err(("c17-signal-reload-disturbs".to_string(), format!("after a failed reload new handshakes fail: {e}"))),
            }
            // 3. the rotation is completed, with a new client CA as well
            let l2 = leaf(2);
            std::fs::write(&cert_path, &l2.0).unwrap();
            std::fs::write(&key_path, &l2.1).unwrap();
            std::fs::write(&cca_path, &client_cas[1].pem).unwrap();
            usr1().await?;
            if !wait_leaf(l2.2.clone(), client_paths[1].clone()).await {
                return Err((
                    "c17-signal-reload-not-applied".to_string(),
                    "a reload had failed (unreadable key); the files were then completed and SIGUSR1 sent again, but 5 s later new handshakes still do not see the new identity / client CA: reloading stopped working after the failure".to_string(),
                ));
            }
            if connect(Some(&client_paths[0])).await.is_ok() {
                return Err(("c17-reload-unauthenticated-client-accepted".to_string(), "after the client CA was replaced through SIGUSR1 a certificate under the replaced CA is still accepted".to_string()));
            }
            if connect(None).await.is_ok() {
                return Err(("c17-reload-unauthenticated-client-accepted".to_string(), "a client without a certificate was accepted by a server with a client CA".to_string()));
            }
            // 4. a rotation done the way deployment tools do it: the new files are written elsewhere, carry an OLD modification time
            //    (cp -p, rsync -t, tar x, a certificate issued earlier on another host, a roll-back) and are renamed into place
            let l3 = leaf(3);
            let old = std::time::SystemTime::now() - std::time::Duration::from_secs(3 * 3600);
            for (path, content) in [(&cert_path, &l3.0), (&key_path, &l3.1), (&cca_path, &client_cas[0].pem)] {
                let tmp = format!("{}.new", path);
                std::fs::write(&tmp, content).unwrap();
                let f = std::fs::File::options().write(true).open(&tmp).unwrap();
                f.set_modified(old).unwrap();
                drop(f);
                std::fs::rename(&tmp, path).unwrap();
            }
            usr1().await?;
            if !wait_leaf(l3.2.clone(), client_paths[0].clone()).await {
                return Err((
                    "c17-signal-reload-not-applied:renamed-old-mtime".to_string(),
                    "new identity and client CA files were renamed into place carrying modification times three hours in the past (as cp -p / rsync -t / a roll-back produce); 5 s after SIGUSR1 new handshakes still see the previous identity / client CA".to_string(),
                ));
            }
            if connect(Some(&client_paths[1])).await.is_ok() {
                return Err(("c17-reload-unauthenticated-client-accepted".to_string(), "after the client CA was rolled back through SIGUSR1 a certificate under the CA that was just removed is still accepted".to_string()));
            }
            // 5. and 6. rotation by re-pointing symbolic links (twice: the first time the configured path may still be a regular file,
            //    the second time it is a link that was a link at the previous reload as well): the new files get new names, a new
            //    link is created next to the configured path and renamed over it
            for (rot, cca) in [(5u32, 1usize), (6, 0)] {
                let l = leaf(rot);
                for (path, content) in [(&cert_path, &l.0), (&key_path, &l.1), (&cca_path, &client_cas[cca].pem)] {
                    let target = format!("{path}.gen{rot}");
                    std::fs::write(&target, content).unwrap();
                    let lnk = format!("{path}.lnk");
                    let _ = std::fs::remove_file(&lnk);
                    std::os::unix::fs::symlink(&target, &lnk).unwrap();
                    std::fs::rename(&lnk, path).unwrap();
                }
                usr1().await?;
                if !wait_leaf(l.2.clone(), client_paths[cca].clone()).await {
                    return Err((
                        "c17-signal-reload-not-applied:relinked".to_string(),
                        format!("the configured certificate, key and client-CA paths were re-pointed (symbolic links renamed into place) to new files; 5 s after SIGUSR1 new handshakes still see the previous identity / client CA (paths were links from the start: {links_from_start}, rotation {rot})"),
                    ));
                }
                if connect(Some(&client_paths[1 - cca])).await.is_ok() {
                    return Err(("c17-reload-unauthenticated-client-accepted".to_string(), "after the client CA link was re-pointed and SIGUSR1 sent, a certificate under the replaced CA is still accepted".to_string()));
                }
            }
            Ok(())
        }
        .await;
        server.abort();
        res
    });
    match r {
        Err((sig, msg)) => Outcome::violation(sig, msg),
        Ok(()) => Outcome::pass(true, vec![if links_from_start { "reload-via-sigusr1-paths-are-symlinks" } else { "reload-via-sigusr1" }]),
    }
}
