//! Shared plumbing of the penguin-rs verification harness: seeds, sharded
//! proptest driver, bounded-exhaustive enumeration driver, evidence writer,
//! replay files, known-findings handling, exit codes.
#![allow(clippy::type_complexity)]

use proptest::strategy::{Strategy, ValueTree};
use proptest::test_runner::{Config, RngAlgorithm, TestCaseError, TestError, TestRng, TestRunner};
use serde::de::DeserializeOwned;
use serde::Serialize;
use serde_json::{json, Value};
use std::cell::{Cell, RefCell};
use std::collections::{BTreeMap, HashSet};
use std::fmt::Debug;
use std::hash::{Hash, Hasher};
use std::panic::{catch_unwind, AssertUnwindSafe};
use std::path::PathBuf;
use std::sync::atomic::{AtomicBool, Ordering};
use std::sync::Mutex;
use std::time::Instant;

pub const SHARDS: u64 = 16;
pub const VERIF_ROOT: &str = "/verif";
/// Where evidence and replay files go. `/verif` unless `VERIF_OUT_DIR` is set (used by the isolated mutation sweep of
/// tools/automut.py, which runs the same binaries against scratch copies of the tree and must not touch /verif's files).
pub fn cov_divisor() -> u64 {
    std::env::var("VERIF_COV_DIVISOR").ok().and_then(|s| s.parse().ok()).filter(|d| *d >= 1).unwrap_or(1)
}
pub fn out_root() -> String {
    std::env::var("VERIF_OUT_DIR").ok().filter(|s| !s.is_empty()).unwrap_or_else(|| VERIF_ROOT.to_string())
}

#[derive(Clone, Copy, Debug, PartialEq, Eq)]
pub enum Tier {
    Quick,
    Thorough,
}
impl Tier {
    pub fn as_str(self) -> &'static str {
        match self {
            Tier::Quick => "quick",
            Tier::Thorough => "thorough",
        }
    }
    /// pick by tier
    pub fn pick<T>(self, quick: T, thorough: T) -> T {
        match self {
            Tier::Quick => quick,
            Tier::Thorough => thorough,
        }
    }
}

#[derive(Clone, Debug)]
pub enum Verdict {
    Pass,
    /// `sig` is a short stable signature of the root cause shape (used for known findings)
    Violation { sig: String, msg: String },
    Inconclusive(String),
}

#[derive(Clone, Debug)]
pub struct Outcome {
    pub verdict: Verdict,
    pub nontrivial: bool,
    pub classes: Vec<&'static str>,
}
impl Outcome {
    pub fn pass(nontrivial: bool, classes: Vec<&'static str>) -> Self {
        Self { verdict: Verdict::Pass, nontrivial, classes }
    }
    pub fn violation(sig: impl Into<String>, msg: impl Into<String>) -> Self {
        Self { verdict: Verdict::Violation { sig: sig.into(), msg: msg.into() }, nontrivial: false, classes: vec![] }
    }
    pub fn inconclusive(msg: impl Into<String>) -> Self {
        Self { verdict: Verdict::Inconclusive(msg.into()), nontrivial: false, classes: vec![] }
    }
}

// ---------------------------------------------------------------- panics

thread_local! {
    static QUIET: Cell<bool> = const { Cell::new(false) };
    static LAST_PANIC: RefCell<Option<String>> = const { RefCell::new(None) };
}

pub fn install_panic_hook() {
    let default = std::panic::take_hook();
    std::panic::set_hook(Box::new(move |info| {
        let quiet = QUIET.with(|q| q.get());
        if quiet {
            let msg = if let Some(s) = info.payload().downcast_ref::<&str>() {
                (*s).to_string()
            } else if let Some(s) = info.payload().downcast_ref::<String>() {
                s.clone()
            } else {
                "<non-string panic>".to_string()
            };
            let loc = info.location().map(|l| format!("{}:{}", l.file(), l.line())).unwrap_or_default();
            LAST_PANIC.with(|p| *p.borrow_mut() = Some(format!("{msg} @ {loc}")));
        } else {
            default(info);
        }
    }));
}

/// Run `f`, catching panics silently. Err(message with location) on panic.
pub fn quiet_catch<R>(f: impl FnOnce() -> R) -> Result<R, String> {
    let prev = QUIET.with(|q| q.replace(true));
    let r = catch_unwind(AssertUnwindSafe(f));
    QUIET.with(|q| q.set(prev));
    match r {
        Ok(v) => Ok(v),
        Err(_) => Err(LAST_PANIC.with(|p| p.borrow_mut().take()).unwrap_or_else(|| "panic".into())),
    }
}

// ---------------------------------------------------------------- hashing / seeds

pub fn splitmix(mut x: u64) -> u64 {
    x = x.wrapping_add(0x9E37_79B9_7F4A_7C15);
    let mut z = x;
    z = (z ^ (z >> 30)).wrapping_mul(0xBF58_476D_1CE4_E5B9);
    z = (z ^ (z >> 27)).wrapping_mul(0x94D0_49BB_1331_11EB);
    z ^ (z >> 31)
}

pub fn hash_of<T: Hash + ?Sized>(t: &T) -> u64 {
    // DefaultHasher::new() uses fixed keys: deterministic across runs
    #[allow(deprecated)]
    let mut h = std::hash::SipHasher::new();
    t.hash(&mut h);
    h.finish()
}

pub fn rng_for(seed: u64, name: &str, shard: u64) -> TestRng {
    let mut s = splitmix(seed ^ hash_of(name));
    s = splitmix(s ^ shard.wrapping_mul(0xA24B_AED4_963E_E407));
    let mut bytes = [0u8; 32];
    for i in 0..4 {
        s = splitmix(s);
        bytes[i * 8..i * 8 + 8].copy_from_slice(&s.to_le_bytes());
    }
    TestRng::from_seed(RngAlgorithm::ChaCha, &bytes)
}

// ---------------------------------------------------------------- known findings

#[derive(Clone, Debug, serde::Deserialize)]
pub struct Finding {
    pub status: String, // "open" | "fixed"
    pub property: String,
    /// signature prefix matched against Violation.sig (open findings only)
    #[serde(default)]
    pub sig: String,
    #[serde(default)]
    pub commit: String,
    pub what: String,
}

#[derive(Clone, Debug, Default, serde::Deserialize)]
pub struct Findings {
    #[serde(default)]
    pub findings: Vec<Finding>,
}

impl Findings {
    pub fn load() -> Self {
        let p = format!("{VERIF_ROOT}/known_findings.json");
        match std::fs::read_to_string(&p) {
            Ok(s) => serde_json::from_str(&s).unwrap_or_else(|e| {
                eprintln!("warning: cannot parse {p}: {e}");
                Findings::default()
            }),
            Err(_) => Findings::default(),
        }
    }
    pub fn open_match(&self, property: &str, sig: &str) -> Option<&Finding> {
        self.findings
            .iter()
            .find(|f| f.status == "open" && f.property == property && !f.sig.is_empty() && sig.starts_with(&f.sig))
    }
}

// ---------------------------------------------------------------- stuck-case monitor

/// What each worker thread is running right now: (section, case as JSON, since when). Used to turn a blocking
/// deadlock inside the code under test (which no in-process oracle can observe) into a reported, replayable case.
static RUNNING: Mutex<Vec<Option<(String, String, Instant)>>> = Mutex::new(Vec::new());
thread_local! {
    static SLOT: Cell<usize> = const { Cell::new(usize::MAX) };
}
static MONITOR_ON: AtomicBool = AtomicBool::new(false);

fn slot_enter(section: &str, case_json: impl FnOnce() -> String) {
    if !MONITOR_ON.load(Ordering::Relaxed) {
        return;
    }
    let mut g = RUNNING.lock().unwrap();
    let mut i = SLOT.with(|s| s.get());
    if i == usize::MAX {
        g.push(None);
        i = g.len() - 1;
        SLOT.with(|s| s.set(i));
    }
    g[i] = Some((section.to_string(), case_json(), Instant::now()));
}
fn slot_leave() {
    if !MONITOR_ON.load(Ordering::Relaxed) {
        return;
    }
    let i = SLOT.with(|s| s.get());
    if i != usize::MAX {
        RUNNING.lock().unwrap()[i] = None;
    }
}

// ---------------------------------------------------------------- context / report

pub struct Ctx {
    pub property: String,
    pub tier: Tier,
    pub seed: u64,
    pub level: &'static str,
    pub replay: Option<(String, Value)>,
    pub findings: Findings,
    start: Instant,
    pub strict: bool,
    /// proptest shrink budget (lower it for checks whose cases take seconds)
    pub max_shrink_iters: std::sync::atomic::AtomicU32,
    current_section: Mutex<String>,
}

#[derive(Default)]
struct Stats {
    evaluations: u64,
    nontrivial: HashSet<u64>,
    classes: BTreeMap<String, u64>,
    samples: Vec<(u64, Value)>, // (class-key hash, sample)
    inconclusive: u64,
    inconclusive_msgs: Vec<String>,
    known_hits: BTreeMap<String, u64>,
}

impl Stats {
    fn merge(&mut self, o: Stats) {
        self.evaluations += o.evaluations;
        self.nontrivial.extend(o.nontrivial);
        for (k, v) in o.classes {
            *self.classes.entry(k).or_default() += v;
        }
        for s in o.samples {
            if self.samples.len() < 8 && !self.samples.iter().any(|x| x.0 == s.0) {
                self.samples.push(s);
            }
        }
        self.inconclusive += o.inconclusive;
        for m in o.inconclusive_msgs {
            if self.inconclusive_msgs.len() < 5 {
                self.inconclusive_msgs.push(m);
            }
        }
        for (k, v) in o.known_hits {
            *self.known_hits.entry(k).or_default() += v;
        }
    }
    fn record<C: Hash + Serialize>(&mut self, case: &C, out: &Outcome) {
        self.evaluations += 1;
        for c in &out.classes {
            *self.classes.entry((*c).to_string()).or_default() += 1;
        }
        if out.nontrivial {
            let h = hash_of(case);
            if self.nontrivial.insert(h) {
                let key = hash_of(&out.classes);
                if self.samples.len() < 8 && !self.samples.iter().any(|x| x.0 == key) {
                    let mut v = serde_json::to_value(case).unwrap_or(Value::Null);
                    truncate_value(&mut v, 0);
                    self.samples.push((key, v));
                }
            }
        }
    }
}

/// keep samples readable: cap long arrays / strings
fn truncate_value(v: &mut Value, depth: usize) {
    match v {
        Value::Array(a) => {
            let cap = if depth == 0 { 64 } else { 48 };
            if a.len() > cap {
                let n = a.len();
                a.truncate(cap);
                a.push(Value::String(format!("...({n} items)")));
            }
            for x in a.iter_mut() {
                truncate_value(x, depth + 1);
            }
        }
        Value::Object(o) => {
            for (_, x) in o.iter_mut() {
                truncate_value(x, depth + 1);
            }
        }
        Value::String(s) => {
            if s.len() > 300 {
                let n = s.len();
                let mut cut = 300;
                while !s.is_char_boundary(cut) {
                    cut -= 1;
                }
                s.truncate(cut);
                s.push_str(&format!("...({n} chars)"));
            }
        }
        _ => {}
    }
}

#[derive(Clone, Debug)]
pub struct ViolationRec {
    pub section: String,
    pub sig: String,
    pub msg: String,
    pub case: Value,
}

pub struct Report {
    sections: Vec<Value>,
    total: Stats,
    violations: Vec<ViolationRec>,
    exhaustive_all: bool,
    any_section: bool,
    floors_missed: Vec<String>,
    pub rule: String,
    pub assumptions: Vec<String>,
    pub extra: BTreeMap<String, Value>,
}

impl Ctx {
    /// Parse the common CLI: `<bin> <property> [--tier quick|thorough] [--replay path] [--strict]`
    pub fn from_args(level_of: impl Fn(&str) -> &'static str) -> Ctx {
        install_panic_hook();
        install_log_sink();
        let args: Vec<String> = std::env::args().collect();
        if args.len() < 2 {
            eprintln!("usage: {} <property> [--tier quick|thorough] [--replay <path>]", args[0]);
            std::process::exit(3);
        }
        let property = args[1].clone();
        let mut tier = match std::env::var("VERIF_TIER").ok().as_deref() {
            Some("thorough") => Tier::Thorough,
            _ => Tier::Quick,
        };
        let mut replay = None;
        let mut strict = false;
        let mut i = 2;
        while i < args.len() {
            match args[i].as_str() {
                "--tier" => {
                    tier = if args.get(i + 1).map(String::as_str) == Some("thorough") { Tier::Thorough } else { Tier::Quick };
                    i += 1;
                }
                "--replay" => {
                    let p = args.get(i + 1).expect("--replay needs a path");
                    let s = std::fs::read_to_string(p).unwrap_or_else(|e| {
                        eprintln!("cannot read replay {p}: {e}");
                        std::process::exit(3)
                    });
                    let v: Value = serde_json::from_str(&s).unwrap_or_else(|e| {
                        eprintln!("cannot parse replay {p}: {e}");
                        std::process::exit(3)
                    });
                    let section = v["section"].as_str().unwrap_or("").to_string();
                    replay = Some((section, v["case"].clone()));
                    i += 1;
                }
                "--strict" => strict = true,
                _ => {}
            }
            i += 1;
        }
        let seed = std::env::var("VERIF_SEED").ok().and_then(|s| s.trim().parse::<i64>().ok()).map(|x| x as u64).unwrap_or(20_260_924);
        let level = level_of(&property);
        Ctx { property, tier, seed, level, replay, findings: Findings::load(), start: Instant::now(), strict, max_shrink_iters: std::sync::atomic::AtomicU32::new(4000), current_section: Mutex::new(String::new()) }
    }

    /// Start the stuck-case monitor. `deadlocked` is a *definitive* detector (e.g. parking_lot's wait-for-graph check);
    /// when a case has been running for `after` and the detector confirms a deadlock, the case is written out as a
    /// replay file, a VIOLATION line is printed and the process exits with 1 (the stuck threads cannot be recovered).
    /// Without confirmation a case stuck for 20x `after` ends the run as inconclusive (exit 2).
    pub fn enable_stuck_monitor(&self, after: std::time::Duration, sig: &'static str, deadlocked: impl Fn() -> bool + Send + 'static) {
        MONITOR_ON.store(true, Ordering::Relaxed);
        let property = self.property.clone();
        let seed = self.seed;
        let replaying = self.replay.is_some();
        std::thread::spawn(move || loop {
            std::thread::sleep(std::time::Duration::from_millis(500));
            let stuck: Vec<(String, String, std::time::Duration)> = RUNNING.lock().unwrap().iter().flatten().filter(|x| x.2.elapsed() > after).map(|x| (x.0.clone(), x.1.clone(), x.2.elapsed())).collect();
            if stuck.is_empty() {
                continue;
            }
            let confirmed = deadlocked();
            if confirmed {
                let (section, case, _) = &stuck[0];
                let case_v: Value = serde_json::from_str(case).unwrap_or(Value::Null);
                let msg = "the code under test blocked inside a single poll (lock wait-for cycle confirmed by the deadlock detector): the endpoint is wedged";
                let path = if replaying {
                    "(replay)".to_string()
                } else {
                    let dir = PathBuf::from(format!("{}/replays", out_root()));
                    std::fs::create_dir_all(&dir).ok();
                    let body = json!({"property": property, "section": section, "sig": sig, "msg": msg, "seed": seed, "case": case_v});
                    let p = dir.join(format!("{}-{}-{:08x}.json", property, section, hash_of(&body.to_string()) as u32));
                    std::fs::write(&p, serde_json::to_string_pretty(&body).unwrap()).ok();
                    p.display().to_string()
                };
                println!("VIOLATION property={property} replay={path}");
                println!("  section={section} sig={sig} : {msg}");
                std::process::exit(1);
            }
            if stuck.iter().any(|x| x.2 > after * 20) {
                println!("INCONCLUSIVE property={property} a case has been running for {:?} without a confirmed deadlock (section {})", stuck[0].2, stuck[0].0);
                std::process::exit(2);
            }
        });
    }

    pub fn report(&self) -> Report {
        Report {
            sections: vec![],
            total: Stats::default(),
            violations: vec![],
            exhaustive_all: true,
            any_section: false,
            floors_missed: vec![],
            rule: String::new(),
            assumptions: vec![],
            extra: BTreeMap::new(),
        }
    }

    fn wants(&self, section: &str) -> bool {
        match &self.replay {
            // VERIF_ONLY_SECTION: development aid (tools/dev.sh), never set by a registered check
            None => std::env::var("VERIF_ONLY_SECTION").map_or(true, |only| only.is_empty() || only == section),
            Some((s, _)) => s == section,
        }
    }

    fn judge<C: Hash + Serialize>(
        &self,
        case: &C,
        f: &(impl Fn(&C) -> Outcome + ?Sized),
        stats: &mut Stats,
        counting: bool,
    ) -> Result<(), (String, String)> {
        slot_enter(&self.current_section.lock().unwrap(), || serde_json::to_string(case).unwrap_or_default());
        // one case in eight (a pure function of the case value, so a replay behaves alike) runs with every log statement of the
        // code under test enabled down to TRACE, as when an operator turns on verbose logging; the others at INFO
        set_thread_log_level(if hash_of(case) % 8 == 0 { 5 } else { 3 });
        let out = match quiet_catch(|| f(case)) {
            Ok(o) => o,
            Err(p) => Outcome::violation("panic", format!("harness/code panicked: {p}")),
        };
        slot_leave();
        if counting {
            stats.record(case, &out);
        }
        match out.verdict {
            Verdict::Pass => Ok(()),
            Verdict::Inconclusive(m) => {
                if counting {
                    stats.inconclusive += 1;
                    if stats.inconclusive_msgs.len() < 5 {
                        stats.inconclusive_msgs.push(m);
                    }
                }
                Ok(())
            }
            Verdict::Violation { sig, msg } => {
                if !self.strict {
                    if let Some(fd) = self.findings.open_match(&self.property, &sig) {
                        if counting {
                            *stats.known_hits.entry(format!("{} {}", fd.sig, fd.what)).or_default() += 1;
                        }
                        return Ok(());
                    }
                }
                Err((sig, msg))
            }
        }
    }

    /// Random generation with shrinking. `cases` is the total over all shards.
    pub fn prop<C, S>(
        &self,
        rep: &mut Report,
        section: &str,
        cases: u64,
        floor_nontrivial: u64,
        strategy: impl Fn() -> S + Sync,
        f: impl Fn(&C) -> Outcome + Sync,
    ) where
        S: Strategy<Value = C>,
        C: Debug + Clone + Hash + Serialize + DeserializeOwned + Send,
    {
        if !self.wants(section) {
            return;
        }
        rep.any_section = true;
        *self.current_section.lock().unwrap() = section.to_string();
        if let Some((_, v)) = &self.replay {
            self.replay_one(rep, section, v, &f);
            return;
        }
        let t0 = Instant::now();
        let stop = AtomicBool::new(false);
        let merged = Mutex::new((Stats::default(), Vec::<ViolationRec>::new()));
        // VERIF_COV_DIVISOR: tools/coverage.sh only (instrumented binaries are ~100x slower); registered checks never set it
        let per = (cases / cov_divisor()).div_ceil(SHARDS).max(1);
        std::thread::scope(|sc| {
            for shard in 0..SHARDS {
                let (stop, merged, strategy, f) = (&stop, &merged, &strategy, &f);
                sc.spawn(move || {
                    let mut stats = Stats::default();
                    let failed = Cell::new(false);
                    let cfg = Config {
                        cases: per as u32,
                        failure_persistence: None,
                        max_shrink_iters: self.max_shrink_iters.load(Ordering::Relaxed),
                        max_global_rejects: 1 << 20,
                        ..Config::default()
                    };
                    let mut runner = TestRunner::new_with_rng(cfg, rng_for(self.seed, section, shard));
                    let stats_cell = RefCell::new(&mut stats);
                    let last_fail = RefCell::new(None::<(String, String)>);
                    let res = runner.run(&strategy(), |case| {
                        if !failed.get() && stop.load(Ordering::Relaxed) {
                            return Ok(());
                        }
                        let counting = !failed.get();
                        let r = self.judge(&case, f, &mut stats_cell.borrow_mut(), counting);
                        match r {
                            Ok(()) => Ok(()),
                            Err((sig, msg)) => {
                                failed.set(true);
                                stop.store(true, Ordering::Relaxed);
                                *last_fail.borrow_mut() = Some((sig.clone(), msg.clone()));
                                Err(TestCaseError::fail(format!("{sig}: {msg}")))
                            }
                        }
                    });
                    let mut viol = vec![];
                    match res {
                        Ok(()) => {}
                        Err(TestError::Fail(_, minimal)) => {
                            // re-run the minimal case to get its own message
                            let mut dummy = Stats::default();
                            let (sig, msg) = match self.judge(&minimal, f, &mut dummy, false) {
                                Err(x) => x,
                                Ok(()) => last_fail.borrow().clone().unwrap_or_default(),
                            };
                            viol.push(ViolationRec {
                                section: section.to_string(),
                                sig,
                                msg,
                                case: serde_json::to_value(&minimal).unwrap_or(Value::Null),
                            });
                        }
                        Err(TestError::Abort(r)) => {
                            let mut st = stats_cell.borrow_mut();
                            st.inconclusive += 1;
                            st.inconclusive_msgs.push(format!("proptest aborted: {r}"));
                        }
                    }
                    drop(stats_cell);
                    let mut g = merged.lock().unwrap();
                    g.0.merge(stats);
                    g.1.extend(viol);
                });
            }
        });
        let (stats, viol) = merged.into_inner().unwrap();
        rep.absorb(self, section, "random+shrink (proptest)", false, stats, viol, floor_nontrivial, t0);
    }

    /// Bounded-exhaustive enumeration of `total` cases decoded from their index.
    pub fn enumerate<C>(
        &self,
        rep: &mut Report,
        section: &str,
        total: u64,
        floor_nontrivial: u64,
        nth: impl Fn(u64) -> C + Sync,
        f: impl Fn(&C) -> Outcome + Sync,
    ) where
        C: Debug + Clone + Hash + Serialize + DeserializeOwned + Send,
    {
        if !self.wants(section) {
            return;
        }
        rep.any_section = true;
        *self.current_section.lock().unwrap() = section.to_string();
        if let Some((_, v)) = &self.replay {
            self.replay_one(rep, section, v, &f);
            return;
        }
        let t0 = Instant::now();
        let merged = Mutex::new((Stats::default(), Vec::<ViolationRec>::new()));
        let threads = SHARDS;
        std::thread::scope(|sc| {
            for shard in 0..threads {
                let (merged, nth, f) = (&merged, &nth, &f);
                sc.spawn(move || {
                    let mut stats = Stats::default();
                    let mut viol = vec![];
                    let mut seen_sigs = HashSet::new();
                    let mut i = shard;
                    while i < total {
                        let case = nth(i);
                        if let Err((sig, msg)) = self.judge(&case, f, &mut stats, true) {
                            // enumeration continues: one record per distinct signature per shard
                            if seen_sigs.insert(sig.clone()) && viol.len() < 4 {
                                viol.push(ViolationRec {
                                    section: section.to_string(),
                                    sig,
                                    msg,
                                    case: serde_json::to_value(&case).unwrap_or(Value::Null),
                                });
                            }
                        }
                        i += threads * if total > 64 { cov_divisor() } else { 1 };
                    }
                    let mut g = merged.lock().unwrap();
                    g.0.merge(stats);
                    g.1.extend(viol);
                });
            }
        });
        let (stats, mut viol) = merged.into_inner().unwrap();
        // keep one per signature (smallest serialisation first)
        viol.sort_by_key(|v| (v.sig.clone(), v.case.to_string().len()));
        viol.dedup_by(|a, b| a.sig == b.sig);
        rep.absorb(self, section, "bounded-exhaustive enumeration", true, stats, viol, floor_nontrivial, t0);
    }

    fn replay_one<C>(&self, rep: &mut Report, section: &str, v: &Value, f: &impl Fn(&C) -> Outcome)
    where
        C: Debug + Clone + Hash + Serialize + DeserializeOwned,
    {
        let case: C = match serde_json::from_value(v.clone()) {
            Ok(c) => c,
            Err(e) => {
                eprintln!("replay case does not deserialize for section {section}: {e}");
                std::process::exit(3);
            }
        };
        let mut stats = Stats::default();
        let mut viol = vec![];
        let strict_ctx_result = {
            // replay is always strict: known findings do not hide anything
            slot_enter(section, || v.to_string());
            let out = match quiet_catch(|| f(&case)) {
                Ok(o) => o,
                Err(p) => Outcome::violation("panic", format!("panicked: {p}")),
            };
            slot_leave();
            stats.record(&case, &out);
            out
        };
        match strict_ctx_result.verdict {
            Verdict::Pass => println!("REPLAY section={section}: pass"),
            Verdict::Inconclusive(m) => {
                println!("REPLAY section={section}: inconclusive: {m}");
                stats.inconclusive += 1;
            }
            Verdict::Violation { sig, msg } => {
                println!("REPLAY section={section}: violation [{sig}] {msg}");
                viol.push(ViolationRec { section: section.to_string(), sig, msg, case: v.clone() });
            }
        }
        rep.absorb(self, section, "replay", false, stats, viol, 0, Instant::now());
    }

    /// Write evidence, print verdict lines, return the exit code.
    pub fn finish(&self, rep: Report) -> i32 {
        let wall = self.start.elapsed().as_secs_f64();
        let mut exit = 0;
        let replaying = self.replay.is_some();
        if !rep.any_section {
            eprintln!("no section ran for property {}", self.property);
            return 3;
        }
        // violations
        let mut nviol = 0;
        for v in &rep.violations {
            nviol += 1;
            let path = if replaying {
                PathBuf::from("(replay)")
            } else {
                let dir = PathBuf::from(format!("{}/replays", out_root()));
                std::fs::create_dir_all(&dir).ok();
                let body = json!({"property": self.property, "section": v.section, "sig": v.sig, "msg": v.msg, "seed": self.seed, "case": v.case});
                let h = hash_of(&body.to_string());
                let p = dir.join(format!("{}-{}-{:08x}.json", self.property, v.section, h as u32));
                std::fs::write(&p, serde_json::to_string_pretty(&body).unwrap()).ok();
                p
            };
            println!("VIOLATION property={} replay={}", self.property, path.display());
            println!("  section={} sig={} : {}", v.section, v.sig, first_line(&v.msg, 600));
            exit = 1;
        }
        for (k, n) in &rep.total.known_hits {
            println!("KNOWN-FINDING: property={} {} (hit {} times, cases excluded)", self.property, k, n);
        }
        let inconclusive_dominates = rep.total.evaluations > 0 && rep.total.inconclusive * 10 > rep.total.evaluations;
        if exit == 0 && !replaying && (inconclusive_dominates || !rep.floors_missed.is_empty()) {
            for m in &rep.floors_missed {
                println!("INCONCLUSIVE property={} {}", self.property, m);
            }
            if inconclusive_dominates {
                println!(
                    "INCONCLUSIVE property={} {} of {} cases inconclusive: {:?}",
                    self.property, rep.total.inconclusive, rep.total.evaluations, rep.total.inconclusive_msgs
                );
            }
            exit = 2;
        }
        if !replaying {
            let samples: Vec<Value> = rep.total.samples.iter().map(|s| s.1.clone()).collect();
            let mut coverage = json!({
                "evaluations": rep.total.evaluations,
                "distinct_nontrivial": rep.total.nontrivial.len(),
                "rule": rep.rule,
                "samples": samples,
                "classes": rep.total.classes,
                "sections": rep.sections,
                "inconclusive_cases": rep.total.inconclusive,
                "known_finding_hits": rep.total.known_hits,
                "exhaustive": rep.exhaustive_all,
            });
            for (k, v) in &rep.extra {
                coverage[k] = v.clone();
            }
            let ev = json!({
                "property_id": self.property,
                "tier": self.tier.as_str(),
                "seed": self.seed as i64,
                "level": self.level,
                "coverage": coverage,
                "assumptions": rep.assumptions,
                "wall_s": (wall * 1000.0).round() / 1000.0,
                "violations": nviol,
            });
            let dir = PathBuf::from(format!("{}/evidence", out_root()));
            std::fs::create_dir_all(&dir).ok();
            let p = dir.join(format!("{}.json", self.property));
            std::fs::write(&p, serde_json::to_string_pretty(&ev).unwrap()).expect("write evidence");
        }
        println!(
            "RESULT property={} tier={} seed={} evaluations={} distinct_nontrivial={} inconclusive={} violations={} wall={:.1}s exit={}",
            self.property,
            self.tier.as_str(),
            self.seed,
            rep.total.evaluations,
            rep.total.nontrivial.len(),
            rep.total.inconclusive,
            nviol,
            wall,
            exit
        );
        exit
    }
}

fn first_line(s: &str, cap: usize) -> String {
    let l = s.lines().next().unwrap_or("");
    if l.len() > cap {
        let mut c = cap;
        while !l.is_char_boundary(c) {
            c -= 1;
        }
        format!("{}...", &l[..c])
    } else {
        l.to_string()
    }
}

impl Report {
    #[allow(clippy::too_many_arguments)]
    fn absorb(
        &mut self,
        _ctx: &Ctx,
        section: &str,
        how: &str,
        exhaustive: bool,
        stats: Stats,
        viol: Vec<ViolationRec>,
        floor: u64,
        t0: Instant,
    ) {
        let nt = stats.nontrivial.len() as u64;
        // several shards may fail with the same root cause: keep one record per signature (the smallest case)
        let mut viol = viol;
        viol.sort_by_key(|v| (v.sig.clone(), v.case.to_string().len()));
        viol.dedup_by(|a, b| a.sig == b.sig);
        self.sections.push(json!({
            "section": section,
            "how": how,
            "exhaustive": exhaustive,
            "evaluations": stats.evaluations,
            "distinct_nontrivial": nt,
            "classes": stats.classes,
            "inconclusive": stats.inconclusive,
            "violations": viol.len(),
            "wall_s": (t0.elapsed().as_secs_f64() * 1000.0).round() / 1000.0,
        }));
        if !exhaustive {
            self.exhaustive_all = false;
        }
        if viol.is_empty() && nt < floor {
            self.floors_missed.push(format!("section {section}: only {nt} distinct non-trivial cases (floor {floor})"));
        }
        // namespacing of the non-trivial set per section
        let sh = hash_of(section);
        let mut s2 = stats;
        s2.nontrivial = s2.nontrivial.into_iter().map(|h| h ^ sh).collect();
        self.total.merge(s2);
        self.violations.extend(viol);
    }

    pub fn violation_count(&self) -> usize {
        self.violations.len()
    }
}

/// helper for `ValueTree`-free generation when a check wants plain values from a strategy
pub fn sample_from<S: Strategy>(s: &S, runner: &mut TestRunner) -> S::Value {
    s.new_tree(runner).expect("strategy").current()
}

/// monotone index mapping (keeps proptest shrinking effective)
pub fn pick_index(byte: u8, len: usize) -> usize {
    debug_assert!(len > 0);
    (byte as usize * len) >> 8
}


// ------------------------------------------------------------------ log sink
thread_local! {
    static LOG_LEVEL_TL: std::cell::Cell<u8> = const { std::cell::Cell::new(3) };
}
/// level for threads that are not harness shard threads (runtime workers of the loopback rigs): 3 = INFO
pub static LOG_LEVEL_GLOBAL: std::sync::atomic::AtomicU8 = std::sync::atomic::AtomicU8::new(3);
/// 1 ERROR .. 5 TRACE, for log statements executed on the calling thread
pub fn set_thread_log_level(l: u8) {
    LOG_LEVEL_TL.with(|c| c.set(l));
}

/// The code under test logs through `tracing`; without a subscriber the arguments of its log statements are never evaluated,
/// with one (as in the real client and server binaries) they are. This sink formats every field of every enabled event, so that a log statement that panics, blocks or misbehaves on unusual
/// data is executed as it would be in production. The level is per thread: INFO by default, TRACE for one case in eight
/// (see `Ctx::judge`).
pub fn install_log_sink() {
    use tracing::{span, Event, Metadata, Subscriber};
    struct Sink;
    struct Fmt(usize);
    impl tracing::field::Visit for Fmt {
        fn record_debug(&mut self, _field: &tracing::field::Field, value: &dyn std::fmt::Debug) {
            self.0 += format!("{value:?}").len();
        }
    }
    fn rank(l: &tracing::Level) -> u8 {
        match *l {
            tracing::Level::ERROR => 1,
            tracing::Level::WARN => 2,
            tracing::Level::INFO => 3,
            tracing::Level::DEBUG => 4,
            tracing::Level::TRACE => 5,
        }
    }
    impl Subscriber for Sink {
        fn enabled(&self, m: &Metadata<'_>) -> bool {
            // spans stay at INFO: the crate's DEBUG span of the connection task records `tokio::task::id()`, which panics when
            // the task future is polled outside a tokio task (simnet's executor, a plain block_on) - an artefact of where the
            // harness polls, noted in DESIGN.md, not a statement of any property
            // (only that span - recognised by its `task_id` field - is held back; every other DEBUG/TRACE span, including the
            // `ret` events of #[instrument], is evaluated like an event)
            if m.is_span() && rank(m.level()) > 3 && m.fields().field("task_id").is_some() {
                return false;
            }
            rank(m.level()) <= LOG_LEVEL_TL.with(|l| l.get()).max(LOG_LEVEL_GLOBAL.load(std::sync::atomic::Ordering::Relaxed))
        }
        fn register_callsite(&self, _m: &'static Metadata<'static>) -> tracing::subscriber::Interest {
            // the level differs per thread and per case: ask `enabled` every time
            tracing::subscriber::Interest::sometimes()
        }
        fn max_level_hint(&self) -> Option<tracing::level_filters::LevelFilter> {
            Some(tracing::level_filters::LevelFilter::TRACE)
        }
        fn new_span(&self, attrs: &span::Attributes<'_>) -> span::Id {
            let mut f = Fmt(0);
            attrs.record(&mut f);
            span::Id::from_u64(1)
        }
        fn record(&self, _span: &span::Id, values: &span::Record<'_>) {
            let mut f = Fmt(0);
            values.record(&mut f);
        }
        fn record_follows_from(&self, _span: &span::Id, _follows: &span::Id) {}
        fn event(&self, event: &Event<'_>) {
            let mut f = Fmt(0);
            event.record(&mut f);
            std::hint::black_box(f.0);
        }
        fn enter(&self, _span: &span::Id) {}
        fn exit(&self, _span: &span::Id) {}
    }
    let _ = tracing::subscriber::set_global_default(Sink);
}

/// Host strings that mean something to SOME layer (IP literals in every notation, bracketed literals, names with ports, case,
/// trailing dots, IDNA, control characters, maximal labels): penguin treats a target host as opaque octets everywhere below the
/// application, so every one of them must travel unchanged. Random octets practically never form one of these.
pub fn host_dictionary() -> Vec<Vec<u8>> {
    let mut v: Vec<Vec<u8>> = [
        "", "localhost", "LOCALHOST", "LocalHost", "Example.COM", "example.com", "example.com.", "EXAMPLE.com.", "127.0.0.1", "127.1", "0x7f.0.0.1", "0177.0.0.1", "2130706433", "0.0.0.0",
        "255.255.255.255", "1.2.3.4.", "001.002.003.004", "::1", "[::1]", "[::1]:80", "::", "[::]", "::ffff:1.2.3.4", "[::ffff:1.2.3.4]", "::ffff:0102:0304", "0:0:0:0:0:0:0:1", "[0:0:0:0:0:0:0:1]",
        "2001:db8::1", "[2001:db8::1]", "[2001:DB8::1]", "2001:0db8:0000:0000:0000:0000:0000:0001", "fe80::1%eth0", "[fe80::1%eth0]", "[fe80::1%25eth0]", "[]", "[", "]", "[::1", "::1]", "[[::1]]",
        "host:80", "host:", ":80", "user@host", "user:pw@host", " host", "host ", "\thost", "host\n", "host\r\n", "host\r\nX-Injected: 1", "host\0", "\0", "\0host", "a\0b", "%00", "host%20name", "%5B::1%5D",
        "xn--bcher-kva.example", "b\u{fc}cher.example", "B\u{dc}CHER.example", "\u{212a}elvin.example", "ex\u{e4}mple.com", "\u{ff45}xample.com", "http://example.com/", "example.com/path", "//example.com",
        "*.example.com", "-", ".", "..", "...", "a..b", ".example.com", "-a.example", "a-.example", "_srv._tcp.example", "0", "00", "1", "65536", "-1", "1e3", "0x10", "NaN", "null", "None", "undefined", "true",
        "unix:/tmp/sock", "/tmp/sock", "\\\\server\\share", "C:\\", "~", "$HOME", "${jndi:x}", "'", "\"", "`id`", ";", "&&", "|",
    ]
    .iter()
    .map(|s| s.as_bytes().to_vec())
    .collect();
    // octets that are not UTF-8 at all, alone and around an otherwise meaningful host
    v.push(vec![0xff]);
    v.push(vec![0xc3]);
    v.push(vec![0xff, 0xfe, b'a']);
    v.push([b"[::1]".as_slice(), &[0xff]].concat());
    v.push([&[0x80u8][..], b"[::1]"].concat());
    // maximal DNS shapes: 63-octet labels, a 253-octet and a 255-octet name
    let label = "a".repeat(63);
    v.push(label.clone().into_bytes());
    v.push(format!("{label}.{label}.{label}.{}", "b".repeat(61)).into_bytes());
    v.push(format!("{label}.{label}.{label}.{}", "b".repeat(63)).into_bytes());
    v.push("A".repeat(255).into_bytes());
    v.push(format!("[{}]", "f".repeat(253)).into_bytes());
    v
}
