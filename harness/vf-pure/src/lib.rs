pub mod backoff;
pub mod c09;
pub mod c18;
pub mod c20;
