//! C20 – CowBytes and LongChain behave exactly like a plain byte sequence.
use bytes::{Buf, Bytes};
use cow_bytes::{CowBytes, LongChain};
use proptest::prelude::*;
use serde::{Deserialize, Serialize};
use std::hash::{Hash, Hasher};
use vf_common::{quiet_catch, Ctx, Outcome, Report};

#[derive(Clone, Debug, Hash, PartialEq, Eq, Serialize, Deserialize)]
pub struct Seg {
    pub owned: bool,
    pub bytes: Vec<u8>,
}
impl Seg {
    fn cow(&self) -> CowBytes<'_> {
        if self.owned { CowBytes::Static(Bytes::from(self.bytes.clone())) } else { CowBytes::Temporary(&self.bytes) }
    }
}

/// Argument selector resolved against the current state at execution time.
#[derive(Clone, Copy, Debug, Hash, PartialEq, Eq, Serialize, Deserialize)]
pub enum Arg {
    Zero,
    /// byte offset of the k-th chunk boundary (k mapped monotonically onto 0..=nchunks)
    Boundary(u8),
    BoundaryPlus1(u8),
    BoundaryMinus1(u8),
    Total,
    TotalPlus1,
    Large,
    Raw(u16),
}

#[derive(Clone, Debug, Hash, PartialEq, Eq, Serialize, Deserialize)]
pub enum Op {
    Push(Seg),
    /// chunk index selector: Raw(n) = n, others relative to chunk count
    Insert(IdxSel, Seg),
    Pop,
    Remove(IdxSel),
    SplitTo(Arg),
    SplitOff(Arg),
    Truncate(Arg),
    Advance(Arg),
    Clear,
    Switch(u8),
}

#[derive(Clone, Copy, Debug, Hash, PartialEq, Eq, Serialize, Deserialize)]
pub enum IdxSel {
    First,
    Last,
    Len,
    LenPlus1,
    Raw(u8),
}

#[derive(Clone, Debug, Hash, Serialize, Deserialize)]
pub struct ChainCase {
    pub init: Vec<Seg>,
    pub ops: Vec<Op>,
}

struct St<'a> {
    chain: LongChain<'a>,
    model: Vec<u8>,
}

fn chunk_lens(c: &LongChain<'_>) -> Vec<usize> {
    c.as_ref().iter().map(|x| x.as_ref().len()).collect()
}

fn resolve(arg: Arg, lens: &[usize], total: usize) -> usize {
    let bounds: Vec<usize> = std::iter::once(0)
        .chain(lens.iter().scan(0usize, |acc, l| {
            *acc += l;
            Some(*acc)
        }))
        .collect();
    let pick = |k: u8| bounds[(k as usize * bounds.len()) >> 8];
    match arg {
        Arg::Zero => 0,
        Arg::Boundary(k) => pick(k),
        Arg::BoundaryPlus1(k) => pick(k) + 1,
        Arg::BoundaryMinus1(k) => pick(k).saturating_sub(1),
        Arg::Total => total,
        Arg::TotalPlus1 => total + 1,
        Arg::Large => total + 1000,
        Arg::Raw(n) => n as usize,
    }
}

fn resolve_idx(sel: IdxSel, n: usize) -> usize {
    match sel {
        IdxSel::First => 0,
        IdxSel::Last => n.saturating_sub(1),
        IdxSel::Len => n,
        IdxSel::LenPlus1 => n + 1,
        IdxSel::Raw(k) => k as usize,
    }
}

fn rebuild<'a>(model: &[u8], lens: &[usize]) -> LongChain<'a> {
    // after an accepted panic: fresh value with the pre-operation contents, same chunking where possible
    let mut c = LongChain::new();
    let mut off = 0;
    for l in lens {
        if *l > 0 && off + l <= model.len() {
            c.push(CowBytes::Static(Bytes::copy_from_slice(&model[off..off + l])));
            off += l;
        }
    }
    if off < model.len() {
        c.push(CowBytes::Static(Bytes::copy_from_slice(&model[off..])));
    }
    c
}

/// all observable invariants of one chain against its model; Err(sig,msg)
fn check_state(chain: &LongChain<'_>, model: &[u8], after: &str) -> Result<(), (String, String)> {
    let chunks = chain.as_ref();
    let cat: Vec<u8> = chunks.iter().flat_map(|c| c.as_ref().iter().copied()).collect();
    if let Some(i) = chunks.iter().position(|c| c.as_ref().is_empty()) {
        return Err((format!("empty-chunk:{after}"), format!("after {after}: chunk {i} of {} is empty (contents {:?})", chunks.len(), cat)));
    }
    if cat != model {
        return Err((format!("contents:{after}"), format!("after {after}: concatenated chunks {:?} != model {:?}", cat, model)));
    }
    let (l, r, e) = (chain.len(), chain.remaining(), chain.is_empty());
    if l != model.len() || r != model.len() || e != model.is_empty() {
        return Err((
            format!("length:{after}"),
            format!("after {after}: len()={l} remaining()={r} is_empty()={e} but the contents have {} bytes", model.len()),
        ));
    }
    let ch = chain.chunk();
    if model.is_empty() {
        if !ch.is_empty() {
            return Err((format!("chunk:{after}"), format!("after {after}: chunk() non-empty on an empty chain")));
        }
    } else if ch.is_empty() || !model.starts_with(ch) {
        return Err((format!("chunk:{after}"), format!("after {after}: chunk() = {:?} is not a non-empty prefix of {:?}", ch, model)));
    }
    // generic Buf consumption, the way bytes' default methods (copy_to_bytes, put, ...) do it: chunk() / advance(chunk.len())
    // until nothing remains. Done by hand first, so that a broken chunk()/advance() contract (an empty chunk while bytes
    // remain, remaining() not decreasing) is reported instead of looping for ever inside bytes' own loop.
    let mut cl = chain.clone();
    let got = guarded_drain(&mut cl, model.len()).map_err(|m| (format!("buf-contract:{after}"), format!("after {after}: {m} (contents {:?})", model)))?;
    if got != model || cl.remaining() != 0 {
        return Err((format!("buf-drain:{after}"), format!("after {after}: draining through Buf yields {:?} want {:?}", got, model)));
    }
    // and through the real default method (cannot loop now)
    let mut cl = chain.clone();
    let got = cl.copy_to_bytes(cl.remaining());
    if got.as_ref() != model || cl.remaining() != 0 {
        return Err((format!("buf-drain:{after}"), format!("after {after}: copy_to_bytes yields {:?} want {:?}", got, model)));
    }
    Ok(())
}

/// chunk()/advance() loop of the `Buf` contract with every step checked: Err = the contract is broken
pub fn guarded_drain<B: Buf>(b: &mut B, want: usize) -> Result<Vec<u8>, String> {
    let mut got = Vec::with_capacity(want);
    while b.has_remaining() {
        let before = b.remaining();
        let c = b.chunk();
        if c.is_empty() {
            return Err(format!("chunk() is empty although remaining() = {before}: every generic consumer of Buf (copy_to_bytes, put, writev) spins for ever here; {} bytes drained so far", got.len()));
        }
        let n = c.len();
        if n > before {
            return Err(format!("chunk() has {n} bytes but remaining() = {before}"));
        }
        got.extend_from_slice(c);
        b.advance(n);
        if b.remaining() != before - n {
            return Err(format!("advance({n}) changed remaining() from {before} to {}", b.remaining()));
        }
        if got.len() > want + 64 {
            return Err(format!("more than {} bytes drained from a buffer that should hold {want}", got.len()));
        }
    }
    Ok(got)
}

fn op_name(op: &Op) -> &'static str {
    match op {
        Op::Push(_) => "push",
        Op::Insert(..) => "insert",
        Op::Pop => "pop",
        Op::Remove(_) => "remove",
        Op::SplitTo(_) => "split_to",
        Op::SplitOff(_) => "split_off",
        Op::Truncate(_) => "truncate",
        Op::Advance(_) => "advance",
        Op::Clear => "clear",
        Op::Switch(_) => "switch",
    }
}

pub fn run_chain(case: &ChainCase) -> Outcome {
    let mut sts: Vec<St<'_>> = vec![];
    let mut c0 = LongChain::new();
    let mut m0 = vec![];
    for s in &case.init {
        if s.bytes.is_empty() {
            continue; // initial construction uses non-empty segments only
        }
        c0.push(s.cow());
        m0.extend_from_slice(&s.bytes);
    }
    sts.push(St { chain: c0, model: m0 });
    if let Err((sig, msg)) = check_state(&sts[0].chain, &sts[0].model, "init") {
        return Outcome::violation(sig, msg);
    }
    let mut cur = 0usize;
    let mut interesting_at: Option<usize> = None; // index of op that was inside-chunk split/truncate or out of range
    let mut classes: Vec<&'static str> = vec![];
    let mut nontrivial = false;
    for (step, op) in case.ops.iter().enumerate() {
        if let Op::Switch(k) = op {
            cur = (*k as usize * sts.len()) >> 8;
            continue;
        }
        if interesting_at.is_some() {
            nontrivial = true;
        }
        let lens = chunk_lens(&sts[cur].chain);
        let total = sts[cur].model.len();
        let n = lens.len();
        let name = op_name(op);
        // decide range + expected model
        let mut model = sts[cur].model.clone();
        let mut other_model: Option<Vec<u8>> = None;
        let mut expect_ret: Option<Option<Vec<u8>>> = None;
        let in_range;
        let mut inside_chunk = false;
        let bounds_has = |x: usize| {
            let mut acc = 0;
            if x == 0 {
                return true;
            }
            for l in &lens {
                acc += l;
                if acc == x {
                    return true;
                }
            }
            false
        };
        let mut resolved = 0usize;
        match op {
            Op::Push(s) => {
                in_range = !s.bytes.is_empty();
                if in_range {
                    model.extend_from_slice(&s.bytes);
                }
            }
            Op::Insert(sel, s) => {
                let i = resolve_idx(*sel, n);
                resolved = i;
                in_range = i <= n && !s.bytes.is_empty();
                if in_range {
                    let off: usize = lens[..i].iter().sum();
                    model.splice(off..off, s.bytes.iter().copied());
                }
            }
            Op::Pop => {
                in_range = true;
                if n > 0 {
                    let l = lens[n - 1];
                    let tail = model.split_off(total - l);
                    expect_ret = Some(Some(tail));
                } else {
                    expect_ret = Some(None);
                }
            }
            Op::Remove(sel) => {
                let i = resolve_idx(*sel, n);
                resolved = i;
                in_range = i < n;
                if in_range {
                    let off: usize = lens[..i].iter().sum();
                    let removed: Vec<u8> = model.drain(off..off + lens[i]).collect();
                    expect_ret = Some(Some(removed));
                }
            }
            Op::SplitTo(a) => {
                let at = resolve(*a, &lens, total);
                resolved = at;
                in_range = at <= total;
                if in_range {
                    inside_chunk = !bounds_has(at);
                    let rest = model.split_off(at);
                    other_model = Some(std::mem::replace(&mut model, rest));
                }
            }
            Op::SplitOff(a) => {
                let at = resolve(*a, &lens, total);
                resolved = at;
                in_range = at <= total;
                if in_range {
                    inside_chunk = !bounds_has(at);
                    other_model = Some(model.split_off(at));
                }
            }
            Op::Truncate(a) => {
                let len = resolve(*a, &lens, total);
                resolved = len;
                in_range = len <= total;
                if in_range {
                    inside_chunk = !bounds_has(len);
                    model.truncate(len);
                }
            }
            Op::Advance(a) => {
                let k = resolve(*a, &lens, total);
                resolved = k;
                in_range = k <= total;
                if in_range {
                    inside_chunk = !bounds_has(k);
                    model.drain(..k);
                }
            }
            Op::Clear => {
                in_range = true;
                model.clear();
            }
            Op::Switch(_) => unreachable!(),
        }
        // execute on the real value
        let st = &mut sts[cur];
        let mut ret: Option<Option<Vec<u8>>> = None;
        let mut other_chain: Option<LongChain<'_>> = None;
        let exec = quiet_catch(|| match op {
            Op::Push(s) => st.chain.push(s.cow()),
            Op::Insert(_, s) => st.chain.insert(resolved, s.cow()),
            Op::Pop => ret = Some(st.chain.pop().map(|c| c.as_ref().to_vec())),
            Op::Remove(_) => ret = Some(Some(st.chain.remove(resolved).as_ref().to_vec())),
            Op::SplitTo(_) => other_chain = Some(st.chain.split_to(resolved)),
            Op::SplitOff(_) => other_chain = Some(st.chain.split_off(resolved)),
            Op::Truncate(_) => st.chain.truncate(resolved),
            Op::Advance(_) => st.chain.advance(resolved),
            Op::Clear => st.chain.clear(),
            Op::Switch(_) => {}
        });
        let tag = if in_range { name.to_string() } else { format!("{name}-out-of-range") };
        match exec {
            Err(p) => {
                if in_range {
                    return Outcome::violation(
                        format!("panic-in-range:{name}"),
                        format!("step {step}: {name}({resolved}) panicked on a chain with chunk lengths {lens:?}: {p}"),
                    );
                }
                // accepted: rebuild from the (unchanged) model
                classes.push("out-of-range-panics");
                let m = st.model.clone();
                st.chain = rebuild(&m, &lens);
                interesting_at.get_or_insert(step);
                continue;
            }
            Ok(()) => {}
        }
        if !in_range {
            classes.push("out-of-range-returns");
            interesting_at.get_or_insert(step);
            // must be unchanged (model untouched); a returned half must be empty-consistent
            if let Some(oc) = &other_chain {
                // a split past the end that did not panic: both halves together must still be the old bytes
                let a: Vec<u8> = st.chain.as_ref().iter().flat_map(|c| c.as_ref().iter().copied()).collect();
                let b: Vec<u8> = oc.as_ref().iter().flat_map(|c| c.as_ref().iter().copied()).collect();
                let ok_unchanged = a == st.model && b.is_empty() && oc.len() == 0;
                if !ok_unchanged {
                    return Outcome::violation(
                        format!("out-of-range-changed:{name}"),
                        format!("step {step}: {name}({resolved}) past the end (total {total}) neither panicked nor left the value unchanged: self={a:?} (len {}), returned={b:?} (len {})", st.chain.len(), oc.len()),
                    );
                }
            }
            if let Err((sig, msg)) = check_state(&st.chain, &st.model, &tag) {
                return Outcome::violation(sig, format!("step {step} ({name}({resolved}), chunk lengths before {lens:?}): {msg}"));
            }
            continue;
        }
        if inside_chunk {
            classes.push("inside-chunk");
            if matches!(op, Op::SplitTo(_) | Op::SplitOff(_) | Op::Truncate(_)) {
                interesting_at.get_or_insert(step);
            }
        }
        st.model = model;
        if let Some(want) = expect_ret {
            if ret.as_ref() != Some(&want) {
                return Outcome::violation(format!("return:{name}"), format!("step {step}: {name}({resolved}) returned {ret:?} want {want:?}"));
            }
        }
        if let Err((sig, msg)) = check_state(&st.chain, &st.model, &tag) {
            return Outcome::violation(sig, format!("step {step} ({name}({resolved}), chunk lengths before {lens:?}): {msg}"));
        }
        if let (Some(oc), Some(om)) = (other_chain, other_model) {
            if let Err((sig, msg)) = check_state(&oc, &om, &format!("{name}-returned-half")) {
                return Outcome::violation(sig, format!("step {step} ({name}({resolved}), chunk lengths before {lens:?}): {msg}"));
            }
            if sts.len() < 4 {
                sts.push(St { chain: oc, model: om });
            }
        }
    }
    classes.sort();
    classes.dedup();
    Outcome::pass(nontrivial, classes)
}

// ------------------------------------------------------------ generators

fn seg() -> impl Strategy<Value = Seg> {
    (any::<bool>(), prop_oneof![8 => 0usize..=8, 1 => 9usize..=40, 1 => Just(0usize)], any::<u8>()).prop_map(|(owned, n, start)| Seg {
        owned,
        bytes: (0..n).map(|i| start.wrapping_add(i as u8)).collect(),
    })
}
fn arg() -> impl Strategy<Value = Arg> {
    prop_oneof![
        1 => Just(Arg::Zero),
        4 => any::<u8>().prop_map(Arg::Boundary),
        3 => any::<u8>().prop_map(Arg::BoundaryPlus1),
        3 => any::<u8>().prop_map(Arg::BoundaryMinus1),
        2 => Just(Arg::Total),
        2 => Just(Arg::TotalPlus1),
        1 => Just(Arg::Large),
        2 => (0u16..60).prop_map(Arg::Raw),
    ]
}
fn idx() -> impl Strategy<Value = IdxSel> {
    prop_oneof![
        2 => Just(IdxSel::First),
        2 => Just(IdxSel::Last),
        2 => Just(IdxSel::Len),
        1 => Just(IdxSel::LenPlus1),
        3 => (0u8..8).prop_map(IdxSel::Raw),
    ]
}
fn op() -> impl Strategy<Value = Op> {
    prop_oneof![
        3 => seg().prop_map(Op::Push),
        3 => (idx(), seg()).prop_map(|(i, s)| Op::Insert(i, s)),
        1 => Just(Op::Pop),
        2 => idx().prop_map(Op::Remove),
        3 => arg().prop_map(Op::SplitTo),
        3 => arg().prop_map(Op::SplitOff),
        3 => arg().prop_map(Op::Truncate),
        3 => arg().prop_map(Op::Advance),
        1 => Just(Op::Clear),
        2 => any::<u8>().prop_map(Op::Switch),
    ]
}

// bounded-exhaustive family
const EX_OPS: usize = 3 + 5 + 1 + 1 + 4 + 8 * 4 + 1 + 2; // 49
fn ex_op(k: usize) -> Op {
    let s1 = |o: bool| Seg { owned: o, bytes: vec![0xA1] };
    match k {
        0 => Op::Push(Seg { owned: false, bytes: vec![] }),
        1 => Op::Push(s1(false)),
        2 => Op::Push(Seg { owned: true, bytes: vec![0xB1, 0xB2] }),
        3..=7 => Op::Insert(IdxSel::Raw((k - 3) as u8), s1(k % 2 == 0)),
        8 => Op::Insert(IdxSel::Raw(0), Seg { owned: true, bytes: vec![] }),
        9 => Op::Pop,
        10..=13 => Op::Remove(IdxSel::Raw((k - 10) as u8)),
        14..=21 => Op::SplitTo(Arg::Raw((k - 14) as u16)),
        22..=29 => Op::SplitOff(Arg::Raw((k - 22) as u16)),
        30..=37 => Op::Truncate(Arg::Raw((k - 30) as u16)),
        38..=45 => Op::Advance(Arg::Raw((k - 38) as u16)),
        46 => Op::Clear,
        47 => Op::Switch(0),
        48 => Op::Switch(255),
        _ => unreachable!(),
    }
}
/// configurations: chunk sizes (1|2) for 0..=3 chunks, ownership pattern bits
fn ex_configs(full: bool) -> Vec<Vec<Seg>> {
    let mut v = vec![];
    for n in 0..=3usize {
        for sizes in 0..(1u32 << n) {
            let owns: Vec<u32> = if full { (0..(1u32 << n)).collect() } else { vec![0b0101 & ((1 << n) - 1)] };
            for own in owns {
                let mut segs = vec![];
                let mut ctr = 1u8;
                for i in 0..n {
                    let l = 1 + ((sizes >> i) & 1) as usize;
                    segs.push(Seg { owned: (own >> i) & 1 == 1, bytes: (0..l).map(|_| { ctr += 1; ctr }).collect() });
                }
                v.push(segs);
            }
        }
    }
    v
}

// ------------------------------------------------------------ CowBytes alone

#[derive(Clone, Debug, Hash, Serialize, Deserialize)]
pub enum COp {
    SplitTo(u8),
    SplitOff(u8),
    Truncate(u8),
    Advance(u8),
    GetU8,
    CopyToBytes(u8),
    /// `std::io::Read::read` into a buffer of that size. What reading does to the value is not specified by the statement
    /// (the listed operations are others); that the two variants cannot be told apart through it - same result, same value
    /// afterwards - is ("indistinguishable through every accessor").
    IoRead(u8),
    /// `std::io::Read::read_exact` with a buffer that may be longer than what is left
    IoReadExact(u8),
}

#[derive(Clone, Debug, Hash, Serialize, Deserialize)]
pub struct CowCase {
    pub data: Vec<u8>,
    pub other: Vec<u8>,
    pub ops: Vec<COp>,
}

fn h<T: Hash + ?Sized>(t: &T) -> u64 {
    let mut s = std::collections::hash_map::DefaultHasher::new();
    t.hash(&mut s);
    s.finish()
}

fn cow_observe(c: &CowBytes<'_>, model: &[u8], other: &[u8], who: &str) -> Result<(), (String, String)> {
    macro_rules! ck {
        ($name:expr, $got:expr, $want:expr) => {
            let (g, w) = ($got, $want);
            if g != w {
                return Err((format!("cow-accessor:{}", $name), format!("{who}: {} = {:?}, a byte vector gives {:?} (contents {:?})", $name, g, w, model)));
            }
        };
    }
    ck!("len", c.len(), model.len());
    ck!("is_empty", c.is_empty(), model.is_empty());
    ck!("as_ref", c.as_ref(), model);
    ck!("deref", &c[..], model);
    ck!("remaining", c.remaining(), model.len());
    ck!("chunk", c.chunk(), model);
    let o_b = CowBytes::Temporary(other);
    let o_s = CowBytes::Static(Bytes::copy_from_slice(other));
    ck!("eq-cow-temp", *c == o_b, model == other);
    ck!("eq-cow-static", *c == o_s, model == other);
    ck!("cmp-cow-temp", c.partial_cmp(&o_b), model.partial_cmp(other));
    ck!("cmp-cow-static", c.partial_cmp(&o_s), model.partial_cmp(other));
    ck!("eq-slice", *c == *other, model == other);
    ck!("cmp-slice", c.partial_cmp(other), model.partial_cmp(other));
    let ob = Bytes::copy_from_slice(other);
    ck!("eq-bytes", *c == ob, model == other);
    ck!("cmp-bytes", c.partial_cmp(&ob), model.partial_cmp(other));
    ck!("eq-vec", *c == other.to_vec(), model == other);
    if other.len() >= 3 {
        let arr: &[u8; 3] = other[..3].try_into().unwrap();
        ck!("eq-array", *c == arr, model == &arr[..]);
    }
    ck!("hash-vs-slice", h(c), h(model));
    let b: &[u8] = std::borrow::Borrow::borrow(c);
    ck!("borrow", b, model);
    let hexl: String = model.iter().map(|x| format!("{x:02x}")).collect();
    let hexu: String = model.iter().map(|x| format!("{x:02X}")).collect();
    ck!("lowerhex", format!("{c:x}"), hexl);
    ck!("upperhex", format!("{c:X}"), hexu);
    ck!("into_static", c.clone().into_static().to_vec(), model.to_vec());
    ck!("clone-eq", c.clone() == *c, true);
    Ok(())
}

pub fn run_cow(case: &CowCase) -> Outcome {
    let mut model = case.data.clone();
    let mut t = CowBytes::Temporary(&case.data);
    let mut s = CowBytes::Static(Bytes::from(case.data.clone()));
    let mut splits = 0;
    for (step, op) in std::iter::once(None).chain(case.ops.iter().map(Some)).enumerate() {
        if let Some(op) = op {
            let n = model.len();
            let at = |k: u8| (k as usize * (n + 1)) >> 8; // always in range 0..=n
            let (mut rt, mut rs, mut rm): (Option<Vec<u8>>, Option<Vec<u8>>, Option<Vec<u8>>) = (None, None, None);
            let mut contract: Option<String> = None;
            let mut io_results: Option<(String, String)> = None;
            let r = quiet_catch(|| match op {
                COp::IoRead(k) | COp::IoReadExact(k) => {
                    use std::io::Read;
                    let len = (*k as usize) % 24;
                    let exact = matches!(op, COp::IoReadExact(_));
                    let mut go = |c: &mut CowBytes<'_>| {
                        let mut buf = vec![0xa5u8; len];
                        if exact {
                            format!("{:?} buf={:02x?}", c.read_exact(&mut buf).map_err(|e| e.kind()), buf)
                        } else {
                            format!("{:?} buf={:02x?}", c.read(&mut buf).map_err(|e| e.kind()), buf)
                        }
                    };
                    io_results = Some((go(&mut t), go(&mut s)));
                    // no model of what reading consumes: the byte-vector model follows the borrowed variant, the owned one must agree
                    model = t.as_ref().to_vec();
                }
                COp::SplitTo(k) => {
                    let a = at(*k);
                    rt = Some(t.split_to(a).as_ref().to_vec());
                    rs = Some(s.split_to(a).as_ref().to_vec());
                    let rest = model.split_off(a);
                    rm = Some(std::mem::replace(&mut model, rest));
                }
                COp::SplitOff(k) => {
                    let a = at(*k);
                    rt = Some(t.split_off(a).as_ref().to_vec());
                    rs = Some(s.split_off(a).as_ref().to_vec());
                    rm = Some(model.split_off(a));
                }
                COp::Truncate(k) => {
                    let a = at(*k);
                    t.truncate(a);
                    s.truncate(a);
                    model.truncate(a);
                }
                COp::Advance(k) => {
                    let a = at(*k);
                    t.advance(a);
                    s.advance(a);
                    model.drain(..a);
                }
                COp::GetU8 => {
                    if n > 0 {
                        rt = Some(vec![t.get_u8()]);
                        rs = Some(vec![s.get_u8()]);
                        rm = Some(vec![model.remove(0)]);
                    }
                }
                COp::CopyToBytes(k) => {
                    let a = at(*k);
                    // (contract checked on clones first so that the default copy_to_bytes below cannot spin)
                    for probe in [&t, &s] {
                        let mut c = probe.clone();
                        if let Err(m) = guarded_drain(&mut c, n) {
                            contract = Some(m);
                        }
                    }
                    if contract.is_none() {
                        rt = Some(t.copy_to_bytes(a).to_vec());
                        rs = Some(s.copy_to_bytes(a).to_vec());
                        rm = Some(model.drain(..a).collect());
                    }
                }
            });
            if let Err(p) = r {
                return Outcome::violation("cow-panic-in-range", format!("step {step}: {op:?} panicked in range: {p}"));
            }
            if let Some(m) = contract {
                return Outcome::violation("cow-buf-contract", format!("step {step}: {op:?}: {m}"));
            }
            if let Some((a, b)) = &io_results {
                if a != b {
                    return Outcome::violation("cow-variants-differ:io-read", format!("step {step}: {op:?} on the borrowed variant gives {a}, on the owned variant {b}"));
                }
            }
            if rt != rm || rs != rm {
                return Outcome::violation("cow-return", format!("step {step}: {op:?} returned temp={rt:?} static={rs:?} model={rm:?}"));
            }
            splits += 1;
        }
        for (c, who) in [(&t, "Temporary"), (&s, "Static")] {
            if let Err((sig, msg)) = cow_observe(c, &model, &case.other, who) {
                return Outcome::violation(sig, format!("after step {step}: {msg}"));
            }
        }
        if t != s || h(&t) != h(&s) || t.partial_cmp(&s) != Some(std::cmp::Ordering::Equal) {
            return Outcome::violation("cow-variants-differ", format!("after step {step}: Temporary and Static variants are distinguishable (==, hash or cmp)"));
        }
    }
    Outcome::pass(splits >= 2, vec![if case.other == case.data { "cmp-equal" } else { "cmp-different" }])
}

pub fn run(ctx: &Ctx, rep: &mut Report) {
    rep.rule = "LongChain: operation histories (push/insert/pop/remove/split_to/split_off/truncate/advance/clear, both halves of every split kept and operated on) \
                with arguments at, inside and one past every chunk boundary, checked after every step against a Vec<u8> model; non-trivial = a split/truncate strictly \
                inside a chunk or an out-of-range argument, followed by at least one more operation. CowBytes: byte string + in-range op list applied to both variants; \
                non-trivial = at least two mutating ops. Distinct = distinct case value."
        .into();
    rep.assumptions = vec![
        "model: plain Vec<u8>; chunk-index operations are mapped to byte ranges through the chunk lengths the chain itself reports before the operation".into(),
        "out-of-range (index/length past the end, empty segment): a panic is accepted, otherwise the value must be unchanged and consistent".into(),
        "impl std::io::Read for CowBytes: what reading consumes is not among the listed operations and is not asserted; that both variants give the same result and are the same value afterwards is".into(),
        "built with debug-assertions off, so pbuf.rs verify_invariants does not mask wrong values with a debug panic".into(),
    ];
    let t = ctx.tier;
    ctx.prop(
        rep,
        "chain-random",
        t.pick(300_000, 4_000_000),
        500,
        || (prop::collection::vec(seg(), 0..=5), prop::collection::vec(op(), 1..=t.pick(24, 40))).prop_map(|(init, ops)| ChainCase { init, ops }),
        run_chain,
    );
    let cfgs = ex_configs(t == vf_common::Tier::Thorough);
    let per_cfg: u64 = (1..=3u32).map(|l| (EX_OPS as u64).pow(l)).sum();
    let total = cfgs.len() as u64 * per_cfg;
    ctx.enumerate(
        rep,
        "chain-exhaustive",
        total,
        500,
        |i| {
            let cfg = &cfgs[(i / per_cfg) as usize];
            let mut r = i % per_cfg;
            let mut len = 1u32;
            loop {
                let n = (EX_OPS as u64).pow(len);
                if r < n {
                    break;
                }
                r -= n;
                len += 1;
            }
            let mut ops = vec![];
            for _ in 0..len {
                ops.push(ex_op((r % EX_OPS as u64) as usize));
                r /= EX_OPS as u64;
            }
            ChainCase { init: cfg.clone(), ops }
        },
        run_chain,
    );
    ctx.prop(
        rep,
        "cowbytes",
        t.pick(150_000, 2_000_000),
        200,
        || {
            let data = prop::collection::vec(any::<u8>(), 0..24);
            (data, prop_oneof![1 => Just(None), 1 => prop::collection::vec(any::<u8>(), 0..24).prop_map(Some)], prop::collection::vec(
                prop_oneof![
                    any::<u8>().prop_map(COp::SplitTo),
                    any::<u8>().prop_map(COp::SplitOff),
                    any::<u8>().prop_map(COp::Truncate),
                    any::<u8>().prop_map(COp::Advance),
                    Just(COp::GetU8),
                    any::<u8>().prop_map(COp::CopyToBytes),
                    any::<u8>().prop_map(COp::IoRead),
                    any::<u8>().prop_map(COp::IoReadExact),
                ],
                0..6,
            ))
                .prop_map(|(data, other, ops)| CowCase { other: other.unwrap_or_else(|| data.clone()), data, ops })
        },
        run_cow,
    );
}
