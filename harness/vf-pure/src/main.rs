use vf_common::Ctx;

fn main() {
    let ctx = Ctx::from_args(|_| "exploration");
    let mut rep = ctx.report();
    match ctx.property.as_str() {
        "C09" => vf_pure::c09::run(&ctx, &mut rep),
        "C18" => vf_pure::c18::run(&ctx, &mut rep),
        "C20" => vf_pure::c20::run(&ctx, &mut rep),
        "BACKOFF" => vf_pure::backoff::run(&ctx, &mut rep),
        p => {
            eprintln!("vf-pure does not serve property {p}");
            std::process::exit(3);
        }
    }
    std::process::exit(ctx.finish(rep));
}
