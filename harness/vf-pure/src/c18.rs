//! C18 – SOCKS4/4a/5 messages are parsed and produced exactly per the RFCs.
use bytes::Bytes;
use penguin_socks::{v4, v5};
use proptest::prelude::*;
use serde::{Deserialize, Serialize};
use std::future::Future;
use std::net::{Ipv4Addr, Ipv6Addr, SocketAddr, SocketAddrV4, SocketAddrV6};
use std::pin::Pin;
use std::task::{Context, Poll};
use tokio::io::{AsyncBufRead, AsyncRead, AsyncWrite, ReadBuf};
use vf_common::{quiet_catch, Ctx, Outcome, Report};
use vf_ref::socks::{self as rs, Addr5};

/// In-memory stream: serves `data` in the given chunk sizes, then EOF or Pending forever; records writes.
pub struct ChunkedIo {
    data: Vec<u8>,
    pos: usize,
    chunks: Vec<u8>,
    chunk_i: usize,
    cur_left: usize,
    pending_at_end: bool,
    pub written: Vec<u8>,
    pub flushed: usize,
}

impl ChunkedIo {
    pub fn new(data: Vec<u8>, chunks: Vec<u8>, pending_at_end: bool) -> Self {
        Self { data, pos: 0, chunks, chunk_i: 0, cur_left: 0, pending_at_end, written: vec![], flushed: 0 }
    }
    fn next_chunk(&mut self) -> usize {
        if self.cur_left == 0 {
            let c = if self.chunks.is_empty() { 255 } else { self.chunks[self.chunk_i % self.chunks.len()] };
            self.chunk_i += 1;
            self.cur_left = (c as usize).max(1);
        }
        self.cur_left
    }
    pub fn consumed(&self) -> usize {
        self.pos
    }
}

impl AsyncRead for ChunkedIo {
    fn poll_read(mut self: Pin<&mut Self>, _cx: &mut Context<'_>, buf: &mut ReadBuf<'_>) -> Poll<std::io::Result<()>> {
        if self.pos >= self.data.len() {
            return if self.pending_at_end { Poll::Pending } else { Poll::Ready(Ok(())) };
        }
        let n = self.next_chunk().min(self.data.len() - self.pos).min(buf.remaining());
        let p = self.pos;
        buf.put_slice(&self.data[p..p + n]);
        self.pos += n;
        self.cur_left -= n.min(self.cur_left);
        Poll::Ready(Ok(()))
    }
}
impl AsyncBufRead for ChunkedIo {
    fn poll_fill_buf(self: Pin<&mut Self>, _cx: &mut Context<'_>) -> Poll<std::io::Result<&[u8]>> {
        let me = self.get_mut();
        if me.pos >= me.data.len() {
            return if me.pending_at_end { Poll::Pending } else { Poll::Ready(Ok(&[])) };
        }
        let n = me.next_chunk().min(me.data.len() - me.pos);
        Poll::Ready(Ok(&me.data[me.pos..me.pos + n]))
    }
    fn consume(mut self: Pin<&mut Self>, amt: usize) {
        self.pos += amt;
        self.cur_left -= amt.min(self.cur_left);
    }
}
impl AsyncWrite for ChunkedIo {
    fn poll_write(mut self: Pin<&mut Self>, _cx: &mut Context<'_>, buf: &[u8]) -> Poll<std::io::Result<usize>> {
        // partial writes: at most 3 bytes at a time
        let n = buf.len().min(3);
        self.written.extend_from_slice(&buf[..n]);
        Poll::Ready(Ok(n))
    }
    fn poll_flush(mut self: Pin<&mut Self>, _cx: &mut Context<'_>) -> Poll<std::io::Result<()>> {
        self.flushed = self.written.len();
        Poll::Ready(Ok(()))
    }
    fn poll_shutdown(self: Pin<&mut Self>, _cx: &mut Context<'_>) -> Poll<std::io::Result<()>> {
        Poll::Ready(Ok(()))
    }
}

/// Poll a future a bounded number of times with a no-op waker. None = still pending.
pub fn drive<F: Future>(f: F) -> Option<F::Output> {
    let mut f = std::pin::pin!(f);
    let w = std::task::Waker::noop();
    let mut cx = Context::from_waker(w);
    for _ in 0..8 {
        if let Poll::Ready(v) = f.as_mut().poll(&mut cx) {
            return Some(v);
        }
    }
    None
}

#[derive(Clone, Debug, Hash, Serialize, Deserialize)]
pub enum Req {
    V5 { ver: u8, cmd: u8, rsv: u8, addr: Addr5S, port: u16 },
    V5BadAtyp { cmd: u8, rsv: u8, atyp: u8, tail: Vec<u8> },
    V4 { cmd: u8, port: u16, ip: [u8; 4], userid: Vec<u8> },
    V4a { cmd: u8, port: u16, x: u8, userid: Vec<u8>, domain: Vec<u8> },
    Auth { methods: Vec<u8> },
}

#[derive(Clone, Debug, Hash, PartialEq, Eq, Serialize, Deserialize)]
pub enum Addr5S {
    V4([u8; 4]),
    Domain(Vec<u8>),
    V6([u8; 16]),
}
impl Addr5S {
    fn r(&self) -> Addr5 {
        match self {
            Addr5S::V4(a) => Addr5::V4(*a),
            Addr5S::Domain(d) => Addr5::Domain(d.clone()),
            Addr5S::V6(a) => Addr5::V6(*a),
        }
    }
}

#[derive(Clone, Debug, Hash, Serialize, Deserialize)]
pub struct ReqCase {
    pub req: Req,
    pub trailing: Vec<u8>,
    pub chunks: Vec<u8>,
    /// None = full request; Some(k) = cut to a proper prefix (k mapped monotonically onto 0..len)
    pub cut: Option<u16>,
    pub pending_at_end: bool,
}

fn wire(req: &Req) -> Vec<u8> {
    match req {
        Req::V5 { ver, cmd, rsv, addr, port } => rs::v5_request(*ver, *cmd, *rsv, &addr.r(), *port),
        Req::V5BadAtyp { cmd, rsv, atyp, tail } => {
            let mut v = vec![5, *cmd, *rsv, *atyp];
            v.extend_from_slice(tail);
            v
        }
        Req::V4 { cmd, port, ip, userid } => rs::v4_request_after_vn(*cmd, *port, *ip, userid, None),
        Req::V4a { cmd, port, x, userid, domain } => rs::v4_request_after_vn(*cmd, *port, [0, 0, 0, *x], userid, Some(domain)),
        Req::Auth { methods } => {
            let mut v = vec![methods.len() as u8];
            v.extend_from_slice(methods);
            v
        }
    }
}

type Parsed = Result<(u8, Vec<u8>, u16), String>;

fn call(req: &Req, io: &mut ChunkedIo) -> Result<Option<Parsed>, String> {
    // returns Ok(None) when the future is still pending
    quiet_catch(|| match req {
        Req::V5 { .. } | Req::V5BadAtyp { .. } => drive(v5::read_request(io)).map(|r| r.map_err(|e| format!("{e:?}"))),
        Req::V4 { .. } | Req::V4a { .. } => drive(v4::read_request(io)).map(|r| r.map_err(|e| format!("{e:?}"))),
        Req::Auth { .. } => drive(v5::read_auth_methods(io)).map(|r| r.map(|m| (0u8, m, 0u16)).map_err(|e| format!("{e:?}"))),
    })
}

pub fn check_req(c: &ReqCase) -> Outcome {
    let full = wire(&c.req);
    let mut classes: Vec<&'static str> = vec![];
    let mut nontrivial = false;
    let kind = match &c.req {
        Req::V5 { addr, .. } => match addr {
            Addr5S::V4(_) => "v5-ipv4",
            Addr5S::Domain(d) => {
                if matches!(d.len(), 0 | 1 | 255) {
                    nontrivial = true;
                }
                "v5-domain"
            }
            Addr5S::V6(_) => {
                nontrivial = true;
                "v5-ipv6"
            }
        },
        Req::V5BadAtyp { .. } => "v5-bad-atyp",
        Req::V4 { userid, .. } => {
            if matches!(userid.len(), 0 | 255) {
                nontrivial = true;
            }
            "v4"
        }
        Req::V4a { userid, domain, .. } => {
            if matches!(domain.len(), 0 | 1 | 255) || matches!(userid.len(), 0 | 255) {
                nontrivial = true;
            }
            "v4a"
        }
        Req::Auth { .. } => "auth-methods",
    };
    classes.push(kind);
    // chunking splits a multi-byte field?
    if c.chunks.iter().any(|x| *x == 1) {
        classes.push("1-byte-chunks");
        nontrivial = true;
    }
    match c.cut {
        None => {
            let mut data = full.clone();
            data.extend_from_slice(&c.trailing);
            let mut io = ChunkedIo::new(data, c.chunks.clone(), c.pending_at_end);
            let got = match call(&c.req, &mut io) {
                Err(p) => return Outcome::violation(format!("req-panic:{kind}"), format!("reader panicked on {full:02x?}: {p}")),
                Ok(None) => return Outcome::violation(format!("req-stuck:{kind}"), format!("reader still pending although the whole request {full:02x?} was supplied")),
                Ok(Some(g)) => g,
            };
            classes.push("complete");
            match &c.req {
                Req::V5 { ver, cmd, addr, port, .. } => {
                    if *ver != 5 {
                        classes.push("bad-version");
                        if got.is_ok() {
                            return Outcome::violation("v5-accepts-bad-version", format!("request with VER={ver} accepted: {got:?}"));
                        }
                        return Outcome::pass(true, classes);
                    }
                    match got {
                        Err(e) => return Outcome::violation(format!("req-rejected:{kind}"), format!("well-formed SOCKS5 request {full:02x?} rejected: {e}")),
                        Ok((gc, gh, gp)) => {
                            if gc != *cmd || gp != *port || !rs::host_matches(&addr.r(), &gh) {
                                return Outcome::violation(
                                    format!("req-fields:{kind}"),
                                    format!("request {full:02x?}: got (cmd {gc}, host {:?}, port {gp}), RFC 1928 assigns (cmd {cmd}, {addr:?}, port {port})", String::from_utf8_lossy(&gh)),
                                );
                            }
                        }
                    }
                    if !io.written.is_empty() {
                        return Outcome::violation("req-unexpected-write", format!("reader wrote {:02x?} for a well-formed request", io.written));
                    }
                }
                Req::V5BadAtyp { atyp, .. } => {
                    if got.is_ok() {
                        return Outcome::violation("v5-accepts-bad-atyp", format!("ATYP {atyp} accepted: {got:?}"));
                    }
                    let want = rs::v5_reply(8, SocketAddr::V4(SocketAddrV4::new(Ipv4Addr::UNSPECIFIED, 0)));
                    if io.written != want {
                        return Outcome::violation("v5-bad-atyp-reply", format!("unknown ATYP {atyp}: wrote {:02x?}, RFC 1928 'address type not supported' reply is {want:02x?}", io.written));
                    }
                    return Outcome::pass(true, classes);
                }
                Req::V4 { cmd, port, ip, .. } => match got {
                    Err(e) => return Outcome::violation("req-rejected:v4", format!("well-formed SOCKS4 request {full:02x?} rejected: {e}")),
                    Ok((gc, gh, gp)) => {
                        if gc != *cmd || gp != *port || !rs::host_matches(&Addr5::V4(*ip), &gh) {
                            return Outcome::violation("req-fields:v4", format!("request {full:02x?}: got (cmd {gc}, host {:?}, port {gp})", String::from_utf8_lossy(&gh)));
                        }
                    }
                },
                Req::V4a { cmd, port, domain, .. } => match got {
                    Err(e) => return Outcome::violation("req-rejected:v4a", format!("well-formed SOCKS4a request {full:02x?} rejected: {e}")),
                    Ok((gc, gh, gp)) => {
                        if gc != *cmd || gp != *port || gh != *domain {
                            return Outcome::violation("req-fields:v4a", format!("request {full:02x?}: got (cmd {gc}, host {gh:02x?}, port {gp}) want domain {domain:02x?}"));
                        }
                    }
                },
                Req::Auth { methods } => match got {
                    Err(e) => return Outcome::violation("req-rejected:auth", format!("method list rejected: {e}")),
                    Ok((_, m, _)) => {
                        if m != *methods {
                            return Outcome::violation("req-fields:auth", format!("methods {m:?} want {methods:?}"));
                        }
                    }
                },
            }
            if io.consumed() != full.len() {
                return Outcome::violation(
                    format!("req-consumed:{kind}"),
                    format!("request of {} bytes ({full:02x?}) but the reader consumed {} bytes (trailing {:02x?})", full.len(), io.consumed(), c.trailing),
                );
            }
        }
        Some(k) => {
            // proper prefix: 0..len-1 bytes
            let n = (k as usize * full.len()) >> 16;
            let data = full[..n].to_vec();
            classes.push("truncated");
            // inside a variable-length field?
            let var_start = match &c.req {
                Req::V5 { addr: Addr5S::Domain(_), .. } => Some(5),
                Req::V4 { .. } | Req::V4a { .. } => Some(7),
                Req::Auth { .. } => Some(1),
                _ => None,
            };
            if var_start.is_some_and(|s| n > s) {
                classes.push("cut-inside-variable-field");
                nontrivial = true;
            }
            let mut io = ChunkedIo::new(data.clone(), c.chunks.clone(), c.pending_at_end);
            match call(&c.req, &mut io) {
                Err(p) => return Outcome::violation(format!("trunc-panic:{kind}"), format!("reader panicked on truncated {data:02x?}: {p}")),
                Ok(None) => {
                    if !c.pending_at_end {
                        return Outcome::violation(format!("trunc-stuck:{kind}"), format!("reader pending although the input {data:02x?} ended with EOF"));
                    }
                    classes.push("keeps-waiting");
                }
                Ok(Some(Ok(g))) => {
                    // a bad-ATYP/bad-version request may legitimately fail early, but never succeed
                    return Outcome::violation(
                        format!("trunc-accepted:{kind}"),
                        format!("request {full:02x?} cut to its first {n} bytes {data:02x?} was accepted as {:?}", (g.0, String::from_utf8_lossy(&g.1).to_string(), g.2)),
                    );
                }
                Ok(Some(Err(_))) => {
                    if c.pending_at_end {
                        // only legitimate when the error does not depend on the missing bytes (bad version / bad atyp seen already)
                        let early = matches!(&c.req, Req::V5 { ver, .. } if *ver != 5 && n >= 1) || matches!(&c.req, Req::V5BadAtyp { .. } if n >= 4);
                        if !early {
                            return Outcome::violation(format!("trunc-error-while-waiting:{kind}"), format!("reader failed on {data:02x?} although more input could still arrive"));
                        }
                    }
                    classes.push("errors");
                }
            }
        }
    }
    Outcome::pass(nontrivial, classes)
}

// ------------------------------------------------------------ replies and UDP header

#[derive(Clone, Debug, Hash, Serialize, Deserialize)]
pub enum SockAddrS {
    V4([u8; 4], u16),
    V6([u8; 16], u16),
}
impl SockAddrS {
    fn sa(&self) -> SocketAddr {
        match self {
            SockAddrS::V4(a, p) => SocketAddr::V4(SocketAddrV4::new(Ipv4Addr::from(*a), *p)),
            SockAddrS::V6(a, p) => SocketAddr::V6(SocketAddrV6::new(Ipv6Addr::from(*a), *p, 0, 0)),
        }
    }
}

#[derive(Clone, Debug, Hash, Serialize, Deserialize)]
pub enum OutCase {
    Reply5 { rep: u8, bound: SockAddrS },
    Reply5Unspec { rep: u8 },
    Reply4 { cd: u8 },
    AuthSel { method: u8 },
    UdpBuild { target: SockAddrS, data: Vec<u8> },
    UdpParse { rsv: [u8; 2], frag: u8, addr: Addr5S, port: u16, data: Vec<u8>, cut: Option<u16> },
    UdpParseBadAtyp { atyp: u8, tail: Vec<u8> },
}

pub fn check_out(c: &OutCase) -> Outcome {
    let mut io = ChunkedIo::new(vec![], vec![], false);
    match c {
        OutCase::Reply5 { rep, bound } => {
            let r = quiet_catch(|| drive(v5::write_response(&mut io, *rep, bound.sa())));
            if !matches!(r, Ok(Some(Ok(())))) {
                return Outcome::violation("reply5-failed", format!("write_response failed: {:?}", r.map(|x| x.map(|y| y.map_err(|e| e.to_string())))));
            }
            let want = rs::v5_reply(*rep, bound.sa());
            if io.written != want {
                return Outcome::violation("reply5-bytes", format!("write_response({rep}, {:?}) wrote {:02x?}, RFC 1928 reply is {want:02x?}", bound.sa(), io.written));
            }
            Outcome::pass(matches!(bound, SockAddrS::V6(..)), vec!["reply5"])
        }
        OutCase::Reply5Unspec { rep } => {
            let r = quiet_catch(|| drive(v5::write_response_unspecified(&mut io, *rep)));
            if !matches!(r, Ok(Some(Ok(())))) {
                return Outcome::violation("reply5u-failed", "write_response_unspecified failed".to_string());
            }
            let want = rs::v5_reply(*rep, SocketAddr::V4(SocketAddrV4::new(Ipv4Addr::UNSPECIFIED, 0)));
            if io.written != want {
                return Outcome::violation("reply5u-bytes", format!("wrote {:02x?} want {want:02x?}", io.written));
            }
            Outcome::pass(false, vec!["reply5-unspecified"])
        }
        OutCase::Reply4 { cd } => {
            let r = quiet_catch(|| drive(v4::write_response(&mut io, *cd)));
            if !matches!(r, Ok(Some(Ok(())))) {
                return Outcome::violation("reply4-failed", "v4::write_response failed".to_string());
            }
            let want = rs::v4_reply(*cd);
            if io.written != want {
                return Outcome::violation("reply4-bytes", format!("wrote {:02x?} want {want:02x?}", io.written));
            }
            Outcome::pass(false, vec!["reply4"])
        }
        OutCase::AuthSel { method } => {
            let r = quiet_catch(|| drive(v5::write_auth_method(&mut io, *method)));
            if !matches!(r, Ok(Some(Ok(())))) {
                return Outcome::violation("authsel-failed", "write_auth_method failed".to_string());
            }
            if io.written != vec![5, *method] {
                return Outcome::violation("authsel-bytes", format!("wrote {:02x?} want [05, {method:02x}]", io.written));
            }
            Outcome::pass(false, vec!["auth-selection"])
        }
        OutCase::UdpBuild { target, data } => {
            let sa = target.sa();
            let built = match quiet_catch(|| v5::udp_relay_response(sa, data)) {
                Ok(b) => b,
                Err(p) => return Outcome::violation("udp-build-panic", p),
            };
            // as a conforming client parses it
            match rs::parse_udp_datagram(&built) {
                Err(e) => {
                    return Outcome::violation("udp-build-malformed", format!("udp_relay_response({sa}, {} bytes) = {:02x?}: a conforming RFC 1928 client cannot parse it: {e}", data.len(), &built[..built.len().min(28)]));
                }
                Ok((a, p, d)) => {
                    if a != rs::addr_of_socket(sa) || p != sa.port() || d != *data {
                        return Outcome::violation(
                            "udp-build-fields",
                            format!("udp_relay_response({sa}, ..) = {:02x?} parses (RFC 1928 §7) to ({a:?}, {p}, {} bytes) instead of the target/payload", &built[..built.len().min(28)], d.len()),
                        );
                    }
                }
            }
            // and through the crate's own parser
            match quiet_catch(|| v5::parse_udp_relay_header(Bytes::from(built.clone()))) {
                Ok(Ok((h, p, d))) => {
                    if !rs::host_matches(&rs::addr_of_socket(sa), &h) || p != sa.port() || d.as_ref() != data.as_slice() {
                        return Outcome::violation("udp-build-own-roundtrip", format!("own parser reads it back as ({:?}, {p}, {} bytes)", String::from_utf8_lossy(&h), d.len()));
                    }
                }
                other => return Outcome::violation("udp-build-own-roundtrip", format!("own parser fails on own output: {:?}", other.map(|x| x.map_err(|e| e.to_string())))),
            }
            Outcome::pass(data.len() <= 3 || matches!(target, SockAddrS::V6(..)), vec![if matches!(target, SockAddrS::V6(..)) { "udp-build-v6" } else { "udp-build-v4" }])
        }
        OutCase::UdpParse { rsv, frag, addr, port, data, cut } => {
            let full = rs::udp_datagram(*rsv, *frag, &addr.r(), *port, data);
            let header_len = full.len() - data.len();
            let (input, truncated) = match cut {
                Some(k) => {
                    let n = (*k as usize * header_len) >> 16; // proper prefix of the header
                    (full[..n].to_vec(), true)
                }
                None => (full.clone(), false),
            };
            let got = match quiet_catch(|| v5::parse_udp_relay_header(Bytes::from(input.clone()))) {
                Ok(g) => g,
                Err(p) => return Outcome::violation("udp-parse-panic", format!("parse_udp_relay_header panicked on {input:02x?}: {p}")),
            };
            if truncated {
                if let Ok((h, p, d)) = &got {
                    return Outcome::violation("udp-parse-accepts-truncated", format!("header cut to {input:02x?} accepted as ({h:?}, {p}, {} bytes)", d.len()));
                }
                return Outcome::pass(true, vec!["udp-parse-truncated"]);
            }
            if *frag != 0 {
                if got.is_ok() {
                    return Outcome::violation("udp-parse-accepts-frag", format!("FRAG={frag} accepted"));
                }
                return Outcome::pass(true, vec!["udp-parse-frag"]);
            }
            match got {
                Err(e) => Outcome::violation("udp-parse-rejects", format!("well-formed relay request {:02x?} rejected: {e}", &full[..header_len])),
                Ok((h, p, d)) => {
                    if !rs::host_matches(&addr.r(), &h) || p != *port || d.as_ref() != data.as_slice() {
                        return Outcome::violation("udp-parse-fields", format!("relay request {:02x?}: got ({:?}, {p}, {} bytes)", &full[..header_len], String::from_utf8_lossy(&h), d.len()));
                    }
                    let nt = matches!(addr, Addr5S::V6(_)) || matches!(addr, Addr5S::Domain(dm) if matches!(dm.len(), 0 | 1 | 255)) || data.is_empty();
                    Outcome::pass(nt, vec!["udp-parse-ok"])
                }
            }
        }
        OutCase::UdpParseBadAtyp { atyp, tail } => {
            let mut input = vec![0, 0, 0, *atyp];
            input.extend_from_slice(tail);
            match quiet_catch(|| v5::parse_udp_relay_header(Bytes::from(input.clone()))) {
                Err(p) => Outcome::violation("udp-parse-panic", format!("panicked on {input:02x?}: {p}")),
                Ok(Ok(_)) => Outcome::violation("udp-parse-accepts-bad-atyp", format!("ATYP {atyp} accepted")),
                Ok(Err(_)) => Outcome::pass(true, vec!["udp-parse-bad-atyp"]),
            }
        }
    }
}

// ------------------------------------------------------------ generators

fn nonzero_bytes(max: usize) -> impl Strategy<Value = Vec<u8>> {
    // lengths biased to the boundaries of the 0..=255 range as well as short strings
    prop_oneof![
        5 => prop::collection::vec(1u8..=255, 0..=max.min(64)),
        2 => prop::sample::select(vec![0usize, 1, 2, 63, 64, 127, 128, 253, 254, 255]).prop_flat_map(move |n| prop::collection::vec(1u8..=255, n.min(max)..=n.min(max))),
        2 => prop::collection::vec(1u8..=255, 0..=max),
    ]
}
fn domain() -> impl Strategy<Value = Vec<u8>> {
    prop_oneof![
        3 => prop::sample::select(vec![0usize, 1, 2, 254, 255]).prop_flat_map(|n| prop::collection::vec(any::<u8>(), n..=n)),
        4 => prop::collection::vec(any::<u8>(), 0..=255),
        3 => "[a-z0-9.-]{1,40}".prop_map(String::into_bytes),
        // names that mean something to some layer (IP literals in every notation, bracketed literals, names with ports, case, dots,
        // control characters): to the SOCKS readers a DOMAINNAME is an opaque octet string and must come back verbatim
        3 => prop::sample::select(vf_common::host_dictionary().into_iter().filter(|h| h.len() <= 255).collect::<Vec<_>>()),
    ]
}
/// the same for the NUL-terminated strings of SOCKS4/4a
fn nonzero_name() -> impl Strategy<Value = Vec<u8>> {
    prop_oneof![
        4 => nonzero_bytes(255),
        1 => prop::sample::select(vf_common::host_dictionary().into_iter().filter(|h| h.len() <= 255 && !h.contains(&0)).collect::<Vec<_>>()),
    ]
}
fn addr5() -> impl Strategy<Value = Addr5S> {
    prop_oneof![
        3 => any::<[u8; 4]>().prop_map(Addr5S::V4),
        4 => domain().prop_map(Addr5S::Domain),
        3 => v6_bytes().prop_map(Addr5S::V6),
    ]
}
fn req() -> impl Strategy<Value = Req> {
    prop_oneof![
        6 => (prop_oneof![9 => Just(5u8), 1 => any::<u8>()], any::<u8>(), any::<u8>(), addr5(), any::<u16>()).prop_map(|(ver, cmd, rsv, addr, port)| Req::V5 { ver, cmd, rsv, addr, port }),
        1 => (any::<u8>(), any::<u8>(), any::<u8>().prop_filter("known atyp", |a| ![1, 3, 4].contains(a)), prop::collection::vec(any::<u8>(), 0..8)).prop_map(|(cmd, rsv, atyp, tail)| Req::V5BadAtyp { cmd, rsv, atyp, tail }),
        3 => (any::<u8>(), any::<u16>(), (1u8..=255, any::<u8>(), any::<u8>(), any::<u8>()), nonzero_bytes(255)).prop_map(|(cmd, port, ip, userid)| Req::V4 { cmd, port, ip: [ip.0, ip.1, ip.2, ip.3], userid }),
        3 => (any::<u8>(), any::<u16>(), 1u8..=255, nonzero_name(), nonzero_name()).prop_map(|(cmd, port, x, userid, domain)| Req::V4a { cmd, port, x, userid, domain }),
        1 => prop::collection::vec(any::<u8>(), 0..=255).prop_map(|methods| Req::Auth { methods }),
    ]
}
fn chunks() -> impl Strategy<Value = Vec<u8>> {
    prop_oneof![
        2 => Just(vec![]),
        2 => Just(vec![1u8]),
        3 => prop::collection::vec(1u8..=5, 1..6),
        1 => prop::collection::vec(1u8..=255, 1..4),
    ]
}
fn sockaddr() -> impl Strategy<Value = SockAddrS> {
    let p = prop_oneof![prop::sample::select(vec![0u16, 1, 80, 255, 256, 65535]), any::<u16>()];
    prop_oneof![
        (prop_oneof![any::<[u8; 4]>(), Just([0u8; 4]), Just([255u8; 4]), Just([1, 2, 3, 4]), Just([127, 0, 0, 1])], p.clone()).prop_map(|(a, p)| SockAddrS::V4(a, p)),
        (v6_bytes(), p).prop_map(|(a, p)| SockAddrS::V6(a, p)),
    ]
}
fn outcase() -> impl Strategy<Value = OutCase> {
    let data = prop_oneof![4 => prop::collection::vec(any::<u8>(), 0..=4), 3 => prop::collection::vec(any::<u8>(), 0..64), 1 => prop::collection::vec(any::<u8>(), 0..2048)];
    prop_oneof![
        3 => (any::<u8>(), sockaddr()).prop_map(|(rep, bound)| OutCase::Reply5 { rep, bound }),
        1 => any::<u8>().prop_map(|rep| OutCase::Reply5Unspec { rep }),
        1 => any::<u8>().prop_map(|cd| OutCase::Reply4 { cd }),
        1 => any::<u8>().prop_map(|method| OutCase::AuthSel { method }),
        5 => (sockaddr(), data.clone()).prop_map(|(target, data)| OutCase::UdpBuild { target, data }),
        5 => (prop_oneof![4 => Just([0u8, 0]), 1 => any::<[u8; 2]>()], prop_oneof![5 => Just(0u8), 1 => any::<u8>()], addr5(), any::<u16>(), data, prop_oneof![3 => Just(None), 2 => any::<u16>().prop_map(Some)])
            .prop_map(|(rsv, frag, addr, port, data, cut)| OutCase::UdpParse { rsv, frag, addr, port, data, cut }),
        1 => (any::<u8>().prop_filter("known atyp", |a| ![1, 3, 4].contains(a)), prop::collection::vec(any::<u8>(), 0..24)).prop_map(|(atyp, tail)| OutCase::UdpParseBadAtyp { atyp, tail }),
    ]
}

pub fn run(ctx: &Ctx, rep: &mut Report) {
    rep.rule = "requests built by an independent RFC 1928 / SOCKS4(a) grammar (all commands, RSV bytes, address types, domain length 0..=255, user-id/domain strings of 0..=255 non-NUL bytes, boundary-biased; one name in five comes from a dictionary of 130 hosts that mean something to some layer - IP literals in every notation, bracketed IPv6 literals, names with ports, letter case, trailing dots, control characters), \
                served in generated chunkings with trailing bytes, complete or cut at every possible point (EOF or pending reader); replies for all codes/addresses; UDP relay header \
                build+parse. Non-trivial = domain length in {0,1,255}, an IPv6 address, a cut inside a variable-length field, 1-byte chunking, or a UDP payload <= 3 bytes. Distinct = distinct case value."
        .into();
    rep.assumptions = vec![
        "SOCKS4 is recognised by a first DSTIP octet != 0, SOCKS4a by 0.0.0.x with x != 0 (other 0.x.y.z addresses are outside the grammar and not generated)".into(),
        "IP hosts are compared after parsing the returned text back into an address".into(),
        "v4::read_request is called after the version byte, as the client's dispatcher does".into(),
    ];
    let t = ctx.tier;
    ctx.prop(
        rep,
        "requests",
        t.pick(500_000, 6_000_000),
        500,
        || {
            (req(), prop::collection::vec(any::<u8>(), 0..6), chunks(), prop_oneof![2 => Just(None), 3 => any::<u16>().prop_map(Some)], prop::bool::weighted(0.3))
                .prop_map(|(req, trailing, chunks, cut, pending_at_end)| ReqCase { req, trailing, chunks, cut, pending_at_end })
        },
        check_req,
    );
    ctx.prop(rep, "replies-udp", t.pick(300_000, 4_000_000), 300, outcase, check_out);
    // UDP relay payloads up to and beyond what one UDP datagram can carry (the header builder / parser must not care)
    const BIGDG: [usize; 12] = [65_485, 65_486, 65_497, 65_498, 65_506, 65_507, 65_508, 65_527, 65_528, 65_535, 65_536, 70_000];
    ctx.enumerate(
        rep,
        "udp-large-payloads",
        (BIGDG.len() * 4) as u64,
        6,
        |i| {
            let n = BIGDG[(i % 12) as usize];
            let data: Vec<u8> = (0..n).map(|k| (k as u32).wrapping_mul(2_654_435_761).to_le_bytes()[2]).collect();
            let mut mapped = [0u8; 16];
            mapped[10] = 0xff;
            mapped[11] = 0xff;
            mapped[12..].copy_from_slice(&[192, 0, 2, 1]);
            match i / 12 {
                0 => OutCase::UdpBuild { target: SockAddrS::V4([192, 0, 2, 7], 4000), data },
                1 => OutCase::UdpBuild { target: SockAddrS::V6([0x20, 1, 0xd, 0xb8, 0, 0, 0, 0, 0, 0, 0, 0, 0, 0, 0, 9], 4000), data },
                2 => OutCase::UdpBuild { target: SockAddrS::V6(mapped, 4000), data },
                _ => OutCase::UdpParse { rsv: [0, 0], frag: 0, addr: Addr5S::Domain(b"big.example".to_vec()), port: 9, data, cut: None },
            }
        },
        |c| {
            let mut o = check_out(c);
            o.nontrivial = true;
            o
        },
    );
}

/// IPv6 addresses: arbitrary, and the special forms that address-handling code likes to "normalise" - unspecified, loopback,
/// all ones, IPv4-mapped (::ffff:a.b.c.d), IPv4-compatible (::a.b.c.d), NAT64 (64:ff9b::a.b.c.d), 6to4 (2002:a.b.c.d::)
fn v6_bytes() -> impl Strategy<Value = [u8; 16]> {
    let embed = |prefix: [u8; 12]| {
        any::<[u8; 4]>().prop_map(move |v| {
            let mut a = [0u8; 16];
            a[..12].copy_from_slice(&prefix);
            a[12..].copy_from_slice(&v);
            a
        })
    };
    prop_oneof![
        4 => any::<[u8; 16]>(),
        1 => Just([0u8; 16]),
        1 => Just({ let mut a = [0u8; 16]; a[15] = 1; a }),
        1 => Just([255u8; 16]),
        3 => embed([0, 0, 0, 0, 0, 0, 0, 0, 0, 0, 0xff, 0xff]),
        1 => embed([0; 12]),
        1 => embed([0, 0x64, 0xff, 0x9b, 0, 0, 0, 0, 0, 0, 0, 0]),
        1 => any::<[u8; 4]>().prop_map(|v| { let mut a = [0u8; 16]; a[0] = 0x20; a[1] = 0x02; a[2..6].copy_from_slice(&v); a }),
    ]
}
