//! C09 – wire format: encode/decode are inverse, total, and exactly PROTOCOL.md.
use bytes::Bytes;
use cow_bytes::CowBytes;
use penguin_mux::frame::{append_push_data, BindType, Frame, OpCode};
use proptest::prelude::*;
use serde::{Deserialize, Serialize};
use vf_common::{Ctx, Outcome, Report};
use vf_ref::frame::{self as rf, RFrame};

#[derive(Clone, Debug, Hash, PartialEq, Eq, Serialize, Deserialize)]
pub enum FSpec {
    Connect { id: u32, rwnd: u32, port: u16, host: Vec<u8> },
    Acknowledge { id: u32, n: u32 },
    Reset { id: u32 },
    Finish { id: u32 },
    PushBorrowed { id: u32, data: Vec<u8> },
    PushOwned { id: u32, data: Vec<u8> },
    /// (owned?, bytes) per chunk
    PushVectored { id: u32, chunks: Vec<(bool, Vec<u8>)> },
    Bind { id: u32, dgram: bool, port: u16, host: Vec<u8> },
    DatagramBorrowed { id: u32, port: u16, host: Vec<u8>, data: Vec<u8> },
    DatagramOwned { id: u32, port: u16, host: Vec<u8>, data: Vec<u8> },
}

impl FSpec {
    pub fn to_ref(&self) -> RFrame {
        match self {
            FSpec::Connect { id, rwnd, port, host } => RFrame::Connect { id: *id, rwnd: *rwnd, port: *port, host: host.clone() },
            FSpec::Acknowledge { id, n } => RFrame::Acknowledge { id: *id, n: *n },
            FSpec::Reset { id } => RFrame::Reset { id: *id },
            FSpec::Finish { id } => RFrame::Finish { id: *id },
            FSpec::PushBorrowed { id, data } | FSpec::PushOwned { id, data } => RFrame::Push { id: *id, data: data.clone() },
            FSpec::PushVectored { id, chunks } => {
                RFrame::Push { id: *id, data: chunks.iter().flat_map(|c| c.1.iter().copied()).collect() }
            }
            FSpec::Bind { id, dgram, port, host } => {
                RFrame::Bind { id: *id, btype: if *dgram { 3 } else { 1 }, port: *port, host: host.clone() }
            }
            FSpec::DatagramBorrowed { id, port, host, data } | FSpec::DatagramOwned { id, port, host, data } => {
                RFrame::Datagram { id: *id, port: *port, host: host.clone(), data: data.clone() }
            }
        }
    }
    pub fn build(&self) -> Frame<'_> {
        match self {
            FSpec::Connect { id, rwnd, port, host } => Frame::new_connect(host, *port, *id, *rwnd),
            FSpec::Acknowledge { id, n } => Frame::new_acknowledge(*id, *n),
            FSpec::Reset { id } => Frame::new_reset(*id),
            FSpec::Finish { id } => Frame::new_finish(*id),
            FSpec::PushBorrowed { id, data } => Frame::new_push(*id, data),
            FSpec::PushOwned { id, data } => Frame::new_push_owned(*id, Bytes::from(data.clone())),
            FSpec::PushVectored { id, chunks } => Frame::new_push_vectored(
                *id,
                chunks
                    .iter()
                    .map(|(owned, b)| if *owned { CowBytes::Static(Bytes::from(b.clone())) } else { CowBytes::Temporary(b.as_slice()) })
                    .collect(),
            ),
            FSpec::Bind { id, dgram, port, host } => {
                Frame::new_bind(*id, if *dgram { BindType::Datagram } else { BindType::Stream }, host, *port)
            }
            FSpec::DatagramBorrowed { id, port, host, data } => Frame::new_datagram(*id, host, *port, data),
            FSpec::DatagramOwned { id, port, host, data } => {
                Frame::new_datagram_owned(*id, Bytes::from(host.clone()), *port, Bytes::from(data.clone()))
            }
        }
    }
    fn boundary(&self) -> bool {
        let hb = |h: &Vec<u8>| matches!(h.len(), 0 | 1 | 255);
        let pb = |d: &Vec<u8>| d.len() <= 3;
        match self {
            FSpec::Connect { host, .. } | FSpec::Bind { host, .. } => hb(host),
            FSpec::PushBorrowed { data, .. } | FSpec::PushOwned { data, .. } => pb(data),
            FSpec::PushVectored { chunks, .. } => chunks.iter().any(|c| c.1.is_empty()) || chunks.iter().map(|c| c.1.len()).sum::<usize>() <= 3,
            FSpec::DatagramBorrowed { host, data, .. } | FSpec::DatagramOwned { host, data, .. } => hb(host) || pb(data),
            _ => false,
        }
    }
    fn class(&self) -> &'static str {
        match self {
            FSpec::Connect { .. } => "connect",
            FSpec::Acknowledge { .. } => "acknowledge",
            FSpec::Reset { .. } => "reset",
            FSpec::Finish { .. } => "finish",
            FSpec::PushBorrowed { .. } => "push-borrowed",
            FSpec::PushOwned { .. } => "push-owned",
            FSpec::PushVectored { .. } => "push-vectored",
            FSpec::Bind { .. } => "bind",
            FSpec::DatagramBorrowed { .. } => "datagram-borrowed",
            FSpec::DatagramOwned { .. } => "datagram-owned",
        }
    }
}

/// Build the crate's frame from a reference frame through the public constructors only.
pub fn frame_from_ref(r: &RFrame) -> Option<Frame<'_>> {
    Some(match r {
        RFrame::Connect { id, rwnd, port, host } => Frame::new_connect(host, *port, *id, *rwnd),
        RFrame::Acknowledge { id, n } => Frame::new_acknowledge(*id, *n),
        RFrame::Reset { id } => Frame::new_reset(*id),
        RFrame::Finish { id } => Frame::new_finish(*id),
        RFrame::Push { id, data } => Frame::new_push(*id, data),
        RFrame::Bind { id, btype, port, host } => {
            Frame::new_bind(*id, match btype { 1 => BindType::Stream, 3 => BindType::Datagram, _ => return None }, host, *port)
        }
        RFrame::Datagram { id, port, host, data } => Frame::new_datagram(*id, host, *port, data),
    })
}

fn opcode_num(o: OpCode) -> u8 {
    (o as u8) & 0x0f
}

pub fn b32() -> impl Strategy<Value = u32> {
    prop_oneof![
        3 => prop::sample::select(vec![0u32, 1, 2, 0x7f, 0x80, 0xff, 0x100, 0xffff, 0x1_0000, 0x7fff_ffff, 0x8000_0000, u32::MAX - 1, u32::MAX]),
        2 => (0u32..32).prop_map(|k| 1u32 << k),
        2 => (1u32..32).prop_map(|k| (1u32 << k) - 1),
        3 => any::<u32>(),
    ]
}
pub fn b16() -> impl Strategy<Value = u16> {
    prop_oneof![
        3 => prop::sample::select(vec![0u16, 1, 2, 0x7f, 0x80, 0xff, 0x100, 0x7fff, 0x8000, u16::MAX - 1, u16::MAX]),
        3 => any::<u16>(),
    ]
}
fn bytes_len(len: impl Strategy<Value = usize>) -> impl Strategy<Value = Vec<u8>> {
    (len, any::<u64>()).prop_map(|(n, s)| {
        let mut x = s | 1;
        (0..n)
            .map(|_| {
                x ^= x << 13;
                x ^= x >> 7;
                x ^= x << 17;
                (x >> 24) as u8
            })
            .collect()
    })
}
fn host(max: usize) -> impl Strategy<Value = Vec<u8>> {
    let m = max;
    prop_oneof![
        10 => bytes_len(prop_oneof![
            4 => prop::sample::select(vec![0usize, 1, 2, 254.min(m), 255.min(m), m]),
            4 => 0usize..=m,
            2 => 0usize..=16,
        ]),
        // hosts that mean something to some layer (IP literals in every notation, brackets, ports, case, dots, control characters):
        // opaque octets to the codec, they must round-trip like any other
        3 => prop::sample::select(vf_common::host_dictionary()),
    ]
}
fn payload(big: usize) -> impl Strategy<Value = Vec<u8>> {
    bytes_len(prop_oneof![
        6 => 0usize..=8,
        3 => 0usize..=300,
        1 => 0usize..=big,
    ])
}

pub fn fspec(big: usize) -> impl Strategy<Value = FSpec> {
    prop_oneof![
        2 => (b32(), b32(), b16(), host(300)).prop_map(|(id, rwnd, port, host)| FSpec::Connect { id, rwnd, port, host }),
        1 => (b32(), b32()).prop_map(|(id, n)| FSpec::Acknowledge { id, n }),
        1 => b32().prop_map(|id| FSpec::Reset { id }),
        1 => b32().prop_map(|id| FSpec::Finish { id }),
        2 => (b32(), payload(big)).prop_map(|(id, data)| FSpec::PushBorrowed { id, data }),
        2 => (b32(), payload(big)).prop_map(|(id, data)| FSpec::PushOwned { id, data }),
        3 => (b32(), prop::collection::vec((any::<bool>(), payload(big / 4)), 0..=6)).prop_map(|(id, chunks)| FSpec::PushVectored { id, chunks }),
        2 => (b32(), any::<bool>(), b16(), host(300)).prop_map(|(id, dgram, port, host)| FSpec::Bind { id, dgram, port, host }),
        3 => (b32(), b16(), host(255), payload(big)).prop_map(|(id, port, host, data)| FSpec::DatagramBorrowed { id, port, host, data }),
        3 => (b32(), b16(), host(255), payload(big)).prop_map(|(id, port, host, data)| FSpec::DatagramOwned { id, port, host, data }),
    ]
}

#[derive(Clone, Debug, Hash, Serialize, Deserialize)]
pub struct EncCase {
    pub spec: FSpec,
    pub extra: Vec<u8>,
}

fn hex(b: &[u8]) -> String {
    let mut s = String::new();
    for x in b.iter().take(80) {
        s.push_str(&format!("{x:02x}"));
    }
    if b.len() > 80 {
        s.push_str(&format!("..({} bytes)", b.len()));
    }
    s
}

/// O1: frame -> bytes -> frame
pub fn check_encode(c: &EncCase) -> Outcome {
    let spec = &c.spec;
    let r = spec.to_ref();
    let want = rf::encode(&r).expect("generator keeps datagram hosts <= 255");
    let frame = spec.build();
    let v = Vec::<u8>::from(&frame);
    if v != want {
        return Outcome::violation(format!("enc-layout:{}", spec.class()), format!("Vec::from(&frame) = {} but PROTOCOL.md layout is {}", hex(&v), hex(&want)));
    }
    let b = Bytes::from(&frame);
    if b.as_ref() != want.as_slice() {
        return Outcome::violation(format!("enc-layout-bytes:{}", spec.class()), format!("Bytes::from(&frame) = {} want {}", hex(&b), hex(&want)));
    }
    let v2: Vec<u8> = frame.clone().into();
    if v2 != want {
        return Outcome::violation(format!("enc-layout-owned:{}", spec.class()), "Vec::from(frame) differs".to_string());
    }
    if frame.id != r.id() || opcode_num(frame.opcode()) != r.op() {
        return Outcome::violation("enc-id-opcode", format!("id/opcode of built frame: {:08x}/{:?}", frame.id, frame.opcode()));
    }
    // decode borrowed / Bytes / Vec
    let decs: [(&str, Result<Frame<'_>, penguin_mux::frame::Error>); 3] = [
        ("borrowed", Frame::try_from(want.as_slice())),
        ("bytes", Frame::try_from(Bytes::from(want.clone()))),
        ("vec", Frame::try_from(want.clone())),
    ];
    for (how, d) in decs {
        match d {
            Err(e) => {
                return Outcome::violation(
                    format!("roundtrip-reject:{}", r.op_name()),
                    format!("decoding ({how}) the encoding {} of a constructible {} frame fails: {e:?}", hex(&want), r.op_name()),
                );
            }
            Ok(f2) => {
                if f2 != frame {
                    return Outcome::violation(format!("roundtrip-neq:{}", r.op_name()), format!("decoded ({how}) frame differs: {f2:?} vs {frame:?} bytes {}", hex(&want)));
                }
                if f2.id != r.id() || opcode_num(f2.opcode()) != r.op() {
                    return Outcome::violation("roundtrip-id-opcode", format!("decoded ({how}) id/opcode wrong for {}", hex(&want)));
                }
                let re = Vec::<u8>::from(&f2);
                if re != want {
                    return Outcome::violation(format!("roundtrip-reencode:{}", r.op_name()), format!("re-encoding the decoded frame gives {} want {}", hex(&re), hex(&want)));
                }
            }
        }
    }
    // append_push_data
    if let RFrame::Push { id, data } = &r {
        let mut enc = v.clone();
        append_push_data(&mut enc, &c.extra);
        let mut d2 = data.clone();
        d2.extend_from_slice(&c.extra);
        let want2 = rf::encode(&RFrame::Push { id: *id, data: d2 }).unwrap();
        if enc != want2 {
            return Outcome::violation("append-push", format!("append_push_data result {} want {}", hex(&enc), hex(&want2)));
        }
    }
    Outcome::pass(spec.boundary(), vec![spec.class()])
}

#[derive(Clone, Debug, Hash, Serialize, Deserialize)]
pub struct DecCase {
    pub bytes: Vec<u8>,
}

/// O2: bytes -> frame, total and exactly the layout
pub fn check_decode(c: &DecCase) -> Outcome {
    let b = &c.bytes;
    let want = rf::decode(b);
    let got_b = match vf_common::quiet_catch(|| Frame::try_from(b.as_slice())) {
        Ok(x) => x,
        Err(p) => return Outcome::violation("decode-panic", format!("Frame::try_from(&[u8]) panicked on {}: {p}", hex(b))),
    };
    let got_o = match vf_common::quiet_catch(|| Frame::try_from(Bytes::from(b.clone()))) {
        Ok(x) => x,
        Err(p) => return Outcome::violation("decode-panic", format!("Frame::try_from(Bytes) panicked on {}: {p}", hex(b))),
    };
    let got_v = match vf_common::quiet_catch(|| Frame::try_from(b.clone())) {
        Ok(x) => x,
        Err(p) => return Outcome::violation("decode-panic", format!("Frame::try_from(Vec) panicked on {}: {p}", hex(b))),
    };
    let mut classes = vec![];
    let mut near = false;
    match (&want, &got_b) {
        (Ok(r), Ok(f)) => {
            classes.push("valid");
            let Some(expect) = frame_from_ref(r) else { return Outcome::violation("ref-bug", "reference produced unconstructible frame") };
            if *f != expect || f.id != r.id() || opcode_num(f.opcode()) != r.op() {
                return Outcome::violation(format!("decode-fields:{}", r.op_name()), format!("decoding {} gives {f:?}; layout prescribes {r:?}", hex(b)));
            }
            let canon = rf::encode(r).unwrap();
            let re = Vec::<u8>::from(f);
            // canonical re-encoding drops ignored trailing bytes of fixed-size frames and normalises the version nibble
            if re != canon {
                return Outcome::violation(format!("decode-reencode:{}", r.op_name()), format!("re-encoding decoded {} gives {} want {}", hex(b), hex(&re), hex(&canon)));
            }
            for (how, g) in [("bytes", &got_o), ("vec", &got_v)] {
                match g {
                    Ok(f2) if *f2 == expect => {}
                    other => return Outcome::violation("decode-owned-differs", format!("owned ({how}) decode of {} gives {other:?}", hex(b))),
                }
            }
            // within one byte of a length check: removing the last byte flips validity
            if !b.is_empty() && rf::decode(&b[..b.len() - 1]).is_err() {
                near = true;
            }
        }
        (Err(_), Err(_)) => {
            classes.push("invalid");
            if got_o.is_ok() || got_v.is_ok() {
                return Outcome::violation("decode-owned-differs", format!("owned decode accepts {} but borrowed rejects", hex(b)));
            }
            // one more byte (any of a few) would make it valid
            for x in [0u8, 1, 3] {
                let mut e = b.clone();
                e.push(x);
                if rf::decode(&e).is_ok() {
                    near = true;
                }
            }
        }
        (Ok(r), Err(e)) => {
            return Outcome::violation(
                format!("decode-rejects-valid:{}", r.op_name()),
                format!("{} is a valid {} frame under PROTOCOL.md ({r:?}) but the decoder returns {e:?}", hex(b), r.op_name()),
            );
        }
        (Err(re), Ok(f)) => {
            return Outcome::violation("decode-accepts-invalid", format!("{} is invalid under PROTOCOL.md ({re:?}) but decodes to {f:?}", hex(b)));
        }
    }
    if near {
        classes.push("near-length-check");
    }
    Outcome::pass(near, classes)
}

const VERSIONS: [u8; 6] = [7, 0, 1, 6, 8, 15];
const ALPHA: [u8; 6] = [0x00, 0x01, 0x02, 0x03, 0x04, 0xff];

fn tails_upto(l: u32) -> u64 {
    (0..=l).map(|k| 6u64.pow(k)).sum()
}

/// index -> byte string of the bounded-exhaustive family
fn nth_string(mut i: u64, l: u32) -> DecCase {
    if i == 0 {
        return DecCase { bytes: vec![] };
    }
    i -= 1;
    let per_first = 4 + tails_upto(l);
    let first = i / per_first;
    let mut r = i % per_first;
    let ver = VERSIONS[(first / 16) as usize];
    let op = (first % 16) as u8;
    let mut v = vec![(ver << 4) | op];
    let idb = [0x00u8, 0x00, 0x01, 0x2a];
    if r < 4 {
        v.extend_from_slice(&idb[..r as usize]);
        return DecCase { bytes: v };
    }
    r -= 4;
    v.extend_from_slice(&idb);
    // r indexes tails ordered by length
    let mut len = 0u32;
    loop {
        let n = 6u64.pow(len);
        if r < n {
            break;
        }
        r -= n;
        len += 1;
    }
    for _ in 0..len {
        v.push(ALPHA[(r % 6) as usize]);
        r /= 6;
    }
    DecCase { bytes: v }
}

#[derive(Clone, Debug, Hash, Serialize, Deserialize)]
pub enum Mutation {
    Truncate(u16),
    SetByte(u16, u8),
    FlipNibble(bool, u8),
    Append(Vec<u8>),
    HostLen(u8),
    BindType(u8),
}

fn mutation() -> impl Strategy<Value = Mutation> {
    prop_oneof![
        3 => any::<u16>().prop_map(Mutation::Truncate),
        2 => (any::<u16>(), any::<u8>()).prop_map(|(a, b)| Mutation::SetByte(a, b)),
        2 => (any::<bool>(), 0u8..16).prop_map(|(a, b)| Mutation::FlipNibble(a, b)),
        2 => prop::collection::vec(any::<u8>(), 1..6).prop_map(Mutation::Append),
        2 => prop::sample::select(vec![0u8, 1, 2, 3, 4, 5, 6, 7, 254, 255]).prop_map(Mutation::HostLen),
        1 => prop::sample::select(vec![0u8, 1, 2, 3, 4, 255]).prop_map(Mutation::BindType),
    ]
}

#[derive(Clone, Debug, Hash, Serialize, Deserialize)]
pub struct MutCase {
    pub spec: FSpec,
    pub muts: Vec<Mutation>,
}

pub fn mutate(c: &MutCase) -> Vec<u8> {
    let mut b = rf::encode(&c.spec.to_ref()).unwrap();
    for m in &c.muts {
        match m {
            Mutation::Truncate(k) => {
                let n = (*k as usize * (b.len() + 1)) >> 16;
                b.truncate(n);
            }
            Mutation::SetByte(k, x) => {
                if !b.is_empty() {
                    let n = (*k as usize * b.len()) >> 16;
                    b[n] = *x;
                }
            }
            Mutation::FlipNibble(hi, x) => {
                if !b.is_empty() {
                    b[0] = if *hi { (b[0] & 0x0f) | (x << 4) } else { (b[0] & 0xf0) | x };
                }
            }
            Mutation::Append(x) => b.extend_from_slice(x),
            Mutation::HostLen(x) => {
                if b.len() > 5 {
                    b[5] = *x;
                }
            }
            Mutation::BindType(x) => {
                if b.len() > 5 {
                    b[5] = *x;
                }
            }
        }
    }
    b
}

/// "yields an equal frame" rests on the public `PartialEq` of `Frame`. This section checks that relation itself against the
/// reference encoding: two constructible frames are `==` exactly when PROTOCOL.md gives them the same bytes, whatever their
/// representation (borrowed / owned / vectored in any chunking), symmetrically, and every frame equals itself and its clone.
#[derive(Clone, Debug, Hash, Serialize, Deserialize)]
pub struct EqCase {
    pub a: FSpec,
    pub b: FSpec,
}

fn rechunk(data: &[u8], cuts: &[u8], owned: u8) -> Vec<(bool, Vec<u8>)> {
    let mut pos: Vec<usize> = cuts.iter().map(|c| if data.is_empty() { 0 } else { *c as usize * (data.len() + 1) / 256 }).collect();
    pos.sort_unstable();
    let mut out = vec![];
    let mut last = 0;
    for (i, p) in pos.iter().chain(std::iter::once(&data.len())).enumerate() {
        out.push(((owned >> (i % 8)) & 1 == 1, data[last..*p].to_vec()));
        last = *p;
    }
    out
}

/// a frame with the same wire bytes in another representation
fn same_as(a: &FSpec, cuts: &[u8], owned: u8) -> FSpec {
    match a {
        FSpec::PushBorrowed { id, data } | FSpec::PushOwned { id, data } => match owned % 3 {
            0 => FSpec::PushBorrowed { id: *id, data: data.clone() },
            1 => FSpec::PushOwned { id: *id, data: data.clone() },
            _ => FSpec::PushVectored { id: *id, chunks: rechunk(data, cuts, owned) },
        },
        FSpec::PushVectored { id, chunks } => {
            let data: Vec<u8> = chunks.iter().flat_map(|c| c.1.iter().copied()).collect();
            match owned % 3 {
                0 => FSpec::PushBorrowed { id: *id, data },
                1 => FSpec::PushOwned { id: *id, data },
                _ => FSpec::PushVectored { id: *id, chunks: rechunk(&data, cuts, owned) },
            }
        }
        FSpec::DatagramBorrowed { id, port, host, data } => FSpec::DatagramOwned { id: *id, port: *port, host: host.clone(), data: data.clone() },
        FSpec::DatagramOwned { id, port, host, data } => FSpec::DatagramBorrowed { id: *id, port: *port, host: host.clone(), data: data.clone() },
        other => other.clone(),
    }
}

/// a frame that differs from `a` in exactly one place
fn perturbed(a: &FSpec, k: u8, x: u8) -> FSpec {
    let bump = |v: &Vec<u8>| {
        let mut v = v.clone();
        match k % 3 {
            0 => v.push(x),
            1 if !v.is_empty() => {
                let i = x as usize % v.len();
                v[i] ^= 1 << (k % 8);
            }
            _ => {
                if v.pop().is_none() {
                    v.push(x)
                }
            }
        }
        v
    };
    let mut b = a.clone();
    match &mut b {
        FSpec::Connect { id, rwnd, port, host } => match k % 4 {
            0 => *id ^= 1 << (x % 32),
            1 => *rwnd ^= 1 << (x % 32),
            2 => *port ^= 1 << (x % 16),
            _ => *host = bump(host),
        },
        FSpec::Acknowledge { id, n } => {
            if k % 2 == 0 {
                *id ^= 1 << (x % 32)
            } else {
                *n ^= 1 << (x % 32)
            }
        }
        FSpec::Reset { id } => {
            if k % 2 == 0 {
                *id ^= 1 << (x % 32)
            } else {
                return FSpec::Finish { id: *id };
            }
        }
        FSpec::Finish { id } => {
            if k % 2 == 0 {
                *id ^= 1 << (x % 32)
            } else {
                return FSpec::Reset { id: *id };
            }
        }
        FSpec::PushBorrowed { id, data } | FSpec::PushOwned { id, data } => {
            if k % 4 == 0 {
                *id ^= 1 << (x % 32)
            } else {
                *data = bump(data)
            }
        }
        FSpec::PushVectored { id, chunks } => {
            if k % 4 == 0 || chunks.is_empty() {
                *id ^= 1 << (x % 32)
            } else {
                let i = x as usize % chunks.len();
                chunks[i].1 = bump(&chunks[i].1);
            }
        }
        FSpec::Bind { id, dgram, port, host } => match k % 4 {
            0 => *id ^= 1 << (x % 32),
            1 => *dgram = !*dgram,
            2 => *port ^= 1 << (x % 16),
            _ => *host = bump(host),
        },
        FSpec::DatagramBorrowed { id, port, host, data } | FSpec::DatagramOwned { id, port, host, data } => match k % 4 {
            0 => *id ^= 1 << (x % 32),
            1 => *port ^= 1 << (x % 16),
            2 => {
                // move one byte across the host/data boundary: same concatenation, different fields
                if let Some(b0) = data.first().copied() {
                    if host.len() < 255 {
                        host.push(b0);
                        data.remove(0);
                    }
                } else {
                    *host = bump(host);
                    host.truncate(255);
                }
            }
            _ => *data = bump(data),
        },
    }
    b
}

pub fn check_eq(c: &EqCase) -> Outcome {
    let (ra, rb) = (c.a.to_ref(), c.b.to_ref());
    let (Some(ea), Some(eb)) = (rf::encode(&ra), rf::encode(&rb)) else {
        return Outcome::pass(false, vec!["outside-encoder-domain"]);
    };
    let same = ea == eb;
    let (fa, fb) = (c.a.build(), c.b.build());
    let (ab, ba) = (fa == fb, fb == fa);
    let pair = format!("{}~{}", c.a.class(), c.b.class());
    if ab != ba {
        return Outcome::violation(format!("eq-asymmetric:{pair}"), format!("a == b is {ab} but b == a is {ba} for a={fa:?} b={fb:?}"));
    }
    if ab != same {
        return Outcome::violation(
            format!("eq-vs-wire:{pair}"),
            format!("the two frames {} the same wire bytes ({} / {}) but `==` says {ab}: a={fa:?} b={fb:?}", if same { "have" } else { "do not have" }, hex(&ea), hex(&eb)),
        );
    }
    #[allow(clippy::eq_op)]
    if !(fa == fa) || fa.clone() != fa || !(fb == fb) {
        return Outcome::violation(format!("eq-not-reflexive:{}", c.a.class()), format!("a frame is not equal to itself or to its clone: {fa:?}"));
    }
    // and against the decoder's output (always a borrowed or owned single payload)
    if let Ok(d) = Frame::try_from(eb.as_slice()) {
        if (fa == d) != same || (d == fa) != same {
            return Outcome::violation(format!("eq-vs-decoded:{pair}"), format!("a == decode(encode(b)) is {} but the wire bytes are {}", fa == d, if same { "equal" } else { "different" }));
        }
    }
    let vect = matches!(c.a, FSpec::PushVectored { .. }) || matches!(c.b, FSpec::PushVectored { .. });
    Outcome::pass(vect || !same, vec![if same { "same-bytes" } else { "different-bytes" }, if vect { "vectored-involved" } else { "no-vectored" }])
}

/// A HISTORY of encodes on one thread, through every encoder entry point (`Vec::from(&f)`, `Vec::from(f)`, `Bytes::from(&f)`,
/// `Bytes::from(f)`, `ws::Message::from(f)`), with Datagram frames whose host exceeds 255 octets in between: those are outside the
/// encoder's domain (it panics by contract; the panic is caught here, as a task boundary or `catch_unwind` would). Whatever an
/// encode did before - succeed, or panic half-way - every constructible frame must still encode to exactly the PROTOCOL.md layout.
#[derive(Clone, Debug, Hash, PartialEq, Eq, serde::Serialize, serde::Deserialize)]
pub struct HistCase {
    pub specs: Vec<FSpec>,
}
pub fn check_encode_history(c: &HistCase) -> Outcome {
    let mut bad_before = false;
    let mut classes = vec![];
    for (k, spec) in c.specs.iter().enumerate() {
        let r = spec.to_ref();
        match rf::encode(&r) {
            None => {
                for how in 0..3 {
                    let _ = vf_common::quiet_catch(|| {
                        let f = spec.build();
                        match how {
                            0 => drop(Vec::<u8>::from(&f)),
                            1 => drop(Bytes::from(&f)),
                            _ => drop(penguin_mux::ws::Message::from(f)),
                        }
                    });
                }
                bad_before = true;
            }
            Some(want) => {
                let got: Vec<(&str, Result<Vec<u8>, String>)> = vec![
                    ("Vec::from(&frame)", vf_common::quiet_catch(|| Vec::<u8>::from(&spec.build()))),
                    ("Bytes::from(&frame)", vf_common::quiet_catch(|| Bytes::from(&spec.build()).to_vec())),
                    ("Vec::from(frame)", vf_common::quiet_catch(|| Vec::<u8>::from(spec.build()))),
                    ("Bytes::from(frame)", vf_common::quiet_catch(|| Bytes::from(spec.build()).to_vec())),
                    ("ws::Message::from(frame)", vf_common::quiet_catch(|| match penguin_mux::ws::Message::from(spec.build()) {
                        penguin_mux::ws::Message::Binary(b) => b.to_vec(),
                        _ => vec![],
                    })),
                ];
                for (how, g) in got {
                    match g {
                        Err(p) => return Outcome::violation(format!("enc-history-panic:{}", spec.class()), format!("{how} of frame {k} of the history ({}) panicked: {p}", spec.class())),
                        Ok(v) if v != want => {
                            return Outcome::violation(
                                format!("enc-history:{}", spec.class()),
                                format!("{how} of frame {k} of a history of encodes on one thread gives {} but the PROTOCOL.md layout is {} ({})", hex(&v[..v.len().min(48)]), hex(&want[..want.len().min(48)]), if bad_before { "an encode of an out-of-domain Datagram - host > 255 octets, panics by contract - came before it" } else { "all earlier encodes were of constructible frames" }),
                            )
                        }
                        Ok(_) => {}
                    }
                }
                if bad_before {
                    classes.push("valid-frame-after-a-refused-one");
                }
            }
        }
    }
    Outcome::pass(bad_before, classes)
}

pub fn run(ctx: &Ctx, rep: &mut Report) {
    rep.rule = "G1: frame specs over all opcodes/constructors with boundary-biased u32/u16 and host/payload lengths, hosts being random octets or (one in four) entries of a dictionary of 130 hosts that mean something to some layer (IP literals in every notation, bracketed literals, ports, letter case, trailing dots, IDNA, control characters, maximal DNS names), each of which is also enumerated once in every host-carrying frame kind; non-trivial = variable field at a boundary \
                (host len 0/1/255, payload len 0..=3, vectored with an empty chunk). G1b: histories of 2-7 encodes on one thread through all five encoder entry points, with out-of-domain Datagrams (host > 255 octets, the encoder panics by contract, caught) in between: every constructible frame must still encode exactly. G2: byte strings (bounded-exhaustive over a boundary alphabet, mutations of valid \
                encodings, random with biased first byte); non-trivial = within one byte of a length check (dropping/adding one byte flips validity). \
                Distinct = distinct case value (hash)."
        .into();
    rep.assumptions = vec![
        "reference codec vf-ref::frame written from PROTOCOL.md; trailing bytes after Acknowledge/Reset/Finish accepted (minimum layouts)".into(),
        "harness built with debug-assertions off (production semantics): frame.rs check_remaining! debug_assert is compiled out".into(),
        "Datagram hosts > 255 bytes are outside the encoder's documented domain (it panics by contract) and are not generated for Datagram".into(),
    ];
    let t = ctx.tier;
    let big = t.pick(4096, 70_000);
    ctx.prop(rep, "encode", t.pick(300_000, 3_000_000), 500, || (fspec(big), payload(64)).prop_map(|(spec, extra)| EncCase { spec, extra }), check_encode);
    ctx.prop(
        rep,
        "equality",
        t.pick(200_000, 2_000_000),
        500,
        || {
            (fspec(600), fspec(600), 0u8..10, prop::collection::vec(any::<u8>(), 0..4), any::<u8>(), any::<u8>(), any::<u8>()).prop_map(|(a, other, mode, cuts, owned, k, x)| {
                let b = match mode {
                    0..=3 => same_as(&a, &cuts, owned),
                    4..=7 => perturbed(&same_as(&a, &cuts, owned), k, x),
                    8 => perturbed(&a, k, x),
                    _ => other,
                };
                EqCase { a, b }
            })
        },
        check_eq,
    );
    let l = t.pick(5, 7);
    let total = 1 + 96 * (4 + tails_upto(l));
    ctx.enumerate(rep, "decode-exhaustive", total, 500, |i| nth_string(i, l), check_decode);
    // field sizes the random generator does not reach: payloads around the 16-bit boundary and well above it, in every frame kind
    // that carries one (PROTOCOL.md puts no limit on them)
    const BIGLEN: [usize; 7] = [65_534, 65_535, 65_536, 65_537, 100_000, (1 << 20) + 3, (3 << 20) + 1];
    ctx.enumerate(
        rep,
        "large-payloads",
        (BIGLEN.len() * 6) as u64,
        6,
        |i| {
            let n = BIGLEN[(i % 7) as usize];
            let data: Vec<u8> = (0..n).map(|k| (k as u32).wrapping_mul(2_654_435_761).to_le_bytes()[1]).collect();
            let spec = match i / 7 {
                0 => FSpec::PushBorrowed { id: 7, data },
                1 => FSpec::PushOwned { id: 7, data },
                2 => FSpec::PushVectored { id: 7, chunks: vec![(false, data[..n / 2].to_vec()), (true, data[n / 2..].to_vec())] },
                3 => FSpec::PushVectored { id: 7, chunks: vec![(true, vec![1, 2, 3]), (false, data), (true, vec![])] },
                4 => FSpec::DatagramBorrowed { id: 9, port: 53, host: b"big.example".to_vec(), data },
                _ => FSpec::DatagramOwned { id: 9, port: 53, host: vec![], data },
            };
            EncCase { spec, extra: vec![] }
        },
        |c| {
            let mut o = check_encode(c);
            o.nontrivial = true;
            o.classes.push("payload-64KiB-to-3MiB");
            o
        },
    );
    // every host of the dictionary of "meaningful" hosts (IP literals in all notations, brackets, ports, case, dots, control
    // characters, maximal names) in every frame kind that carries a host; payloads that look like hosts or frames too
    let dict = vf_common::host_dictionary();
    let nd = dict.len() as u64;
    ctx.enumerate(
        rep,
        "meaningful-hosts",
        nd * 6,
        64,
        move |i| {
            let host = dict[(i % nd) as usize].clone();
            let host255: Vec<u8> = host.iter().copied().take(255).collect();
            let spec = match i / nd {
                0 => FSpec::Connect { id: 0x0102_0304, rwnd: 64, port: 443, host },
                1 => FSpec::Bind { id: 5, dgram: false, port: 80, host },
                2 => FSpec::Bind { id: 5, dgram: true, port: 53, host },
                3 => FSpec::DatagramBorrowed { id: 6, port: 53, host: host255.clone(), data: host255 },
                4 => FSpec::DatagramOwned { id: 6, port: 53, host: host255, data: vec![] },
                _ => FSpec::PushOwned { id: 8, data: host },
            };
            EncCase { spec, extra: vec![] }
        },
        |c| {
            let mut o = check_encode(c);
            o.nontrivial = true;
            o.classes.push("meaningful-host");
            o
        },
    );
    // histories of encodes on one thread, out-of-domain Datagrams (host of 256..300 octets: the encoder panics by contract) among them
    ctx.prop(
        rep,
        "encode-history",
        t.pick(60_000, 1_000_000),
        200,
        || {
            let bad = (b32(), b16(), 256usize..=300, payload(16)).prop_map(|(id, port, n, data)| FSpec::DatagramBorrowed { id, port, host: vec![b'h'; n], data });
            prop::collection::vec(prop_oneof![4 => fspec(64), 1 => bad], 2..=7).prop_map(|specs| HistCase { specs })
        },
        check_encode_history,
    );
    ctx.prop(
        rep,
        "decode-mutations",
        t.pick(400_000, 4_000_000),
        500,
        || (fspec(600), prop::collection::vec(mutation(), 1..=3)).prop_map(|(spec, muts)| MutCase { spec, muts }),
        |c: &MutCase| {
            let mut o = check_decode(&DecCase { bytes: mutate(c) });
            o.classes.push("mutated");
            o
        },
    );
    ctx.prop(
        rep,
        "decode-random",
        t.pick(150_000, 2_000_000),
        20,
        || {
            (
                prop_oneof![
                    8 => (prop::sample::select(vec![7u8, 0, 7, 7, 1, 8]), 0u8..8).prop_map(|(v, o)| (v << 4) | o),
                    2 => any::<u8>()
                ],
                prop_oneof![6 => 0usize..24, 3 => 0usize..600, 1 => 0usize..65_536],
                any::<u64>(),
            )
                .prop_map(|(first, n, s)| {
                    let mut x = s | 1;
                    let mut bytes = vec![first];
                    bytes.extend((0..n).map(|_| {
                        x ^= x << 13;
                        x ^= x >> 7;
                        x ^= x << 17;
                        // small values are common so that host_len etc. are plausible
                        let v = (x >> 32) as u8;
                        if x & 3 == 0 { v & 0x07 } else { v }
                    }));
                    DecCase { bytes }
                })
        },
        check_decode,
    );
}
