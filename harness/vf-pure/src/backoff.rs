//! Backoff generator part of C19 (exhaustive over small tuples + random larger).
use penguin_mux::timing::Backoff;
use proptest::prelude::*;
use serde::{Deserialize, Serialize};
use std::time::Duration;
use vf_common::{Ctx, Outcome, Report};

#[derive(Clone, Debug, Hash, Serialize, Deserialize)]
pub struct BoCase {
    pub unit_ms: u64,
    pub initial: u64,
    pub max: u64,
    pub mult: u32,
    pub max_count: u32,
    /// true = advance, false = reset
    pub ops: Vec<bool>,
}

pub fn run_backoff(c: &BoCase) -> Outcome {
    let u = c.unit_ms;
    let mut b = Backoff::new(Duration::from_millis(c.initial * u), Duration::from_millis(c.max * u), c.mult, c.max_count);
    // reference: k-th delay since the last reset is min(initial * mult^k, max); None once max_count advances were handed out (unless 0)
    let mut k: u32 = 0;
    let mut resets_after_progress = false;
    let mut exhausted = false;
    for (i, adv) in c.ops.iter().enumerate() {
        if *adv {
            let want = if c.max_count != 0 && k >= c.max_count {
                None
            } else {
                let raw = (c.initial as u128 * u as u128).saturating_mul((c.mult as u128).saturating_pow(k));
                Some(Duration::from_millis(raw.min(c.max as u128 * u as u128) as u64))
            };
            let got = b.advance();
            if got != want {
                return Outcome::violation("backoff-delay", format!("op {i}: advance() #{k} since reset returned {got:?}, reference min(initial*mult^k, max) gives {want:?}"));
            }
            if want.is_some() {
                k += 1;
            } else {
                exhausted = true;
            }
        } else {
            if k > 0 {
                resets_after_progress = true;
            }
            b.reset();
            k = 0;
        }
    }
    let mut cl = vec![];
    if resets_after_progress {
        cl.push("reset-after-advance");
    }
    if exhausted {
        cl.push("exhausted");
    }
    if c.max_count == 0 {
        cl.push("unlimited");
    }
    Outcome::pass(resets_after_progress || exhausted, cl)
}

pub fn sections(ctx: &Ctx, rep: &mut Report) {
    // exhaustive: initial,max in 0..6 ; mult 0..3 ; max_count 0..4 ; all advance/reset sequences of length <= 8
    let tuples: u64 = 6 * 6 * 3 * 4;
    let seqs: u64 = (0..=8u32).map(|l| 1u64 << l).sum();
    ctx.enumerate(
        rep,
        "backoff-exhaustive",
        tuples * seqs,
        500,
        |i| {
            let mut t = i / seqs;
            let mut s = i % seqs;
            let initial = t % 6;
            t /= 6;
            let max = t % 6;
            t /= 6;
            let mult = (t % 3) as u32;
            t /= 3;
            let max_count = (t % 4) as u32;
            let mut len = 0;
            while s >= (1 << len) {
                s -= 1 << len;
                len += 1;
            }
            let ops = (0..len).map(|j| (s >> j) & 1 == 1).collect();
            BoCase { unit_ms: 100, initial, max, mult, max_count, ops }
        },
        run_backoff,
    );
    ctx.prop(
        rep,
        "backoff-random",
        ctx.tier.pick(100_000, 2_000_000),
        200,
        || {
            (1u64..=1000, 0u64..=5000, 0u64..=100_000, 0u32..=10, 0u32..=12, prop::collection::vec(prop::bool::weighted(0.85), 0..40))
                .prop_map(|(unit_ms, initial, max, mult, max_count, ops)| BoCase { unit_ms, initial, max, mult, max_count, ops })
        },
        run_backoff,
    );
}

pub fn run(ctx: &Ctx, rep: &mut Report) {
    rep.rule = "Backoff::new(initial,max,mult,max_count) x advance/reset sequences; non-trivial = a reset after progress or exhaustion of max_count".into();
    sections(ctx, rep);
}
