//! World construction and the scheduler loop.
use crate::engine::*;
use crate::world::*;
use bytes::Bytes;
use penguin_mux::frame::BindType;
use penguin_mux::{Datagram, Multiplexor};
use std::collections::BTreeMap;
use std::rc::Rc;
use vf_ref::frame::RFrame;

pub const STEP_BOUND: usize = 200_000;

pub struct RunResult {
    pub events: Vec<Stamped>,
    /// (name, kind, done, cancelled)
    pub tasks: Vec<(String, TaskKind, bool, bool)>,
    pub task_exit: [Option<Result<(), String>>; 2],
    pub steps: usize,
    /// false: the step bound was hit (inconclusive)
    pub quiescent: bool,
    /// number of steps driven by the generated schedule
    pub scheduled_steps: usize,
    /// an endpoint sent a message larger than everything the case ever wrote (side, length); the run was cut short there
    pub oversize: Option<(usize, usize)>,
}

impl RunResult {
    pub fn tail(&self, n: usize) -> String {
        let start = self.events.len().saturating_sub(n);
        self.events[start..].iter().map(|s| format!("[{}] {}", s.step, fmt_ev(&s.ev))).collect::<Vec<_>>().join("; ")
    }
    pub fn blocked_tasks(&self) -> Vec<String> {
        self.tasks.iter().filter(|t| !t.2).map(|t| t.0.clone()).collect()
    }
    pub fn app_events(&self) -> impl Iterator<Item = (usize, &AppEv)> {
        self.events.iter().filter_map(|s| if let Ev::App(a) = &s.ev { Some((s.step, a)) } else { None })
    }
}

#[derive(Clone, Copy, Debug)]
enum Action {
    Poll(usize),
    Deliver(usize),
    Fire(usize),
}

struct RawPeerState {
    policy: RawPolicy,
    connects_seen: u32,
    pushes: BTreeMap<u32, u32>,
}

pub struct World {
    pub exec: Exec,
    pub link: SharedLink,
    pub log: Log,
    pub parking: Parking,
    pub keep: Keeper,
    pub mux: [Option<Rc<Mux>>; 2],
    events: Vec<(RawEvent, bool)>,
    raw: Option<RawPeerState>,
    pub step: usize,
    sched_phase: u8,
    step_bound: usize,
    /// tokio context (paused clock) entered for the lifetime of the world when a side uses keepalive; declared last
    clock: Option<tokio::runtime::EnterGuard<'static>>,
}

pub const KEEPALIVE_TICK: std::time::Duration = std::time::Duration::from_millis(100);

/// one paused-clock current-thread runtime per harness thread; it never runs tasks, it only owns the timer wheel that the
/// endpoints' keepalive intervals register with, and `What::Tick` advances it
fn sim_runtime() -> &'static tokio::runtime::Runtime {
    thread_local! {
        static RT: &'static tokio::runtime::Runtime = Box::leak(Box::new(tokio::runtime::Builder::new_current_thread().enable_time().start_paused(true).build().expect("runtime")));
    }
    RT.with(|r| *r)
}

fn mk_host(idx: usize, pad: &[u8]) -> Vec<u8> {
    tag_host(idx, pad)
}

impl World {
    pub fn new(case: &Case) -> World {
        register_verbatim(case);
        let clock = if case.keepalive.iter().any(|k| *k) { Some(sim_runtime().enter()) } else { None };
        let log = Log::default();
        // everything the scripts of this case can put into messages
        let mut total: usize = 0;
        for st in &case.streams {
            for e in &st.ends {
                for w in &e.w {
                    total += match w {
                        WOp::Write(n) => *n as usize,
                        WOp::WriteV(v) => v.iter().map(|x| *x as usize).sum(),
                        _ => 0,
                    };
                }
            }
        }
        for b in case.bridges.iter() {
            total += b.read.iter().map(|x| if let LR::Chunk(n) = x { *n as usize } else { 0 }).sum::<usize>();
        }
        total += case.dgrams.iter().map(|d| d.data_len as usize + dg_host_len(d.host_len as usize)).sum::<usize>();
        let link = SharedLink::new([case.cap[0].map(|c| c.max(1) as usize), case.cap[1].map(|c| c.max(1) as usize)]);
        link.0.lock().unwrap().max_message = crate::engine::MAX_SIM_MESSAGE + total;
        for sd in 0..2 {
            link.0.lock().unwrap().dir[sd].flush_waits = case.flush_waits[sd];
            link.0.lock().unwrap().dir[sd].wb_cap = case.write_behind[sd].map(|k| k as usize);
        }
        let parking = Parking::default();
        let keep = Keeper(Default::default(), Rc::new(case.bridges.clone()));
        let mut exec = Exec::default();
        let sp = exec.spawner.clone();
        let mut muxes: [Option<Rc<Mux>>; 2] = [None, None];
        let sides: &[usize] = if case.raw.is_some() { &[0] } else { &[0, 1] };
        for &side in sides {
            let ws = SimWs { side, link: link.clone(), log: log.clone() };
            let rng = ScriptRng::new(&case.rng[side], 0xC0FFEE ^ (side as u64) << 7);
            let mut options = case.opts[side].options();
            if case.keepalive[side] {
                options = options.keepalive_interval(KEEPALIVE_TICK.into());
                if case.keepalive_timeout_ticks > 0 {
                    options = options.keepalive_timeout((KEEPALIVE_TICK * case.keepalive_timeout_ticks as u32).into());
                }
            }
            let (mux, taskdata) = Multiplexor::new_detailed::<_, crate::props::keepalive::TI>(ws, options, rng); // timestamps from the virtual clock the Tick events advance (the real clock when a case has no keepalive)
            muxes[side] = Some(Rc::new(mux));
            let l2 = log.clone();
            sp.spawn(format!("mux{side}"), TaskKind::Mux(side), async move {
                let r = taskdata.into_task().await;
                l2.push(Ev::TaskExit { side, result: r.map_err(|e| format!("{e:?}")) });
            });
        }
        // application actors
        for &side in sides {
            let mux = muxes[side].clone().unwrap();
            // acceptor
            match &case.acceptors[side] {
                AcceptPolicy::Never => {}
                pol => {
                    let limit = if let AcceptPolicy::Count(n) = pol { Some(*n as usize) } else { None };
                    let late = if let AcceptPolicy::AfterWake(n) = pol { Some(*n) } else { None };
                    let (log, parking, sp2, keep2) = (log.clone(), parking.clone(), sp.clone(), keep.clone());
                    let specs = case.streams.clone();
                    let m = mux.clone();
                    sp.spawn(format!("accept{side}"), TaskKind::MuxUser(side), async move {
                        let mut n = 0;
                        if let Some(w) = late {
                            parking.park(w).await;
                        }
                        loop {
                            if limit.is_some_and(|l| n >= l) {
                                return;
                            }
                            match m.accept_stream_channel().await {
                                Ok(s) => {
                                    n += 1;
                                    let host = s.dest_host.to_vec();
                                    let port = s.dest_port;
                                    let idx = parse_tag(&host).filter(|i| *i < specs.len());
                                    log.app(AppEv::Accepted { side, stream: idx, host, port });
                                    if let Some(i) = idx {
                                        spawn_end(&sp2, &keep2, side, s, i, 1, &specs[i].ends[1], &log, &parking);
                                    } else {
                                        // unknown tag (raw peer): hold the stream open, read it to EOF
                                        spawn_end(&sp2, &keep2, side, s, 900 + n, 1, &EndScript { w: vec![], r: vec![ROp::ToEof(64)] }, &log, &parking);
                                    }
                                }
                                Err(e) => {
                                    log.app(AppEv::AcceptErr { side, err: format!("{e:?}") });
                                    return;
                                }
                            }
                        }
                    });
                }
            }
            // datagram reader
            match case.dg_readers[side].clone() {
                DgReader::None => {}
                pol => {
                    let (log, parking, m) = (log.clone(), parking.clone(), mux.clone());
                    sp.spawn(format!("dgread{side}"), TaskKind::MuxUser(side), async move {
                        let mut got = 0u32;
                        if let DgReader::AfterWake(n) = pol {
                            parking.park(n).await;
                        }
                        loop {
                            if let DgReader::Intermittent(k, n) = pol {
                                if got == k as u32 {
                                    parking.park(n).await;
                                }
                            }
                            match m.get_datagram().await {
                                Ok(d) => {
                                    got += 1;
                                    log.app(AppEv::DgRecv { side, flow_id: d.flow_id, host: d.target_host.to_vec(), port: d.target_port, data: d.data.to_vec() });
                                }
                                Err(e) => {
                                    log.app(AppEv::DgRecvErr { side, err: format!("{e:?}") });
                                    return;
                                }
                            }
                        }
                    });
                }
            }
            // bind responder
            if case.bind_policy[side].enabled {
                let (log, m, pol) = (log.clone(), mux.clone(), case.bind_policy[side].clone());
                sp.spawn(format!("bindresp{side}"), TaskKind::MuxUser(side), async move {
                    let mut seen = 0usize;
                    let mut held = vec![];
                    // answered requests are kept alive until the responder ends: dropping a BindRequest always sends a Reset
                    // (documented behaviour), and forgetting it would leak its channel handle
                    let mut answered = vec![];
                    let mut batch = vec![];
                    loop {
                        match m.next_bind_request().await {
                            Ok(req) => {
                                let ans = pol.answers.get(seen).cloned().unwrap_or(BindAnswer::Reject);
                                seen += 1;
                                batch.push((req, ans));
                                if batch.len() >= pol.batch.max(1) as usize {
                                    // answer the batch in the generated order
                                    let mut idx: Vec<usize> = (0..batch.len()).collect();
                                    idx.sort_by_key(|i| pol.order.get(*i).copied().unwrap_or(*i as u8));
                                    let mut items: Vec<Option<_>> = batch.drain(..).map(Some).collect();
                                    for i in idx {
                                        let (req, ans) = items[i].take().unwrap();
                                        let bt = match req.bind_type() {
                                            BindType::Stream => 1,
                                            BindType::Datagram => 3,
                                        };
                                        log.app(AppEv::BindSeen { side, flow_id: req.flow_id(), btype: bt, host: req.host().to_vec(), port: req.port(), answer: format!("{ans:?}") });
                                        if pol.ping_first {
                                            req.manual_ping().ok();
                                        }
                                        match ans {
                                            BindAnswer::Accept => {
                                                req.reply(true).ok();
                                                answered.push(req);
                                            }
                                            BindAnswer::Reject => {
                                                req.reply(false).ok();
                                                answered.push(req);
                                            }
                                            BindAnswer::DropIt => drop(req),
                                            BindAnswer::Hold => held.push(req),
                                        }
                                    }
                                }
                            }
                            Err(e) => {
                                log.app(AppEv::BindNextErr { side, err: format!("{e:?}") });
                                // held and answered requests are released when the responder ends (the connection is over)
                                drop(held);
                                drop(answered);
                                return;
                            }
                        }
                    }
                });
            }
        }
        // openers
        for (i, spec) in case.streams.iter().enumerate() {
            let side = spec.side;
            if case.raw.is_some() && side == 1 {
                continue;
            }
            let (log, parking, sp2, keep2, m, spec) = (log.clone(), parking.clone(), sp.clone(), keep.clone(), muxes[side].clone().unwrap(), spec.clone());
            sp.spawn(format!("open{i}"), TaskKind::MuxUser(side), async move {
                if let Some(n) = spec.park {
                    parking.park(n).await;
                }
                for _ in 0..spec.delay {
                    yield_once().await;
                }
                let host = mk_host(i, &spec.pad);
                let r = match spec.cancel {
                    None => m.new_stream_channel(&host, spec.port).await,
                    Some(n) => {
                        let mut fut = std::pin::pin!(m.new_stream_channel(&host, spec.port));
                        let mut stop = std::pin::pin!(parking.park(n));
                        let raced = std::future::poll_fn(|cx| {
                            if stop.as_mut().poll(cx).is_ready() {
                                return std::task::Poll::Ready(None);
                            }
                            fut.as_mut().poll(cx).map(Some)
                        })
                        .await;
                        match raced {
                            Some(r) => r,
                            None => {
                                log.app(AppEv::OpenErr { stream: i, err: "CancelledByCaller".into() });
                                return;
                            }
                        }
                    }
                };
                drop(m);
                match r {
                    Ok(s) => {
                        log.app(AppEv::OpenOk { stream: i });
                        spawn_end(&sp2, &keep2, side, s, i, 0, &spec.ends[0], &log, &parking);
                    }
                    Err(e) => log.app(AppEv::OpenErr { stream: i, err: format!("{e:?}") }),
                }
            });
        }
        // datagram senders: one actor per side, in list order
        for &side in sides {
            let list: Vec<(usize, DgSpec)> = case.dgrams.iter().cloned().enumerate().filter(|(_, d)| d.side == side).collect();
            if list.is_empty() {
                continue;
            }
            let (log, m, parking) = (log.clone(), muxes[side].clone().unwrap(), parking.clone());
            sp.spawn(format!("dgsend{side}"), TaskKind::MuxUser(side), async move {
                for (idx, d) in list {
                    if d.delay >= DG_PARK {
                        // wait for the harness event Wake(delay - DG_PARK)
                        parking.park(d.delay - DG_PARK).await;
                    } else {
                        for _ in 0..d.delay {
                            yield_once().await;
                        }
                    }
                    let dg = Datagram {
                        flow_id: d.flow_id,
                        target_host: Bytes::from(dg_host(idx, d.host_len as usize)),
                        target_port: d.port,
                        data: Bytes::from(dg_data(idx, d.data_len as usize)),
                    };
                    let r = m.send_datagram(dg).await;
                    log.app(AppEv::DgSent { side, idx, ok: r.map_err(|e| format!("{e:?}")) });
                }
            });
        }
        // binders: one task per request (they are concurrent)
        for (idx, b) in case.binds.iter().cloned().enumerate() {
            if case.raw.is_some() && b.side == 1 {
                continue;
            }
            let (log, m, parking, cancel) = (log.clone(), muxes[b.side].clone().unwrap(), parking.clone(), case.bind_cancel);
            sp.spawn(format!("bind{idx}"), TaskKind::MuxUser(b.side), async move {
                for _ in 0..b.delay {
                    yield_once().await;
                }
                let host = bind_host(idx, &b.host);
                let btype = if b.dgram { BindType::Datagram } else { BindType::Stream };
                let r = match cancel {
                    None => m.request_bind(&host, b.port, btype).await,
                    Some(n) => {
                        // the caller gives up when Wake(n) fires before the request resolved
                        let mut fut = std::pin::pin!(m.request_bind(&host, b.port, btype));
                        let mut stop = std::pin::pin!(parking.park(n));
                        let raced = std::future::poll_fn(|cx| {
                            if stop.as_mut().poll(cx).is_ready() {
                                return std::task::Poll::Ready(None);
                            }
                            fut.as_mut().poll(cx).map(Some)
                        })
                        .await;
                        match raced {
                            Some(r) => r,
                            None => {
                                log.app(AppEv::Note(format!("bind {idx} cancelled by its caller")));
                                return;
                            }
                        }
                    }
                };
                drop(m);
                log.app(AppEv::BindResolved { side: b.side, idx, result: r.map_err(|e| format!("{e:?}")) });
            });
        }
        exec.absorb_spawned();
        World {
            exec,
            link,
            log,
            parking,
            keep,
            mux: muxes,
            events: case.events.iter().cloned().map(|e| (e, false)).collect(),
            raw: case.raw.clone().map(|policy| RawPeerState { policy, connects_seen: 0, pushes: BTreeMap::new() }),
            step: 0,
            sched_phase: case.sched_phase,
            step_bound: if case.step_bound > 0 { case.step_bound as usize } else { STEP_BOUND },
            clock,
        }
    }

    fn enabled(&self, quiescent_ok: bool) -> Vec<Action> {
        // forced events first
        for (i, (e, fired)) in self.events.iter().enumerate() {
            if !fired {
                if let Trigger::ForcedAt(k) = e.when {
                    if self.step >= k as usize {
                        return vec![Action::Fire(i)];
                    }
                }
            }
        }
        let mut v: Vec<Action> = self.exec.ready_tasks().into_iter().map(Action::Poll).collect();
        {
            let l = self.link.0.lock().unwrap();
            for d in 0..2 {
                // (what a wedged sender has in flight sits in buffers the peer no longer reads)
                if !l.dir[d].inflight.is_empty() && !l.dir[d].wedged && !l.dir[d].hold {
                    v.push(Action::Deliver(d));
                }
            }
        }
        for (i, (e, fired)) in self.events.iter().enumerate() {
            if !fired {
                match e.when {
                    Trigger::FromStep(k) if self.step >= k as usize => v.push(Action::Fire(i)),
                    Trigger::AfterEvent(j) if self.events.get(j as usize).is_some_and(|x| x.1) => v.push(Action::Fire(i)),
                    _ => {}
                }
            }
        }
        if v.is_empty() && quiescent_ok {
            // quiescent: fire the next quiescence-triggered event, or a not-yet-due step-triggered one
            if let Some(i) = self.events.iter().position(|(e, fired)| !fired && matches!(e.when, Trigger::Quiescent)) {
                return vec![Action::Fire(i)];
            }
            if let Some(i) = self.events.iter().position(|(_, fired)| !fired) {
                return vec![Action::Fire(i)];
            }
        }
        v
    }

    fn deliver(&mut self, d: usize) {
        let receiver = 1 - d;
        let item = {
            let mut l = self.link.0.lock().unwrap();
            let dir = &mut l.dir[d];
            let item = dir.inflight.pop_front();
            if let Some(w) = dir.send_waker.take() {
                w.wake();
            }
            if dir.inflight.is_empty() || dir.wb_cap.is_some() {
                if let Some(w) = dir.flush_waker.take() {
                    w.wake();
                }
            }
            item
        };
        let Some(item) = item else { return };
        if receiver == 1 && self.raw.is_some() {
            self.raw_receive(item);
            return;
        }
        let mut l = self.link.0.lock().unwrap();
        // auto-pong like tungstenite: the receiving websocket answers a Ping by itself
        if l.auto_pong {
            if let Item::Msg(penguin_mux::ws::Message::Ping) = &item {
                let back = &mut l.dir[receiver];
                if !back.sink_err && !back.sink_closed && !back.blackhole {
                    back.inflight.push_back(Item::Msg(penguin_mux::ws::Message::Pong));
                }
            }
        }
        let dir = &mut l.dir[d];
        dir.delivered.push_back(item);
        if let Some(w) = dir.recv_waker.take() {
            w.wake();
        }
    }

    fn raw_receive(&mut self, item: Item) {
        let Item::Msg(m) = item else { return };
        let w = WMsg::from_message(&m);
        self.log.push(Ev::Recv { side: 1, msg: w.clone() });
        let st = self.raw.as_mut().unwrap();
        let mut replies: Vec<RawMsg> = vec![];
        match &w {
            WMsg::Frame(RFrame::Connect { id, host, .. }) => {
                st.connects_seen += 1;
                let muted = parse_tag(host).is_some_and(|t| st.policy.no_ack_streams.contains(&(t as u32)));
                if muted {
                } else if st.connects_seen <= st.policy.reject_first as u32 {
                    replies.push(RawMsg::Reset { id: *id });
                } else if let Some(rw) = st.policy.ack_connects {
                    replies.push(RawMsg::Ack { id: *id, n: rw });
                }
            }
            WMsg::Frame(RFrame::Push { id, .. }) => {
                if let Some(m) = st.policy.ack_every {
                    let c = st.pushes.entry(*id).or_default();
                    *c += 1;
                    if m > 0 && *c % m == 0 {
                        replies.push(RawMsg::Ack { id: *id, n: m });
                    }
                }
            }
            WMsg::Close => {
                if st.policy.answer_close {
                    replies.push(RawMsg::Close);
                }
            }
            WMsg::Ping => replies.push(RawMsg::Pong),
            _ => {}
        }
        for r in replies {
            self.inject(1, &r);
        }
    }

    fn inject(&mut self, from: Side, msg: &RawMsg) {
        let m = msg.to_message();
        self.log.push(Ev::Sent { side: from, msg: WMsg::from_message(&m), lost: false });
        let mut l = self.link.0.lock().unwrap();
        l.dir[from].inflight.push_back(Item::Msg(m));
    }

    fn fire(&mut self, i: usize) {
        self.events[i].1 = true;
        let what = self.events[i].0.what.clone();
        match what {
            What::Inject { from, msg } => self.inject(from, &msg),
            What::CutSink { side } => {
                self.log.push(Ev::Fault(format!("cut sink of {side}")));
                let mut l = self.link.0.lock().unwrap();
                let d = &mut l.dir[side];
                d.sink_err = true;
                d.inflight.clear();
                if let Some(w) = d.send_waker.take() {
                    w.wake();
                }
            }
            What::CutSource { side, err } => {
                self.log.push(Ev::Fault(format!("cut source of {side} ({})", if err { "error" } else { "eof" })));
                let mut l = self.link.0.lock().unwrap();
                let d = &mut l.dir[1 - side];
                d.inflight.clear();
                d.blackhole = true; // whatever the peer still sends is lost
                d.delivered.push_back(if err { Item::Err } else { Item::Eof });
                if let Some(w) = d.recv_waker.take() {
                    w.wake();
                }
                if let Some(w) = d.send_waker.take() {
                    w.wake();
                }
            }
            What::Hold { side, on } => {
                self.log.app(AppEv::Note(format!("link from side {side}: deliveries {}", if on { "held" } else { "released" })));
                self.link.0.lock().unwrap().dir[side].hold = on;
            }
            What::Wedge { side } => {
                // no Fault event: by itself a sink that is not writable ends nothing (the cut points of C08 key on Fault events)
                self.log.app(AppEv::Note(format!("sink of side {side} is not writable from now on")));
                self.link.0.lock().unwrap().dir[side].wedged = true;
            }
            What::Blackhole { side } => {
                self.log.push(Ev::Fault(format!("blackhole everything sent by {side}")));
                let mut l = self.link.0.lock().unwrap();
                let d = &mut l.dir[side];
                // what is already in flight still arrives; everything sent from now on is lost
                d.blackhole = true;
                if let Some(w) = d.send_waker.take() {
                    w.wake();
                }
            }
            What::DropMux { side } => {
                if self.mux[side].is_some() {
                    // every user of the handle goes away, then the handle itself
                    self.exec.cancel_where(|t| t.kind == TaskKind::MuxUser(side));
                    self.log.app(AppEv::MuxDropped { side });
                    let m = self.mux[side].take();
                    debug_assert!(m.as_ref().is_some_and(|m| Rc::strong_count(m) == 1));
                    drop(m);
                }
            }
            What::Wake(n) => {
                self.log.app(AppEv::Note(format!("wake {n}")));
                self.parking.wake(n);
            }
            What::Tick => {
                self.log.app(AppEv::Note("tick".into()));
                if self.clock.is_some() {
                    sim_runtime().block_on(tokio::time::advance(KEEPALIVE_TICK));
                }
            }
        }
    }

    fn apply(&mut self, a: Action) {
        self.log.set_step(self.step);
        match a {
            Action::Poll(i) => self.exec.poll_task(i),
            Action::Deliver(d) => self.deliver(d),
            Action::Fire(i) => self.fire(i),
        }
        self.step += 1;
    }

    /// Run: the schedule bytes pick among enabled actions; then a fair sweep to quiescence.
    pub fn run(mut self, schedule: &[u8]) -> RunResult {
        let mut scheduled = 0;
        // optional fair setup phase: sweep until the requested number of quiescence-triggered events has fired
        let phase = self.sched_phase as usize;
        while phase > 0 && self.step < self.step_bound {
            let fired_q = self.events.iter().filter(|(e, f)| *f && matches!(e.when, Trigger::Quiescent)).count();
            if fired_q >= phase {
                break;
            }
            let en = self.enabled(true);
            if en.is_empty() {
                break;
            }
            self.sweep(&en);
        }
        for b in schedule {
            let en = self.enabled(false);
            if en.is_empty() {
                break;
            }
            let a = en[vf_common::pick_index(*b, en.len())];
            self.apply(a);
            scheduled += 1;
            if self.link.0.lock().unwrap().oversize.is_some() {
                break;
            }
        }
        let mut quiescent = false;
        while self.step < self.step_bound {
            if self.link.0.lock().unwrap().oversize.is_some() {
                quiescent = true; // cut short on purpose: the oracles report it
                break;
            }
            let en = self.enabled(true);
            if en.is_empty() {
                quiescent = true;
                break;
            }
            self.sweep(&en);
        }
        let oversize = self.link.0.lock().unwrap().oversize;
        let mut task_exit = [None, None];
        let events = self.log.snapshot();
        for s in &events {
            if let Ev::TaskExit { side, result } = &s.ev {
                task_exit[*side] = Some(result.clone());
            }
        }
        let tasks = self.exec.tasks.iter().map(|t| (t.name.clone(), t.kind, t.done, t.cancelled)).collect();
        RunResult { events, tasks, task_exit, steps: self.step, quiescent, scheduled_steps: scheduled, oversize }
        // `self` (streams kept alive in cells, multiplexors) is dropped here, after the history was taken
    }

    /// fair sweep: every action enabled now is taken once, deliveries first
    fn sweep(&mut self, en: &[Action]) {
        {
            let mut acts: Vec<Action> = en.iter().copied().filter(|a| matches!(a, Action::Deliver(_))).collect();
            acts.extend(en.iter().copied().filter(|a| matches!(a, Action::Fire(_))));
            acts.extend(en.iter().copied().filter(|a| matches!(a, Action::Poll(_))));
            for a in acts {
                match a {
                    Action::Deliver(d) => {
                        // deliver everything currently in flight in that direction
                        let n = self.link.0.lock().unwrap().dir[d].inflight.len();
                        for _ in 0..n {
                            self.apply(Action::Deliver(d));
                        }
                    }
                    Action::Poll(i) => {
                        if !self.exec.tasks[i].done {
                            self.apply(a);
                        }
                    }
                    Action::Fire(i) => {
                        if !self.events[i].1 {
                            self.apply(a);
                        }
                    }
                }
            }
        }
    }
}

pub fn run_case(case: &Case) -> RunResult {
    World::new(case).run(&case.schedule)
}
