//! Case description, application actors and the run loop of simnet.
use crate::engine::*;
use bytes::Bytes;
use penguin_mux::config::Options;
use penguin_mux::frame::{BindType, Frame};
use penguin_mux::ws::Message;
use penguin_mux::{Datagram, Multiplexor, MuxStream};
use serde::{Deserialize, Serialize};
use std::cell::RefCell;
use std::convert::Infallible;
use std::future::{poll_fn, Future};
use std::pin::Pin;
use std::rc::Rc;
use std::task::Poll;
use tokio::io::{AsyncBufRead, AsyncRead, AsyncWrite, ReadBuf};

// ------------------------------------------------------------------ case description

#[derive(Clone, Debug, Hash, PartialEq, Eq, Serialize, Deserialize)]
pub struct OptsSpec {
    pub rwnd: u32,
    pub thr: u32,
    pub stream_buf: usize,
    pub dgram_buf: usize,
    pub bind_buf: usize,
    pub retries: usize,
}

impl Default for OptsSpec {
    fn default() -> Self {
        OptsSpec { rwnd: 4, thr: 2, stream_buf: 16, dgram_buf: 8, bind_buf: 0, retries: 3 }
    }
}

impl OptsSpec {
    pub fn options(&self) -> Options {
        Options::new()
            .rwnd(self.rwnd)
            .default_rwnd_threshold(self.thr)
            .stream_buffer_size(self.stream_buf)
            .datagram_buffer_size(self.dgram_buf)
            .bind_buffer_size(self.bind_buf)
            .max_flow_id_retries(self.retries)
    }
}

#[derive(Clone, Debug, Hash, PartialEq, Eq, Serialize, Deserialize)]
pub enum WOp {
    Write(u32),
    WriteV(Vec<u32>),
    Shutdown,
    Drop,
    Yield,
    /// sleep until the harness fires Wake(n)
    Park(u8),
    /// poll_flush (a no-op for a stream whose writes are sent at once: must succeed at any time and change nothing)
    Flush,
}

#[derive(Clone, Debug, Hash, PartialEq, Eq, Serialize, Deserialize)]
pub enum ROp {
    /// one poll_read with a buffer of that size (>= 1)
    Read(u32),
    /// poll_fill_buf, then consume min(n, len)
    Fill(u32),
    /// one buffer of that size filled by REPEATED poll_read calls on the same `ReadBuf` (what `read_exact` and tokio's copy do):
    /// a call that returns Ready without adding a byte is end-of-stream
    Exact(u32),
    /// the low-level reader of the public API: when the internal buffer is empty `poll_for_push` (its result must be the number of
    /// bytes now in `buf()`, 0 exactly at end-of-stream), then `buf()` is inspected and min(n, len) bytes are consumed
    LowLevel(u32),
    /// read with that buffer size until EOF
    ToEof(u32),
    Drop,
    Yield,
    Park(u8),
}

#[derive(Clone, Debug, Default, Hash, PartialEq, Eq, Serialize, Deserialize)]
pub struct EndScript {
    pub w: Vec<WOp>,
    pub r: Vec<ROp>,
}

#[derive(Clone, Debug, Hash, PartialEq, Eq, Serialize, Deserialize)]
pub struct StreamSpec {
    /// opener side
    pub side: Side,
    pub port: u16,
    /// extra host bytes after the tag
    pub pad: Vec<u8>,
    /// yields before opening
    pub delay: u8,
    /// park before opening (woken by Wake(n)) – used for probes at quiescence
    pub park: Option<u8>,
    /// the request is cancelled (its future dropped, as a caller with a timeout does) when Wake(n) fires before it completed
    #[serde(default)]
    pub cancel: Option<u8>,
    /// [opener end, acceptor end]
    pub ends: [EndScript; 2],
}

#[derive(Clone, Debug, Hash, PartialEq, Eq, Serialize, Deserialize)]
pub enum LR {
    Chunk(u32),
    /// Pending until Wake(n) fires
    PendingUntil(u8),
    PendingForever,
    Eof,
    Err,
}
#[derive(Clone, Debug, Hash, PartialEq, Eq, Serialize, Deserialize)]
pub enum LW {
    /// accept at most n (>= 1) bytes of this call
    AcceptUpTo(u32),
    PendingUntil(u8),
    Err,
}
#[derive(Clone, Debug, Hash, PartialEq, Eq, Serialize, Deserialize)]
pub enum LS {
    Ok,
    Err,
    PendingUntil(u8),
}
/// One end of a stream is not driven by reader/writer scripts but bridged to a scripted local byte stream
#[derive(Clone, Debug, Hash, PartialEq, Eq, Serialize, Deserialize)]
pub struct BridgeSpec {
    pub stream: u32,
    pub end: u8,
    pub read: Vec<LR>,
    pub write: Vec<LW>,
    /// the k-th flush call fails
    pub flush_err_at: Option<u8>,
    pub shutdown: LS,
    /// use the default entry point `into_copy_bidirectional` (the local side is a plain AsyncRead + AsyncWrite, buffered by
    /// the crate itself) instead of `into_copy_bidirectional_with_buf`
    #[serde(default)]
    pub plain: bool,
    /// (k, n): from its k-th call on (1-based), `poll_flush` returns Pending until Wake(n) has fired - a buffering local side
    /// (TLS, BufWriter, a pipe) whose flush has to wait for the consumer
    #[serde(default)]
    pub flush_pending: Option<(u8, u8)>,
    /// the local side supports vectored writes (like TcpStream / UnixStream): `is_write_vectored()` is true and
    /// `poll_write_vectored` takes bytes across the slices, partially when the write script says so
    #[serde(default)]
    pub vectored: bool,
    /// which `io::ErrorKind` the scripted failures of the local side carry (index into `LOCAL_ERR_KINDS`): every kind a socket, a
    /// pipe or a TLS stream can report is an error of that operation and ends the bridge with it
    #[serde(default)]
    pub err_kind: u8,
    /// the application first reads from the stream itself - one `poll_read` with a buffer of that many bytes (0 = none), which may
    /// take only the beginning of a frame - and converts the stream into the bridge afterwards (a protocol preamble read by hand,
    /// then `into_copy_bidirectional`): the rest of that frame and everything after it must be relayed as usual
    #[serde(default)]
    pub pre_read: u8,
}
pub const LOCAL_ERR_KINDS: [std::io::ErrorKind; 12] = [
    std::io::ErrorKind::ConnectionAborted,
    std::io::ErrorKind::NotConnected,
    std::io::ErrorKind::ConnectionReset,
    std::io::ErrorKind::BrokenPipe,
    std::io::ErrorKind::TimedOut,
    std::io::ErrorKind::UnexpectedEof,
    std::io::ErrorKind::Other,
    std::io::ErrorKind::InvalidData,
    std::io::ErrorKind::PermissionDenied,
    std::io::ErrorKind::WriteZero,
    std::io::ErrorKind::ConnectionRefused,
    std::io::ErrorKind::InvalidInput,
];

#[derive(Clone, Debug, Hash, PartialEq, Eq, Serialize, Deserialize)]
pub enum AcceptPolicy {
    /// accept forever
    All,
    /// accept exactly n streams then stop
    Count(u8),
    Never,
    /// an application that is busy at first: nothing is accepted until Wake(n) fires, then everything
    AfterWake(u8),
}

#[derive(Clone, Debug, Hash, PartialEq, Eq, Serialize, Deserialize)]
pub struct DgSpec {
    pub side: Side,
    pub flow_id: u32,
    pub host_len: u16,
    pub port: u16,
    pub data_len: u32,
    /// yields before sending; values from `DG_PARK` on: wait for the harness event `Wake(delay - DG_PARK)` instead
    pub delay: u8,
}
pub const DG_PARK: u8 = 200;

#[derive(Clone, Debug, Hash, PartialEq, Eq, Serialize, Deserialize)]
pub enum DgReader {
    None,
    /// read forever
    Eager,
    /// park (Wake(n)) first, then read forever
    AfterWake(u8),
    /// read k, then park(n), then forever
    Intermittent(u8, u8),
}

#[derive(Clone, Debug, Hash, PartialEq, Eq, Serialize, Deserialize)]
pub struct BindSpec {
    pub side: Side,
    pub dgram: bool,
    pub host: Vec<u8>,
    pub port: u16,
    pub delay: u8,
}

#[derive(Clone, Debug, Hash, PartialEq, Eq, Serialize, Deserialize)]
pub enum BindAnswer {
    Accept,
    Reject,
    DropIt,
    /// hold until the end of the run (never answered while the connection lives)
    Hold,
}

#[derive(Clone, Debug, Hash, PartialEq, Eq, Serialize, Deserialize)]
pub struct BindPolicy {
    /// answers by order of arrival; after the list: Reject
    pub answers: Vec<BindAnswer>,
    /// collect this many requests before answering them in `order` (permutation by sort keys)
    pub batch: u8,
    pub order: Vec<u8>,
    pub enabled: bool,
    /// the responding application calls `BindRequest::manual_ping()` on every request before it decides (a public method of the
    /// request object; it must not influence the outcome)
    #[serde(default)]
    pub ping_first: bool,
}

#[derive(Clone, Debug, Hash, PartialEq, Eq, Serialize, Deserialize)]
pub enum RawMsg {
    Connect { id: u32, rwnd: u32, port: u16, host: Vec<u8> },
    Ack { id: u32, n: u32 },
    Reset { id: u32 },
    Finish { id: u32 },
    Push { id: u32, len: u32 },
    /// Push on the flow of stream `stream` carrying that stream's payload function from `off` (so that the reader's content check applies)
    PushFor { id: u32, stream: u32, off: u32, len: u32 },
    Bind { id: u32, dgram: bool, port: u16, host: Vec<u8> },
    Datagram { id: u32, port: u16, host: Vec<u8>, data: Vec<u8> },
    /// like PushFor with the direction given (0 = written by the opener end of `stream`, 1 = by its acceptor end)
    PushDir { id: u32, stream: u32, dir: u8, off: u32, len: u32 },
    Bytes(Vec<u8>),
    Ping,
    Pong,
    Close,
}

impl RawMsg {
    pub fn to_message(&self) -> Message {
        let b = |f: Frame<'_>| Message::Binary(Bytes::from(Vec::<u8>::from(&f)));
        match self {
            RawMsg::Connect { id, rwnd, port, host } => b(Frame::new_connect(host, *port, *id, *rwnd)),
            RawMsg::Ack { id, n } => b(Frame::new_acknowledge(*id, *n)),
            RawMsg::Reset { id } => b(Frame::new_reset(*id)),
            RawMsg::Finish { id } => b(Frame::new_finish(*id)),
            RawMsg::Push { id, len } => {
                let data: Vec<u8> = (0..*len).map(|i| raw_byte(*id, i as usize)).collect();
                b(Frame::new_push(*id, &data))
            }
            RawMsg::PushFor { id, stream, off, len } => {
                let data: Vec<u8> = (0..*len).map(|i| pay(*stream as usize, 1 - 0, (*off + i) as usize)).collect();
                b(Frame::new_push(*id, &data))
            }
            RawMsg::PushDir { id, stream, dir, off, len } => {
                let data: Vec<u8> = (0..*len).map(|i| pay(*stream as usize, *dir as usize, (*off + i) as usize)).collect();
                b(Frame::new_push(*id, &data))
            }
            RawMsg::Bind { id, dgram, port, host } => b(Frame::new_bind(*id, if *dgram { BindType::Datagram } else { BindType::Stream }, host, *port)),
            RawMsg::Datagram { id, port, host, data } => b(Frame::new_datagram(*id, host, *port, data)),
            RawMsg::Bytes(v) => Message::Binary(Bytes::from(v.clone())),
            RawMsg::Ping => Message::Ping,
            RawMsg::Pong => Message::Pong,
            RawMsg::Close => Message::Close,
        }
    }
}

pub fn raw_byte(id: u32, off: usize) -> u8 {
    (vf_common::splitmix(((id as u64) << 32) ^ off as u64 ^ 0x5555) >> 16) as u8
}

#[derive(Clone, Debug, Hash, PartialEq, Eq, Serialize, Deserialize)]
pub enum What {
    /// put a message into the in-flight queue of direction `from` (as if side `from` had sent it)
    Inject { from: Side, msg: RawMsg },
    /// the sink of `side` fails from now on; what it had in flight is lost
    CutSink { side: Side },
    /// the source of `side` ends: in-flight towards it is lost, then EOF (err=false) or an error
    CutSource { side: Side, err: bool },
    /// everything `side` sends from now on is silently lost
    Blackhole { side: Side },
    DropMux { side: Side },
    Wake(u8),
    /// the sink of `side` stops being writable (poll_ready / flush / close stay Pending, nothing it has in flight is delivered):
    /// a peer that no longer reads, without any error
    Wedge { side: Side },
    /// a slow link: while `on`, nothing that `side` has in flight is delivered (released by a later Hold{on: false})
    Hold { side: Side, on: bool },
    /// virtual time advances by one keepalive interval (sides with `Case::keepalive` queue a Ping)
    Tick,
}

#[derive(Clone, Debug, Hash, PartialEq, Eq, Serialize, Deserialize)]
pub enum Trigger {
    /// enabled from that step on; chosen by the schedule like any other action
    FromStep(u32),
    /// forced exactly at that step (C08 cut points)
    ForcedAt(u32),
    /// fired only when the system is otherwise quiescent, in list order
    Quiescent,
    /// enabled (schedulable) once the event with that index has fired
    AfterEvent(u32),
}

#[derive(Clone, Debug, Hash, PartialEq, Eq, Serialize, Deserialize)]
pub struct RawEvent {
    pub when: Trigger,
    pub what: What,
}

/// Reactive behaviour of a raw (harness-driven) peer on side B.
#[derive(Clone, Debug, Default, Hash, PartialEq, Eq, Serialize, Deserialize)]
pub struct RawPolicy {
    /// answer the first k Connects with Reset
    pub reject_first: u8,
    /// acknowledge further Connects with this window (None: ignore them)
    pub ack_connects: Option<u32>,
    /// after every m-th Push on a flow send Acknowledge(m) (None: withhold credit)
    pub ack_every: Option<u32>,
    /// answer Close with Close (a conforming peer); false = stay silent
    pub answer_close: bool,
    /// Connects whose host tag names one of these streams are left unanswered
    #[serde(default)]
    pub no_ack_streams: Vec<u32>,
}

#[derive(Clone, Debug, Hash, PartialEq, Eq, Serialize, Deserialize)]
pub struct Case {
    pub opts: [OptsSpec; 2],
    pub cap: [Option<u8>; 2],
    pub rng: [Vec<u32>; 2],
    pub streams: Vec<StreamSpec>,
    pub acceptors: [AcceptPolicy; 2],
    pub dgrams: Vec<DgSpec>,
    pub dg_readers: [DgReader; 2],
    pub binds: Vec<BindSpec>,
    pub bind_policy: [BindPolicy; 2],
    /// Some: side B is a raw peer driven by the harness
    pub raw: Option<RawPolicy>,
    pub events: Vec<RawEvent>,
    pub schedule: Vec<u8>,
    /// number of quiescence-triggered events that must have fired before the schedule bytes are used (fair sweeps until then)
    #[serde(default)]
    pub sched_phase: u8,
    #[serde(default)]
    pub bridges: Vec<BridgeSpec>,
    /// keepalive pings enabled on that side (interval = one `What::Tick`; no timeout): Ping messages share the outbound
    /// queue with frames
    #[serde(default)]
    pub keepalive: [bool; 2],
    /// step bound of this case (0 = the default `run::STEP_BOUND`); directed families with very many frames raise it
    #[serde(default)]
    pub step_bound: u32,
    /// Some(n): the callers of the bind requests give up (drop the future) when Wake(n) fires
    #[serde(default)]
    pub bind_cancel: Option<u8>,
    /// buffering transport on that side (see `Dir::flush_waits`)
    #[serde(default)]
    pub flush_waits: [bool; 2],
    /// keepalive timeout of the sides with `keepalive`, in ticks (0 = none)
    #[serde(default)]
    pub keepalive_timeout_ticks: u8,
    /// write-behind transport on that side: output buffer of that many messages (see `Dir::wb_cap`)
    #[serde(default)]
    pub write_behind: [Option<u8>; 2],
}

impl Default for BindPolicy {
    fn default() -> Self {
        BindPolicy { answers: vec![], batch: 1, order: vec![], enabled: false, ping_first: false }
    }
}

impl Default for Case {
    fn default() -> Self {
        Case {
            opts: [OptsSpec::default(), OptsSpec::default()],
            cap: [None, None],
            rng: [vec![], vec![]],
            streams: vec![],
            acceptors: [AcceptPolicy::All, AcceptPolicy::All],
            dgrams: vec![],
            dg_readers: [DgReader::None, DgReader::None],
            binds: vec![],
            bind_policy: [BindPolicy::default(), BindPolicy::default()],
            raw: None,
            events: vec![],
            schedule: vec![],
            sched_phase: 0,
            bridges: vec![],
            keepalive: [false, false],
            step_bound: 0,
            bind_cancel: None,
            flush_waits: [false, false],
            keepalive_timeout_ticks: 0,
            write_behind: [None, None],
        }
    }
}

// ------------------------------------------------------------------ payload function

pub fn pay(stream: usize, dir: usize, off: usize) -> u8 {
    (vf_common::splitmix(((stream as u64) << 40) ^ ((dir as u64) << 36) ^ off as u64) >> 24) as u8
}

/// A `pad` that starts with this marker asks for a VERBATIM target host: the rest of the pad is the whole host, without the
/// `s<idx>.` tag that normally identifies a stream. Such streams are recognised through a per-thread table of the verbatim hosts of
/// the case being run (they must be distinct within a case); a host that is altered anywhere on the way is then not recognised
/// by the accepting side, which the C07 oracle reports.
pub const VERBATIM_MARK: &[u8] = b"\x01\x02verbatim:";
thread_local! {
    static VERBATIM: std::cell::RefCell<Vec<(Vec<u8>, usize)>> = const { std::cell::RefCell::new(Vec::new()) };
}
pub fn register_verbatim(case: &Case) {
    BIND_VERBATIM.with(|v| {
        let mut v = v.borrow_mut();
        v.clear();
        for (k, b) in case.binds.iter().enumerate() {
            if let Some(h) = b.host.strip_prefix(VERBATIM_MARK) {
                v.push((h.to_vec(), k));
            }
        }
    });
    VERBATIM.with(|v| {
        let mut v = v.borrow_mut();
        v.clear();
        for (i, st) in case.streams.iter().enumerate() {
            if let Some(h) = st.pad.strip_prefix(VERBATIM_MARK) {
                v.push((h.to_vec(), i));
            }
        }
    });
}
thread_local! {
    static BIND_VERBATIM: std::cell::RefCell<Vec<(Vec<u8>, usize)>> = const { std::cell::RefCell::new(Vec::new()) };
}
/// host of bind request `k`: `b<k>.` + the generated bytes, or (with the marker) the generated bytes verbatim
pub fn bind_host(k: usize, host: &[u8]) -> Vec<u8> {
    if let Some(h) = host.strip_prefix(VERBATIM_MARK) {
        return h.to_vec();
    }
    let mut v = format!("b{k}.").into_bytes();
    v.extend_from_slice(host);
    v
}
pub fn parse_bind_tag(host: &[u8]) -> Option<usize> {
    if let Some(k) = BIND_VERBATIM.with(|v| v.borrow().iter().find(|(h, _)| h == host).map(|x| x.1)) {
        return Some(k);
    }
    if host.first() != Some(&b'b') {
        return None;
    }
    let dot = host.iter().position(|b| *b == b'.')?;
    std::str::from_utf8(&host[1..dot]).ok()?.parse().ok()
}
pub fn tag_host(idx: usize, pad: &[u8]) -> Vec<u8> {
    if let Some(h) = pad.strip_prefix(VERBATIM_MARK) {
        return h.to_vec();
    }
    let mut v = format!("s{idx}.").into_bytes();
    v.extend_from_slice(pad);
    v
}
pub fn parse_tag(host: &[u8]) -> Option<usize> {
    if let Some(i) = VERBATIM.with(|v| v.borrow().iter().find(|(h, _)| h == host).map(|x| x.1)) {
        return Some(i);
    }
    if host.first() != Some(&b's') {
        return None;
    }
    let dot = host.iter().position(|b| *b == b'.')?;
    std::str::from_utf8(&host[1..dot]).ok()?.parse().ok()
}
/// `host_len` values from 0x8000 select entry `host_len - 0x8000` of `vf_common::host_dictionary()` as the WHOLE host (no tag):
/// hosts that mean something to some layer must travel as opaque octets like any other
pub const DG_DICT: usize = 0x8000;
pub fn dg_host_len(host_len: usize) -> usize {
    if host_len >= DG_DICT { dg_host(0, host_len).len() } else { host_len }
}
pub fn dg_host(idx: usize, len: usize) -> Vec<u8> {
    if len >= DG_DICT {
        let d = vf_common::host_dictionary();
        return d[(len - DG_DICT) % d.len()].clone();
    }
    let mut v = format!("d{idx}.").into_bytes();
    // the host is a byte string, not text: after the tag come octets from the whole range (NUL, >= 0x80, 0xff, invalid UTF-8)
    while v.len() < len {
        let k = v.len();
        v.push(match (idx + k) % 5 {
            0 => b'a' + (k % 26) as u8,
            1 => 0x80 | (k as u8).wrapping_mul(37),
            2 => 0xff,
            3 => 0x00,
            _ => 0xc3,
        });
    }
    v.truncate(len);
    v
}
pub fn dg_data(idx: usize, len: usize) -> Vec<u8> {
    (0..len).map(|o| pay(1000 + idx, 2, o)).collect()
}

// ------------------------------------------------------------------ scripted RNG

pub struct ScriptRng {
    script: std::collections::VecDeque<u32>,
    state: u64,
}
impl ScriptRng {
    pub fn new(script: &[u32], seed: u64) -> Self {
        ScriptRng { script: script.iter().copied().collect(), state: seed }
    }
    fn next(&mut self) -> u64 {
        self.state = vf_common::splitmix(self.state);
        self.state
    }
}
impl rand::rand_core::TryRng for ScriptRng {
    type Error = Infallible;
    fn try_next_u32(&mut self) -> Result<u32, Infallible> {
        Ok(match self.script.pop_front() {
            Some(x) => x,
            None => (self.next() >> 32) as u32,
        })
    }
    fn try_next_u64(&mut self) -> Result<u64, Infallible> {
        Ok(match self.script.pop_front() {
            Some(x) => u64::from(x),
            None => self.next(),
        })
    }
    fn try_fill_bytes(&mut self, dst: &mut [u8]) -> Result<(), Infallible> {
        for chunk in dst.chunks_mut(4) {
            let v = self.try_next_u32()?.to_le_bytes();
            chunk.copy_from_slice(&v[..chunk.len()]);
        }
        Ok(())
    }
}

pub type Mux = Multiplexor<ScriptRng>;

// ------------------------------------------------------------------ parking

#[derive(Default)]
pub struct ParkInner {
    pub woken: std::collections::HashSet<u8>,
    pub wakers: Vec<(u8, std::task::Waker)>,
}
#[derive(Clone, Default)]
pub struct Parking(pub Rc<RefCell<ParkInner>>);
impl Parking {
    pub fn park(&self, n: u8) -> impl Future<Output = ()> + use<> {
        let p = self.clone();
        poll_fn(move |cx| {
            let mut g = p.0.borrow_mut();
            if g.woken.contains(&n) {
                Poll::Ready(())
            } else {
                g.wakers.push((n, cx.waker().clone()));
                Poll::Pending
            }
        })
    }
    pub fn wake(&self, n: u8) {
        let mut g = self.0.borrow_mut();
        g.woken.insert(n);
        let ws: Vec<_> = g.wakers.drain(..).collect();
        for (k, w) in ws {
            if k == n {
                w.wake();
            } else {
                g.wakers.push((k, w));
            }
        }
    }
}

pub async fn yield_once() {
    let mut done = false;
    poll_fn(|cx| {
        if done {
            Poll::Ready(())
        } else {
            done = true;
            cx.waker().wake_by_ref();
            Poll::Pending
        }
    })
    .await
}

// ------------------------------------------------------------------ stream scripts

pub type StreamCell = Rc<RefCell<Option<MuxStream>>>;
thread_local! {
    /// wakers of stream-half tasks that are pending; woken when a sibling half drops the stream
    static HALF_WAKERS: RefCell<Vec<std::task::Waker>> = const { RefCell::new(Vec::new()) };
}
fn note_pending(cx: &std::task::Context<'_>) {
    HALF_WAKERS.with(|w| {
        let mut w = w.borrow_mut();
        if w.len() > 256 {
            w.clear();
        }
        w.push(cx.waker().clone());
    });
}
fn wake_halves() {
    let ws: Vec<_> = HALF_WAKERS.with(|w| w.borrow_mut().drain(..).collect());
    for w in ws {
        w.wake();
    }
}

pub fn err_kind(e: &std::io::Error) -> String {
    format!("{:?}", e.kind())
}

/// Writer half of one stream end.
pub async fn run_writer(cell: StreamCell, stream: usize, end: usize, ops: Vec<WOp>, log: Log, parking: Parking) {
    let dir = end; // end 0 writes direction 0 (opener -> acceptor)
    let mut off = 0usize;
    for op in ops {
        match op {
            WOp::Yield => yield_once().await,
            WOp::Park(n) => parking.park(n).await,
            WOp::Flush => {
                let r = poll_fn(|cx| {
                    let mut g = cell.borrow_mut();
                    match g.as_mut() {
                        None => Poll::Ready(None),
                        Some(s) => Pin::new(s).poll_flush(cx).map(Some),
                    }
                })
                .await;
                match r {
                    None => return,
                    Some(Ok(())) => {}
                    Some(Err(e)) => log.app(AppEv::WriteErr { stream, end, kind: format!("flush:{}", err_kind(&e)) }),
                }
            }
            WOp::Shutdown => {
                let r = poll_fn(|cx| {
                    let mut g = cell.borrow_mut();
                    match g.as_mut() {
                        None => Poll::Ready(None),
                        // one shutdown in three through the public `do_shutdown` (what `poll_shutdown` wraps)
                        Some(s) if (stream + off) % 3 == 2 => {
                            s.do_shutdown();
                            Poll::Ready(Some(Ok(())))
                        }
                        Some(s) => Pin::new(s).poll_shutdown(cx).map(Some),
                    }
                })
                .await;
                match r {
                    None => return,
                    Some(Ok(())) => log.app(AppEv::Shutdown { stream, end }),
                    Some(Err(e)) => log.app(AppEv::WriteErr { stream, end, kind: format!("shutdown:{}", err_kind(&e)) }),
                }
            }
            WOp::Drop => {
                let s = cell.borrow_mut().take();
                if s.is_some() {
                    // log before the real Drop runs: the order in the history is "app let go" then whatever the drop causes
                    log.app(AppEv::Dropped { stream, end });
                }
                drop(s);
                wake_halves();
                return;
            }
            WOp::Write(len) => {
                let buf: Vec<u8> = (0..len as usize).map(|i| pay(stream, dir, off + i)).collect();
                let mut blocked = false;
                let direct = len > 0 && (stream + off + len as usize) % 4 == 3;
                let r = poll_fn(|cx| {
                    let mut g = cell.borrow_mut();
                    match g.as_mut() {
                        None => Poll::Ready(None),
                        // one write in four goes through the public lower-level entry point `poll_write_push` (what `poll_write` wraps;
                        // `None` = closed = BrokenPipe) instead of the AsyncWrite impl
                        Some(s) => match if direct { s.poll_write_push(cx, &buf).map(|r| r.map(|()| buf.len()).ok_or_else(|| std::io::Error::from(std::io::ErrorKind::BrokenPipe))) } else { Pin::new(s).poll_write(cx, &buf) } {
                            Poll::Pending => {
                                note_pending(cx);
                                if !blocked {
                                    blocked = true;
                                    log.app(AppEv::WriteBlocked { stream, end });
                                }
                                Poll::Pending
                            }
                            Poll::Ready(x) => Poll::Ready(Some(x)),
                        },
                    }
                })
                .await;
                match r {
                    None => return,
                    Some(Ok(n)) => {
                        off += n;
                        log.app(AppEv::WriteOk { stream, end, n, vectored: false, empty: len == 0 });
                    }
                    Some(Err(e)) => {
                        log.app(AppEv::WriteErr { stream, end, kind: err_kind(&e) });
                    }
                }
            }
            WOp::WriteV(lens) => {
                let mut bufs: Vec<Vec<u8>> = vec![];
                let mut o = off;
                for l in &lens {
                    bufs.push((0..*l as usize).map(|i| pay(stream, dir, o + i)).collect());
                    o += *l as usize;
                }
                let total: usize = lens.iter().map(|l| *l as usize).sum();
                let mut blocked = false;
                let r = poll_fn(|cx| {
                    let mut g = cell.borrow_mut();
                    match g.as_mut() {
                        None => Poll::Ready(None),
                        Some(s) => {
                            let slices: Vec<std::io::IoSlice<'_>> = bufs.iter().map(|b| std::io::IoSlice::new(b)).collect();
                            match Pin::new(s).poll_write_vectored(cx, &slices) {
                                Poll::Pending => {
                                    note_pending(cx);
                                    if !blocked {
                                        blocked = true;
                                        log.app(AppEv::WriteBlocked { stream, end });
                                    }
                                    Poll::Pending
                                }
                                Poll::Ready(x) => Poll::Ready(Some(x)),
                            }
                        }
                    }
                })
                .await;
                match r {
                    None => return,
                    Some(Ok(n)) => {
                        off += n;
                        log.app(AppEv::WriteOk { stream, end, n, vectored: true, empty: total == 0 });
                    }
                    Some(Err(e)) => log.app(AppEv::WriteErr { stream, end, kind: err_kind(&e) }),
                }
            }
        }
    }
}

/// Reader half of one stream end. Logs ReadOk{n = bytes consumed}; `exposed` bytes are tracked in a Note-free way:
/// ReadOk for fill_buf carries the consumed count, and an extra Exposed note when more bytes were visible.
pub async fn run_reader(cell: StreamCell, stream: usize, end: usize, ops: Vec<ROp>, log: Log, parking: Parking) {
    let dir = 1 - end; // end 0 reads direction 1
    let mut off = 0usize;
    let mut eof = false;
    for op in ops {
        if eof && matches!(op, ROp::Read(_) | ROp::Fill(_) | ROp::ToEof(_) | ROp::LowLevel(_) | ROp::Exact(_)) {
            // nothing more to read; later Drop/Park/Yield steps of the script still run
            continue;
        }
        match op {
            ROp::Yield => yield_once().await,
            ROp::Park(n) => parking.park(n).await,
            ROp::Drop => {
                let s = cell.borrow_mut().take();
                if s.is_some() {
                    log.app(AppEv::Dropped { stream, end });
                }
                drop(s);
                wake_halves();
                return;
            }
            ROp::Read(n) | ROp::ToEof(n) => {
                let to_eof = matches!(op, ROp::ToEof(_));
                loop {
                    let mut buf = vec![0u8; (n as usize).max(1)];
                    let mut blocked = false;
                    let r = poll_fn(|cx| {
                        let mut g = cell.borrow_mut();
                        match g.as_mut() {
                            None => Poll::Ready(None),
                            Some(s) => {
                                let mut rb = ReadBuf::new(&mut buf);
                                match Pin::new(s).poll_read(cx, &mut rb) {
                                    Poll::Pending => {
                                        note_pending(cx);
                                        if !blocked {
                                            blocked = true;
                                            log.app(AppEv::ReadBlocked { stream, end });
                                        }
                                        Poll::Pending
                                    }
                                    Poll::Ready(Ok(())) => Poll::Ready(Some(Ok(rb.filled().len()))),
                                    Poll::Ready(Err(e)) => Poll::Ready(Some(Err(e))),
                                }
                            }
                        }
                    })
                    .await;
                    match r {
                        None => return,
                        Some(Err(e)) => {
                            log.app(AppEv::ReadErr { stream, end, kind: err_kind(&e) });
                            return;
                        }
                        Some(Ok(0)) => {
                            log.app(AppEv::ReadEof { stream, end });
                            eof = true;
                            break;
                        }
                        Some(Ok(k)) => {
                            let mut bad = false;
                            for (i, b) in buf[..k].iter().enumerate() {
                                let want = pay(stream, dir, off + i);
                                if *b != want {
                                    log.app(AppEv::DataMismatch { stream, end, offset: off + i, got: *b, want });
                                    bad = true;
                                    break;
                                }
                            }
                            off += k;
                            log.app(AppEv::ReadOk { stream, end, n: k });
                            if bad {
                                // the integrity oracle reports it; reading on could go on for ever (a stream that repeats itself)
                                return;
                            }
                        }
                    }
                    if !to_eof {
                        break;
                    }
                }
            }
            ROp::Exact(n) => {
                let mut buf = vec![0u8; (n as usize).max(1)];
                let mut filled = 0usize;
                // each wait for more data is a separate poll sequence on the SAME partly filled buffer
                while filled < buf.len() && !eof {
                    let mut blocked = false;
                    let r = poll_fn(|cx| {
                        let mut g = cell.borrow_mut();
                        match g.as_mut() {
                            None => Poll::Ready(None),
                            Some(s) => {
                                let mut rb = ReadBuf::new(&mut buf);
                                rb.set_filled(filled);
                                match Pin::new(s).poll_read(cx, &mut rb) {
                                    Poll::Pending => {
                                        note_pending(cx);
                                        if !blocked {
                                            blocked = true;
                                            log.app(AppEv::ReadBlocked { stream, end });
                                        }
                                        Poll::Pending
                                    }
                                    Poll::Ready(Ok(())) => Poll::Ready(Some(Ok(rb.filled().len()))),
                                    Poll::Ready(Err(e)) => Poll::Ready(Some(Err(e))),
                                }
                            }
                        }
                    })
                    .await;
                    match r {
                        None => return,
                        Some(Err(e)) => {
                            log.app(AppEv::ReadErr { stream, end, kind: err_kind(&e) });
                            return;
                        }
                        Some(Ok(now)) if now == filled => {
                            log.app(AppEv::ReadEof { stream, end });
                            eof = true;
                        }
                        Some(Ok(now)) => {
                            let k = now - filled;
                            let mut bad = false;
                            for (i, b) in buf[filled..now].iter().enumerate() {
                                let want = pay(stream, dir, off + i);
                                if *b != want {
                                    log.app(AppEv::DataMismatch { stream, end, offset: off + i, got: *b, want });
                                    bad = true;
                                    break;
                                }
                            }
                            off += k;
                            filled = now;
                            log.app(AppEv::ReadOk { stream, end, n: k });
                            if bad {
                                return;
                            }
                        }
                    }
                }
            }
            ROp::LowLevel(consume) => {
                let mut blocked = false;
                let r = poll_fn(|cx| {
                    let mut g = cell.borrow_mut();
                    match g.as_mut() {
                        None => Poll::Ready(None),
                        Some(s) => {
                            if s.buf().is_empty() {
                                match s.poll_for_push(cx) {
                                    Poll::Pending => {
                                        note_pending(cx);
                                        if !blocked {
                                            blocked = true;
                                            log.app(AppEv::ReadBlocked { stream, end });
                                        }
                                        return Poll::Pending;
                                    }
                                    Poll::Ready(n) => {
                                        let have = s.buf().len();
                                        if n != have {
                                            log.app(AppEv::Note(format!("api-contract poll_for_push returned {n} with {have} bytes in buf()")));
                                            // reported through the integrity oracle as a mismatch at the current offset
                                            log.app(AppEv::DataMismatch { stream, end, offset: usize::MAX, got: n as u8, want: have as u8 });
                                        }
                                    }
                                }
                            }
                            let seen = s.buf().to_vec();
                            let c = (consume as usize).min(seen.len());
                            Pin::new(s).consume(c);
                            Poll::Ready(Some((seen, c)))
                        }
                    }
                })
                .await;
                match r {
                    None => return,
                    Some((seen, c)) => {
                        if seen.is_empty() {
                            log.app(AppEv::ReadEof { stream, end });
                            eof = true;
                        } else {
                            let mut bad = false;
                            for (i, b) in seen.iter().enumerate() {
                                let want = pay(stream, dir, off + i);
                                if *b != want {
                                    log.app(AppEv::DataMismatch { stream, end, offset: off + i, got: *b, want });
                                    bad = true;
                                    break;
                                }
                            }
                            if seen.len() > c {
                                log.app(AppEv::Note(format!("exposed {stream} {end} {}", off + seen.len())));
                            }
                            off += c;
                            log.app(AppEv::ReadOk { stream, end, n: c });
                            if bad {
                                return;
                            }
                        }
                    }
                }
            }
            ROp::Fill(consume) => {
                let mut blocked = false;
                let r = poll_fn(|cx| {
                    let mut g = cell.borrow_mut();
                    match g.as_mut() {
                        None => Poll::Ready(None),
                        Some(s) => match Pin::new(&mut *s).poll_fill_buf(cx) {
                            Poll::Pending => {
                                note_pending(cx);
                                if !blocked {
                                    blocked = true;
                                    log.app(AppEv::ReadBlocked { stream, end });
                                }
                                Poll::Pending
                            }
                            Poll::Ready(Err(e)) => Poll::Ready(Some(Err(e))),
                            Poll::Ready(Ok(sl)) => {
                                let seen = sl.to_vec();
                                let c = (consume as usize).min(seen.len());
                                Pin::new(s).consume(c);
                                Poll::Ready(Some(Ok((seen, c))))
                            }
                        },
                    }
                })
                .await;
                match r {
                    None => return,
                    Some(Err(e)) => {
                        log.app(AppEv::ReadErr { stream, end, kind: err_kind(&e) });
                        return;
                    }
                    Some(Ok((seen, c))) => {
                        if seen.is_empty() {
                            log.app(AppEv::ReadEof { stream, end });
                            eof = true;
                        } else {
                            let mut bad = false;
                            for (i, b) in seen.iter().enumerate() {
                                let want = pay(stream, dir, off + i);
                                if *b != want {
                                    log.app(AppEv::DataMismatch { stream, end, offset: off + i, got: *b, want });
                                    bad = true;
                                    break;
                                }
                            }
                            if bad {
                                log.app(AppEv::ReadOk { stream, end, n: c });
                                return;
                            }
                            if seen.len() > c {
                                log.app(AppEv::Note(format!("exposed {stream} {end} {}", off + seen.len())));
                            }
                            off += c;
                            log.app(AppEv::ReadOk { stream, end, n: c });
                        }
                    }
                }
            }
        }
    }
}

/// streams that the application "keeps" stay alive until the world is torn down
#[derive(Clone, Default)]
pub struct Keeper(pub Rc<RefCell<Vec<StreamCell>>>, pub Rc<Vec<BridgeSpec>>);

pub fn spawn_end(sp: &Spawner, keep: &Keeper, side: Side, s: MuxStream, stream: usize, end: usize, script: &EndScript, log: &Log, parking: &Parking) {
    if let Some(b) = keep.1.iter().find(|b| b.stream as usize == stream && b.end as usize == end) {
        let local = ScriptedLocal::new(b.clone(), log.clone(), parking.clone());
        let log2 = log.clone();
        let plain = b.plain;
        let pre_read = b.pre_read as usize;
        let parking3 = parking.clone();
        let mut local = local;
        let mut s = s;
        sp.spawn(format!("s{stream}e{end}bridge"), TaskKind::StreamUser(side), async move {
            if pre_read > 0 {
                let mut buf = vec![0u8; pre_read];
                // (an application that waits for a preamble the peer never sends is its own problem: the hand-made read gives up
                // when the last scripted wake-up, Wake(3), has fired, and the stream goes to the bridge untouched)
                let parking2 = parking3.clone();
                let got = poll_fn(|cx| {
                    let mut rb = ReadBuf::new(&mut buf);
                    match Pin::new(&mut s).poll_read(cx, &mut rb) {
                        Poll::Pending => {
                            let mut g = parking2.0.borrow_mut();
                            if g.woken.contains(&3) {
                                Poll::Ready(Ok(None))
                            } else {
                                g.wakers.push((3, cx.waker().clone()));
                                Poll::Pending
                            }
                        }
                        Poll::Ready(Ok(())) => Poll::Ready(Ok(Some(rb.filled().len()))),
                        Poll::Ready(Err(e)) => Poll::Ready(Err(e)),
                    }
                })
                .await;
                match got {
                    Ok(None) => {}
                    Ok(Some(n)) => {
                        log2.app(AppEv::Note(format!("pre-read {n}")));
                        let dir = 1 - end;
                        for (i, b) in buf[..n].iter().enumerate() {
                            let want = pay(stream, dir, i);
                            if *b != want {
                                log2.app(AppEv::DataMismatch { stream, end, offset: i, got: *b, want });
                                break;
                            }
                        }
                        if n > 0 {
                            log2.app(AppEv::Note(format!("exposed {stream} {end} {n}")));
                            log2.app(AppEv::ReadOk { stream, end, n });
                        } else {
                            log2.app(AppEv::ReadEof { stream, end });
                        }
                        local.woff = n;
                    }
                    Err(e) => log2.app(AppEv::ReadErr { stream, end, kind: err_kind(&e) }),
                }
            }
            let r = if plain {
                let fut = s.into_copy_bidirectional(local);
                let mut fut = std::pin::pin!(fut);
                fut.as_mut().await
            } else {
                let fut = s.into_copy_bidirectional_with_buf(local);
                let mut fut = std::pin::pin!(fut);
                fut.as_mut().await
            };
            log2.app(AppEv::BridgeDone { stream, result: r.map_err(|e| err_kind(&e)) });
            // the completed bridge owns the stream: it is dropped with the future (when this task ends)
            log2.app(AppEv::Dropped { stream, end });
        });
        return;
    }
    let cell: StreamCell = Rc::new(RefCell::new(Some(s)));
    keep.0.borrow_mut().push(cell.clone());
    sp.spawn(
        format!("s{stream}e{end}w"),
        TaskKind::StreamUser(side),
        run_writer(cell.clone(), stream, end, script.w.clone(), log.clone(), parking.clone()),
    );
    sp.spawn(
        format!("s{stream}e{end}r"),
        TaskKind::StreamUser(side),
        run_reader(cell, stream, end, script.r.clone(), log.clone(), parking.clone()),
    );
}

// ------------------------------------------------------------------ scripted local side of a bridge

pub struct ScriptedLocal {
    spec: BridgeSpec,
    log: Log,
    parking: Parking,
    stream: usize,
    // read half
    ri: usize,
    chunk_left: usize,
    chunk_buf: Vec<u8>,
    roff: usize,
    // write half
    wi: usize,
    woff: usize,
    flushes: u8,
    poisoned: bool,
    /// bytes accepted by `poll_write` since the last COMPLETED flush (a buffering local side - BufWriter, TLS, a pipe - holds them back)
    unflushed: usize,
    /// something was consumed from the read half since the last time `poll_fill_buf` returned Pending
    consumed_since_pending: bool,
}

impl ScriptedLocal {
    pub fn new(spec: BridgeSpec, log: Log, parking: Parking) -> Self {
        let stream = spec.stream as usize;
        ScriptedLocal { spec, log, parking, stream, ri: 0, chunk_left: 0, chunk_buf: vec![], roff: 0, wi: 0, woff: 0, flushes: 0, poisoned: false, unflushed: 0, consumed_since_pending: false }
    }
    fn wait(&self, n: u8, cx: &mut std::task::Context<'_>) -> bool {
        let mut g = self.parking.0.borrow_mut();
        if g.woken.contains(&n) {
            true
        } else {
            g.wakers.push((n, cx.waker().clone()));
            false
        }
    }
    /// `poll_fill_buf` is about to return Pending. If nothing was consumed since the previous time, this is the FIRST read attempt of a
    /// poll of the bridge (the previous poll ended with a pending read as well): the bridge's own rule is to flush the local writer
    /// before it goes to sleep on such a poll, so whatever it wrote to a buffering local side becomes visible.
    fn note_fill_pending(&mut self) {
        let first_of_poll = !self.consumed_since_pending;
        self.consumed_since_pending = false;
        if self.unflushed > 0 {
            self.log.app(AppEv::Note(format!("lstate unflushed={} after=read-pending first-of-poll={}", self.unflushed, u8::from(first_of_poll))));
        }
    }
    fn io_err(&self, what: &str) -> std::io::Error {
        std::io::Error::new(LOCAL_ERR_KINDS[self.spec.err_kind as usize % LOCAL_ERR_KINDS.len()], what.to_string())
    }
    fn kind_name(&self) -> String {
        format!("{:?}", LOCAL_ERR_KINDS[self.spec.err_kind as usize % LOCAL_ERR_KINDS.len()])
    }
}

impl AsyncRead for ScriptedLocal {
    /// used by the default entry point, which wraps the local side in its own buffered reader
    fn poll_read(self: Pin<&mut Self>, cx: &mut std::task::Context<'_>, buf: &mut ReadBuf<'_>) -> Poll<std::io::Result<()>> {
        let me = self.get_mut();
        let n = {
            let data = match Pin::new(&mut *me).poll_fill_buf(cx) {
                Poll::Ready(Ok(d)) => d,
                Poll::Ready(Err(e)) => return Poll::Ready(Err(e)),
                Poll::Pending => return Poll::Pending,
            };
            let n = data.len().min(buf.remaining());
            buf.put_slice(&data[..n]);
            n
        };
        Pin::new(me).consume(n);
        Poll::Ready(Ok(()))
    }
}

impl AsyncBufRead for ScriptedLocal {
    fn poll_fill_buf(self: Pin<&mut Self>, cx: &mut std::task::Context<'_>) -> Poll<std::io::Result<&[u8]>> {
        let me = self.get_mut();
        let dir = me.spec.end as usize; // the bridged end writes direction `end`
        loop {
            if me.chunk_left > 0 {
                if me.unflushed > 0 {
                    me.log.app(AppEv::Note(format!("lstate unflushed={} after=read-ready", me.unflushed)));
                }
                let start = me.chunk_buf.len() - me.chunk_left;
                return Poll::Ready(Ok(&me.chunk_buf[start..]));
            }
            match me.spec.read.get(me.ri).cloned() {
                None | Some(LR::PendingForever) => {
                    me.note_fill_pending();
                    return Poll::Pending;
                }
                Some(LR::Chunk(n)) => {
                    me.ri += 1;
                    let n = n.max(1) as usize;
                    me.chunk_buf = (0..n).map(|i| pay(me.stream, dir, me.roff + i)).collect();
                    me.chunk_left = n;
                }
                Some(LR::PendingUntil(k)) => {
                    if me.wait(k, cx) {
                        me.ri += 1;
                    } else {
                        me.note_fill_pending();
                        return Poll::Pending;
                    }
                }
                Some(LR::Eof) => {
                    me.log.app(AppEv::LocalEof { stream: me.stream });
                    me.log.app(AppEv::Shutdown { stream: me.stream, end: me.spec.end as usize });
                    if me.unflushed > 0 {
                        me.log.app(AppEv::Note(format!("lstate unflushed={} after=read-eof", me.unflushed)));
                    }
                    return Poll::Ready(Ok(&[]));
                }
                Some(LR::Err) => {
                    // reported ONCE, like a socket reports a reset once: what a later poll sees is the next script element
                    // (end-of-stream, another error, or nothing = pending for ever)
                    me.ri += 1;
                    me.log.app(AppEv::LocalErr { stream: me.stream, op: "read".into(), kind: me.kind_name() });
                    return Poll::Ready(Err(me.io_err("scripted read error")));
                }
            }
        }
    }
    fn consume(self: Pin<&mut Self>, amt: usize) {
        let me = self.get_mut();
        let amt = amt.min(me.chunk_left);
        me.chunk_left -= amt;
        me.roff += amt;
        if amt > 0 {
            me.consumed_since_pending = true;
        }
        if amt > 0 {
            // bytes handed to the bridge for transmission
            me.log.app(AppEv::WriteOk { stream: me.stream, end: me.spec.end as usize, n: amt, vectored: false, empty: false });
        }
    }
}

impl AsyncWrite for ScriptedLocal {
    fn poll_write(self: Pin<&mut Self>, cx: &mut std::task::Context<'_>, buf: &[u8]) -> Poll<std::io::Result<usize>> {
        let me = self.get_mut();
        let end = me.spec.end as usize;
        let dir = 1 - end;
        // everything offered here has been pulled from the stream
        me.log.app(AppEv::Note(format!("exposed {} {} {}", me.stream, end, me.woff + buf.len())));
        let step = me.spec.write.get(me.wi).cloned();
        let n = match step {
            None => buf.len(),
            Some(LW::AcceptUpTo(k)) => {
                me.wi += 1;
                (k.max(1) as usize).min(buf.len())
            }
            Some(LW::PendingUntil(k)) => {
                if me.wait(k, cx) {
                    me.wi += 1;
                    buf.len()
                } else {
                    return Poll::Pending;
                }
            }
            Some(LW::Err) => {
                me.wi += 1; // reported once; a later call sees the next script element (or accepts everything)
                me.log.app(AppEv::LocalErr { stream: me.stream, op: "write".into(), kind: me.kind_name() });
                return Poll::Ready(Err(me.io_err("scripted write error")));
            }
        };
        for (i, b) in buf[..n].iter().enumerate() {
            let want = pay(me.stream, dir, me.woff + i);
            if *b != want {
                me.log.app(AppEv::DataMismatch { stream: me.stream, end, offset: me.woff + i, got: *b, want });
                // the verdict is settled (the oracles report the mismatch); a bridge that offers the same bytes again and again
                // inside one poll would otherwise spin the harness for ever: from now on the local side refuses everything
                me.poisoned = true;
                break;
            }
        }
        if me.poisoned {
            return Poll::Ready(Err(std::io::Error::new(std::io::ErrorKind::Other, "harness: local side closed after a content mismatch")));
        }
        me.woff += n;
        if n > 0 {
            me.log.app(AppEv::ReadOk { stream: me.stream, end, n });
            me.unflushed += n;
            me.log.app(AppEv::Note(format!("lstate unflushed={} after=write", me.unflushed)));
        }
        Poll::Ready(Ok(n))
    }
    fn is_write_vectored(&self) -> bool {
        self.spec.vectored
    }
    fn poll_write_vectored(self: Pin<&mut Self>, cx: &mut std::task::Context<'_>, bufs: &[std::io::IoSlice<'_>]) -> Poll<std::io::Result<usize>> {
        if !self.spec.vectored {
            // the trait's default: the first non-empty slice
            let buf = bufs.iter().find(|b| !b.is_empty()).map_or(&[][..], |b| &**b);
            return self.poll_write(cx, buf);
        }
        // one scripted write over the concatenation of the slices (a partial write may end inside any slice or exactly
        // between two of them)
        let all: Vec<u8> = bufs.iter().flat_map(|b| b.iter().copied()).collect();
        self.poll_write(cx, &all)
    }
    fn poll_flush(self: Pin<&mut Self>, cx: &mut std::task::Context<'_>) -> Poll<std::io::Result<()>> {
        let me = self.get_mut();
        if let Some((k, n)) = me.spec.flush_pending {
            if me.flushes.saturating_add(1) >= k && !me.wait(n, cx) {
                return Poll::Pending;
            }
        }
        me.flushes = me.flushes.saturating_add(1);
        if me.spec.flush_err_at == Some(me.flushes) {
            me.log.app(AppEv::LocalErr { stream: me.stream, op: "flush".into(), kind: me.kind_name() });
            return Poll::Ready(Err(me.io_err("scripted flush error")));
        }
        if me.unflushed > 0 {
            me.unflushed = 0;
            me.log.app(AppEv::Note("lstate unflushed=0 after=flush".into()));
        }
        Poll::Ready(Ok(()))
    }
    fn poll_shutdown(self: Pin<&mut Self>, cx: &mut std::task::Context<'_>) -> Poll<std::io::Result<()>> {
        let me = self.get_mut();
        match me.spec.shutdown.clone() {
            LS::Ok => {
                me.log.app(AppEv::LocalShutdown { stream: me.stream, result: "ok".into() });
                me.unflushed = 0;
                me.log.app(AppEv::Note("lstate unflushed=0 after=shutdown".into()));
                Poll::Ready(Ok(()))
            }
            LS::Err => {
                me.log.app(AppEv::LocalErr { stream: me.stream, op: "shutdown".into(), kind: me.kind_name() });
                Poll::Ready(Err(me.io_err("scripted shutdown error")))
            }
            LS::PendingUntil(k) => {
                if me.wait(k, cx) {
                    me.log.app(AppEv::LocalShutdown { stream: me.stream, result: "ok".into() });
                    me.unflushed = 0;
                    me.log.app(AppEv::Note("lstate unflushed=0 after=shutdown".into()));
                    Poll::Ready(Ok(()))
                } else {
                    Poll::Pending
                }
            }
        }
    }
}
