//! simnet: deterministic single-threaded simulator around the real penguin_mux crate.
//! The harness owns the executor (which task is polled) and the link (which message is delivered).
use bytes::Bytes;
use penguin_mux::ws::{Message, WebSocket};
use std::collections::VecDeque;
use std::future::Future;
use std::pin::Pin;
use std::rc::Rc;
use std::cell::RefCell;
use std::sync::atomic::{AtomicBool, Ordering};
use std::sync::{Arc, Mutex};
use std::task::{Context, Poll, Wake, Waker};
use vf_ref::frame::{self as rf, RFrame};

// ------------------------------------------------------------------ wire items / events

#[derive(Clone, Debug, PartialEq, Eq)]
pub enum WMsg {
    Frame(RFrame),
    Invalid(Vec<u8>),
    Ping,
    Pong,
    Close,
}

impl WMsg {
    pub fn from_message(m: &Message) -> WMsg {
        match m {
            Message::Binary(b) => match rf::decode(b) {
                Ok(f) => WMsg::Frame(f),
                Err(_) => WMsg::Invalid(b.to_vec()),
            },
            Message::Ping => WMsg::Ping,
            Message::Pong => WMsg::Pong,
            Message::Close => WMsg::Close,
        }
    }
    pub fn short(&self) -> String {
        match self {
            WMsg::Frame(f) => match f {
                RFrame::Connect { id, rwnd, port, host } => format!("Connect({id:08x} rwnd={rwnd} {}:{port})", String::from_utf8_lossy(&host[..host.len().min(12)])),
                RFrame::Acknowledge { id, n } => format!("Ack({id:08x} {n})"),
                RFrame::Reset { id } => format!("Reset({id:08x})"),
                RFrame::Finish { id } => format!("Finish({id:08x})"),
                RFrame::Push { id, data } => format!("Push({id:08x} {}B)", data.len()),
                RFrame::Bind { id, btype, port, host } => format!("Bind({id:08x} t{btype} {}:{port})", String::from_utf8_lossy(&host[..host.len().min(12)])),
                RFrame::Datagram { id, port, host, data } => format!("Dgram({id:08x} {}:{port} {}B)", String::from_utf8_lossy(&host[..host.len().min(12)]), data.len()),
            },
            WMsg::Invalid(b) => format!("Invalid({}B)", b.len()),
            WMsg::Ping => "Ping".into(),
            WMsg::Pong => "Pong".into(),
            WMsg::Close => "Close".into(),
        }
    }
}

#[derive(Clone, Debug)]
pub enum Item {
    Msg(Message),
    /// transport end of stream (no Close handshake)
    Eof,
    /// transport error on the receiving side
    Err,
}

pub type Side = usize; // 0 = A, 1 = B

#[derive(Clone, Debug)]
pub enum Ev {
    /// message handed to the sink by `side`'s connection task (in the order of start_send)
    Sent { side: Side, msg: WMsg, lost: bool },
    /// message returned by poll_next to `side`'s connection task (or taken by the raw peer)
    Recv { side: Side, msg: WMsg },
    RecvEnd { side: Side, err: bool },
    SinkClosed { side: Side },
    /// the connection task of `side` got an error from its sink
    SinkErrorSeen { side: Side },
    App(AppEv),
    Fault(String),
    TaskExit { side: Side, result: Result<(), String> },
}

#[derive(Clone, Debug, PartialEq, Eq)]
pub enum AppEv {
    OpenOk { stream: usize },
    OpenErr { stream: usize, err: String },
    Accepted { side: Side, stream: Option<usize>, host: Vec<u8>, port: u16 },
    AcceptErr { side: Side, err: String },
    /// a write call completed: accepted `n` bytes (sum of slices)
    WriteOk { stream: usize, end: usize, n: usize, vectored: bool, empty: bool },
    WriteErr { stream: usize, end: usize, kind: String },
    /// first time a write returned Pending
    WriteBlocked { stream: usize, end: usize },
    /// first time a read returned Pending
    ReadBlocked { stream: usize, end: usize },
    ReadOk { stream: usize, end: usize, n: usize },
    ReadEof { stream: usize, end: usize },
    ReadErr { stream: usize, end: usize, kind: String },
    DataMismatch { stream: usize, end: usize, offset: usize, got: u8, want: u8 },
    Shutdown { stream: usize, end: usize },
    Dropped { stream: usize, end: usize },
    DgSent { side: Side, idx: usize, ok: Result<(), String> },
    DgRecv { side: Side, flow_id: u32, host: Vec<u8>, port: u16, data: Vec<u8> },
    DgRecvErr { side: Side, err: String },
    BindResolved { side: Side, idx: usize, result: Result<bool, String> },
    BindSeen { side: Side, flow_id: u32, btype: u8, host: Vec<u8>, port: u16, answer: String },
    BindNextErr { side: Side, err: String },
    MuxDropped { side: Side },
    /// the scripted local side of a bridge returned an error from `op`
    LocalErr { stream: usize, op: String, kind: String },
    LocalEof { stream: usize },
    LocalShutdown { stream: usize, result: String },
    BridgeDone { stream: usize, result: Result<(usize, usize), String> },
    Note(String),
}

#[derive(Clone, Debug)]
pub struct Stamped {
    pub step: usize,
    pub ev: Ev,
}

#[derive(Default)]
pub struct LogInner {
    pub step: usize,
    pub events: Vec<Stamped>,
}

#[derive(Clone, Default)]
pub struct Log(pub Arc<Mutex<LogInner>>);

impl Log {
    pub fn push(&self, ev: Ev) {
        let mut g = self.0.lock().unwrap();
        let step = g.step;
        g.events.push(Stamped { step, ev });
    }
    pub fn app(&self, ev: AppEv) {
        self.push(Ev::App(ev));
    }
    pub fn set_step(&self, s: usize) {
        self.0.lock().unwrap().step = s;
    }
    pub fn snapshot(&self) -> Vec<Stamped> {
        self.0.lock().unwrap().events.clone()
    }
    pub fn len(&self) -> usize {
        self.0.lock().unwrap().events.len()
    }
    pub fn tail(&self, n: usize) -> String {
        let g = self.0.lock().unwrap();
        let start = g.events.len().saturating_sub(n);
        g.events[start..].iter().map(|s| format!("[{}] {}", s.step, fmt_ev(&s.ev))).collect::<Vec<_>>().join("; ")
    }
}

pub fn fmt_ev(e: &Ev) -> String {
    let sn = |s: &Side| if *s == 0 { "A" } else { "B" };
    match e {
        Ev::Sent { side, msg, lost } => format!("{}>{}{}", sn(side), msg.short(), if *lost { "(lost)" } else { "" }),
        Ev::Recv { side, msg } => format!("{}<{}", sn(side), msg.short()),
        Ev::RecvEnd { side, err } => format!("{}<{}", sn(side), if *err { "ERR" } else { "EOF" }),
        Ev::SinkClosed { side } => format!("{} sink closed", sn(side)),
        Ev::SinkErrorSeen { side } => format!("{} sees sink error", sn(side)),
        Ev::App(a) => format!("{a:?}"),
        Ev::Fault(f) => format!("FAULT {f}"),
        Ev::TaskExit { side, result } => format!("task {} exit {result:?}", sn(side)),
    }
}

// ------------------------------------------------------------------ link

pub struct Dir {
    pub inflight: VecDeque<Item>,
    pub delivered: VecDeque<Item>,
    pub cap: Option<usize>,
    /// sender's sink reports an error from now on
    pub sink_err: bool,
    /// everything sent from now on is silently lost
    pub blackhole: bool,
    pub sink_closed: bool,
    /// the sender's sink is not writable from now on (a peer that stopped reading: buffers full, no error): poll_ready, poll_flush
    /// and poll_close stay Pending
    pub wedged: bool,
    /// buffering transport: poll_flush / poll_close complete only once everything sent has been delivered (a real WebSocket over
    /// a slow link flushes its write buffer there), and a WebSocket object that is DROPPED before its close completed loses what
    /// was not delivered yet
    pub flush_waits: bool,
    pub close_done: bool,
    pub flush_waker: Option<Waker>,
    /// the link is slow: nothing in flight is delivered while this is set (the harness releases it later)
    pub hold: bool,
    /// write-behind transport (a conforming user-supplied WebSocket with an output buffer of that many messages): `start_send` only
    /// stores the message; it is transmitted by `poll_flush` / `poll_close`, or by `poll_ready` when the buffer is full
    pub wb_cap: Option<usize>,
    pub wb_buf: VecDeque<Item>,
    /// receiver already got Close/Eof/Err: stream terminated
    pub recv_terminated: bool,
    pub recv_waker: Option<Waker>,
    pub send_waker: Option<Waker>,
}

impl Dir {
    /// move buffered messages onto the link as far as its capacity allows; true = buffer empty
    fn wb_flush(&mut self) -> bool {
        while let Some(front) = self.wb_buf.front() {
            if self.cap.is_some_and(|c| self.inflight.len() >= c) {
                break;
            }
            let _ = front;
            let it = self.wb_buf.pop_front().unwrap();
            self.inflight.push_back(it);
        }
        self.wb_buf.is_empty()
    }
    fn new(cap: Option<usize>) -> Self {
        Dir {
            inflight: VecDeque::new(),
            delivered: VecDeque::new(),
            cap,
            sink_err: false,
            blackhole: false,
            sink_closed: false,
            wedged: false,
            flush_waits: false,
            close_done: false,
            flush_waker: None,
            hold: false,
            wb_cap: None,
            wb_buf: VecDeque::new(),
            recv_terminated: false,
            recv_waker: None,
            send_waker: None,
        }
    }
}

pub struct Link {
    /// dir[s] carries messages sent by side s
    pub dir: [Dir; 2],
    pub auto_pong: bool,
    /// (side, length) of a message larger than anything a simulated case can legitimately produce: the run is cut short
    pub oversize: Option<(Side, usize)>,
    /// bound for one message of this case: everything its scripts can write, relay or send, plus MAX_SIM_MESSAGE of slack
    pub max_message: usize,
}

/// Slack of the per-case message bound (`Link::max_message` = all bytes the case's scripts can write, relay or send + this): a
/// single message beyond the bound can only come from an endpoint that puts bytes on the wire which nobody wrote (and would
/// make the run take minutes)
pub const MAX_SIM_MESSAGE: usize = 1 << 20;

#[derive(Clone)]
pub struct SharedLink(pub Arc<Mutex<Link>>);

impl SharedLink {
    pub fn new(cap: [Option<usize>; 2]) -> Self {
        SharedLink(Arc::new(Mutex::new(Link { dir: [Dir::new(cap[0]), Dir::new(cap[1])], auto_pong: true, oversize: None, max_message: MAX_SIM_MESSAGE })))
    }
}

pub struct SimWs {
    pub side: Side,
    pub link: SharedLink,
    pub log: Log,
}

impl Drop for SimWs {
    fn drop(&mut self) {
        let mut l = self.link.0.lock().unwrap();
        let d = &mut l.dir[self.side];
        if !d.wb_buf.is_empty() && !d.close_done {
            let n = d.wb_buf.len();
            d.wb_buf.clear();
            self.log.push(Ev::Fault(format!("side {} dropped its WebSocket with {n} messages still in its output buffer: never transmitted", self.side)));
        }
        if d.flush_waits && !d.close_done && !d.inflight.is_empty() {
            let n = d.inflight.len();
            d.inflight.clear();
            self.log.push(Ev::Fault(format!("side {} dropped its WebSocket before the close had completed: {n} buffered messages were never transmitted", self.side)));
            // the transport is gone: the peer sees the stream end
            d.inflight.push_back(Item::Eof);
        }
    }
}

fn ws_err(what: &str) -> penguin_mux::Error {
    penguin_mux::Error::WebSocket(Box::new(std::io::Error::new(std::io::ErrorKind::ConnectionReset, what.to_string())))
}

impl WebSocket for SimWs {
    fn poll_ready_unpin(&mut self, cx: &mut Context<'_>) -> Poll<Result<(), penguin_mux::Error>> {
        let mut l = self.link.0.lock().unwrap();
        let d = &mut l.dir[self.side];
        if d.sink_err {
            self.log.push(Ev::SinkErrorSeen { side: self.side });
            return Poll::Ready(Err(ws_err("sink failed")));
        }
        if d.sink_closed {
            return Poll::Ready(Err(ws_err("sink already closed")));
        }
        if d.wedged {
            d.send_waker = Some(cx.waker().clone());
            return Poll::Pending;
        }
        if let Some(k) = d.wb_cap {
            if d.wb_buf.len() < k.max(1) {
                return Poll::Ready(Ok(()));
            }
            // buffer full: make room by transmitting
            d.wb_flush();
            if d.wb_buf.len() < k.max(1) {
                return Poll::Ready(Ok(()));
            }
            d.send_waker = Some(cx.waker().clone());
            return Poll::Pending;
        }
        if let Some(c) = d.cap {
            if d.inflight.len() >= c {
                d.send_waker = Some(cx.waker().clone());
                return Poll::Pending;
            }
        }
        Poll::Ready(Ok(()))
    }

    fn start_send_unpin(&mut self, item: Message) -> Result<(), penguin_mux::Error> {
        let mut l = self.link.0.lock().unwrap();
        let max_message = l.max_message;
        let d = &mut l.dir[self.side];
        if d.sink_err {
            self.log.push(Ev::SinkErrorSeen { side: self.side });
            return Err(ws_err("sink failed"));
        }
        if d.sink_closed {
            return Err(ws_err("sink already closed"));
        }
        if let Message::Binary(b) = &item {
            if b.len() > max_message {
                let len = b.len();
                self.log.push(Ev::Fault(format!("side {} sent a message of {len} bytes, more than all data ever written in this case: run cut short", self.side)));
                l.oversize = Some((self.side, len));
                return Ok(());
            }
        }
        let lost = d.blackhole;
        self.log.push(Ev::Sent { side: self.side, msg: WMsg::from_message(&item), lost });
        if !lost {
            if d.wb_cap.is_some() {
                d.wb_buf.push_back(Item::Msg(item));
            } else {
                d.inflight.push_back(Item::Msg(item));
            }
        }
        Ok(())
    }

    fn poll_flush_unpin(&mut self, cx: &mut Context<'_>) -> Poll<Result<(), penguin_mux::Error>> {
        let mut l = self.link.0.lock().unwrap();
        let d = &mut l.dir[self.side];
        if d.sink_err {
            self.log.push(Ev::SinkErrorSeen { side: self.side });
            return Poll::Ready(Err(ws_err("sink failed")));
        }
        if d.wb_cap.is_some() && !d.wedged && !d.wb_flush() {
            d.flush_waker = Some(cx.waker().clone());
            return Poll::Pending;
        }
        if d.wedged || (d.flush_waits && !d.inflight.is_empty()) {
            d.flush_waker = Some(cx.waker().clone());
            return Poll::Pending;
        }
        Poll::Ready(Ok(()))
    }

    fn poll_close_unpin(&mut self, cx: &mut Context<'_>) -> Poll<Result<(), penguin_mux::Error>> {
        let mut l = self.link.0.lock().unwrap();
        let d = &mut l.dir[self.side];
        if d.sink_err {
            d.sink_closed = true;
            return Poll::Ready(Err(ws_err("sink failed")));
        }
        if d.wb_cap.is_some() && !d.wedged && !d.sink_closed && !d.wb_flush() {
            d.flush_waker = Some(cx.waker().clone());
            return Poll::Pending;
        }
        if d.wedged || (d.flush_waits && !d.sink_closed && !d.inflight.is_empty()) {
            // the close has to flush first
            d.flush_waker = Some(cx.waker().clone());
            return Poll::Pending;
        }
        d.close_done = true;
        if !d.sink_closed {
            d.sink_closed = true;
            let lost = d.blackhole;
            self.log.push(Ev::Sent { side: self.side, msg: WMsg::Close, lost });
            self.log.push(Ev::SinkClosed { side: self.side });
            if !lost {
                d.inflight.push_back(Item::Msg(Message::Close));
            }
        }
        Poll::Ready(Ok(()))
    }

    fn poll_next_unpin(&mut self, cx: &mut Context<'_>) -> Poll<Option<Result<Message, penguin_mux::Error>>> {
        let mut l = self.link.0.lock().unwrap();
        let d = &mut l.dir[1 - self.side];
        if d.recv_terminated {
            return Poll::Ready(None);
        }
        match d.delivered.pop_front() {
            Some(Item::Msg(m)) => {
                if matches!(m, Message::Close) {
                    // after the Close frame the stream is over (tungstenite yields None afterwards)
                    d.recv_terminated = true;
                }
                self.log.push(Ev::Recv { side: self.side, msg: WMsg::from_message(&m) });
                Poll::Ready(Some(Ok(m)))
            }
            Some(Item::Eof) => {
                d.recv_terminated = true;
                self.log.push(Ev::RecvEnd { side: self.side, err: false });
                Poll::Ready(None)
            }
            Some(Item::Err) => {
                d.recv_terminated = true;
                self.log.push(Ev::RecvEnd { side: self.side, err: true });
                Poll::Ready(Some(Err(ws_err("source failed"))))
            }
            None => {
                d.recv_waker = Some(cx.waker().clone());
                Poll::Pending
            }
        }
    }
}

// ------------------------------------------------------------------ executor

pub struct Flag(pub AtomicBool);
impl Wake for Flag {
    fn wake(self: Arc<Self>) {
        self.0.store(true, Ordering::SeqCst);
    }
    fn wake_by_ref(self: &Arc<Self>) {
        self.0.store(true, Ordering::SeqCst);
    }
}

#[derive(Clone, Copy, Debug, PartialEq, Eq)]
pub enum TaskKind {
    Mux(Side),
    /// holds the Multiplexor handle of that side: cancelled when the handle is dropped
    MuxUser(Side),
    /// only holds streams
    StreamUser(Side),
}

pub type BoxFut = Pin<Box<dyn Future<Output = ()>>>;

pub struct TaskSlot {
    pub fut: Option<BoxFut>,
    pub flag: Arc<Flag>,
    pub name: String,
    pub kind: TaskKind,
    pub done: bool,
    pub cancelled: bool,
    /// tasks that legitimately never finish (e.g. acceptors waiting for more) mark themselves here
    pub polls: usize,
}

#[derive(Clone, Default)]
pub struct Spawner(pub Rc<RefCell<Vec<(String, TaskKind, BoxFut)>>>);
impl Spawner {
    pub fn spawn(&self, name: impl Into<String>, kind: TaskKind, f: impl Future<Output = ()> + 'static) {
        self.0.borrow_mut().push((name.into(), kind, Box::pin(f)));
    }
}

#[derive(Default)]
pub struct Exec {
    pub tasks: Vec<TaskSlot>,
    pub spawner: Spawner,
}

impl Exec {
    pub fn absorb_spawned(&mut self) {
        let new: Vec<_> = self.spawner.0.borrow_mut().drain(..).collect();
        for (name, kind, fut) in new {
            self.tasks.push(TaskSlot { fut: Some(fut), flag: Arc::new(Flag(AtomicBool::new(true))), name, kind, done: false, cancelled: false, polls: 0 });
        }
    }
    pub fn ready_tasks(&self) -> Vec<usize> {
        self.tasks.iter().enumerate().filter(|(_, t)| !t.done && t.fut.is_some() && t.flag.0.load(Ordering::SeqCst)).map(|(i, _)| i).collect()
    }
    pub fn poll_task(&mut self, i: usize) {
        let t = &mut self.tasks[i];
        t.flag.0.store(false, Ordering::SeqCst);
        t.polls += 1;
        let waker = Waker::from(t.flag.clone());
        let mut cx = Context::from_waker(&waker);
        if let Some(f) = t.fut.as_mut() {
            if f.as_mut().poll(&mut cx).is_ready() {
                t.done = true;
                t.fut = None;
            }
        }
        self.absorb_spawned();
    }
    pub fn cancel_where(&mut self, pred: impl Fn(&TaskSlot) -> bool) {
        for t in self.tasks.iter_mut() {
            if !t.done && t.fut.is_some() && pred(t) {
                t.fut = None; // drop the future
                t.cancelled = true;
                t.done = true;
            }
        }
        self.absorb_spawned();
    }
}

pub fn bytes_of(v: &[u8]) -> Bytes {
    Bytes::copy_from_slice(v)
}
