mod engine;
mod oracle;
mod props;
mod run;
mod world;

use vf_common::Ctx;

fn main() {
    let ctx = Ctx::from_args(|p| if p == "C08" { "fault_enumeration" } else { "exploration" });
    let mut rep = ctx.report();
    if !props::dispatch(&ctx, &mut rep) {
        eprintln!("vf-sim does not serve property {}", ctx.property);
        std::process::exit(3);
    }
    std::process::exit(ctx.finish(rep));
}
