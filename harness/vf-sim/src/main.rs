mod engine;
mod oracle;
mod props;
mod run;
mod world;

use vf_common::Ctx;

fn main() {
    let ctx = Ctx::from_args(|p| if p == "C08" { "fault_enumeration" } else { "exploration" });
    // a lock cycle inside a poll blocks the simulation thread itself: parking_lot's wait-for-graph detector makes that a verdict
    ctx.enable_stuck_monitor(std::time::Duration::from_secs(8), "endpoint-wedged-deadlock", || !parking_lot::deadlock::check_deadlock().is_empty());
    let mut rep = ctx.report();
    if !props::dispatch(&ctx, &mut rep) {
        eprintln!("vf-sim does not serve property {}", ctx.property);
        std::process::exit(3);
    }
    std::process::exit(ctx.finish(rep));
}
