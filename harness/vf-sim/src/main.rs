mod engine;
mod oracle;
mod props;
mod run;
mod world;

use vf_common::Ctx;

fn rss_kb() -> u64 {
    std::fs::read_to_string("/proc/self/statm").ok().and_then(|s| s.split_whitespace().nth(1).and_then(|x| x.parse::<u64>().ok())).unwrap_or(0) * 4
}

/// developer aid: VERIF_LEAKTEST=<n> runs one representative case n times on one thread and prints the resident set size
fn leaktest(n: u64) {
    use world::*;
    let case = Case {
        streams: vec![StreamSpec { side: 0, port: 1, pad: vec![], delay: 0, park: None, cancel: None, ends: [EndScript { w: vec![WOp::Write(3), WOp::Shutdown], r: vec![ROp::ToEof(8)] }, EndScript { w: vec![WOp::Write(2), WOp::Shutdown], r: vec![ROp::ToEof(8)] }] }],
        ..Case::default()
    };
    for i in 0..n {
        let r = run::run_case(&case);
        assert!(r.quiescent);
        if i % (n / 10).max(1) == 0 {
            println!("iteration {i}: rss {} kB, steps {}", rss_kb(), r.steps);
        }
    }
    println!("end: rss {} kB", rss_kb());
}

fn main() {
    if let Ok(n) = std::env::var("VERIF_LEAKTEST") {
        leaktest(n.parse().unwrap_or(100_000));
        return;
    }
    let ctx = Ctx::from_args(|p| if p == "C08" { "fault_enumeration" } else { "exploration" });
    // a lock cycle inside a poll blocks the simulation thread itself: parking_lot's wait-for-graph detector makes that a verdict
    ctx.enable_stuck_monitor(std::time::Duration::from_secs(8), "endpoint-wedged-deadlock", || !parking_lot::deadlock::check_deadlock().is_empty());
    let mut rep = ctx.report();
    if !props::dispatch(&ctx, &mut rep) {
        eprintln!("vf-sim does not serve property {}", ctx.property);
        std::process::exit(3);
    }
    std::process::exit(ctx.finish(rep));
}
