//! proptest strategies for simnet cases.
use crate::world::*;
use proptest::prelude::*;

pub const WINDOWS: [u32; 8] = [1, 2, 3, 4, 5, 8, 16, 64];

pub fn opts(small: bool) -> impl Strategy<Value = OptsSpec> {
    let w = if small { prop::sample::select(vec![1u32, 1, 2, 2, 3, 4, 4, 5, 8]) } else { prop::sample::select(WINDOWS.to_vec()) };
    (w, prop::sample::select(WINDOWS.to_vec()), prop::sample::select(vec![1usize, 2, 16]), prop::sample::select(vec![1usize, 2, 8, 512])).prop_map(|(rwnd, thr, stream_buf, dgram_buf)| OptsSpec {
        rwnd,
        thr,
        stream_buf,
        dgram_buf,
        bind_buf: 0,
        retries: 3,
    })
}

pub fn cap() -> impl Strategy<Value = Option<u8>> {
    prop_oneof![3 => Just(None), 2 => Just(Some(1u8)), 2 => Just(Some(2u8)), 1 => Just(Some(5u8))]
}

pub fn wlen() -> impl Strategy<Value = u32> {
    prop_oneof![1 => Just(0u32), 3 => Just(1u32), 2 => Just(2u32), 2 => Just(5u32), 2 => 90u32..110, 1 => Just(5000u32)]
}

#[derive(Clone, Copy, Debug)]
pub struct Shape {
    pub max_streams: usize,
    pub max_wops: usize,
    pub allow_empty: bool,
    pub allow_drop: bool,
    /// every end: writer ends with Shutdown, reader reads to EOF (nothing may block)
    pub complete: bool,
    pub small_windows: bool,
    pub max_sched: usize,
}

pub fn wop(allow_empty: bool) -> impl Strategy<Value = WOp> {
    let l = move || wlen().prop_map(move |x| if !allow_empty && x == 0 { 1 } else { x });
    prop_oneof![
        6 => l().prop_map(WOp::Write),
        3 => prop::collection::vec(l(), 0..=6).prop_map(move |v| if !allow_empty && v.iter().all(|x| *x == 0) { WOp::WriteV(vec![1]) } else { WOp::WriteV(v) }),
        1 => Just(WOp::Yield),
        1 => Just(WOp::Flush),
    ]
}

pub fn rop() -> impl Strategy<Value = ROp> {
    prop_oneof![
        4 => prop::sample::select(vec![1u32, 3, 64, 4096]).prop_map(ROp::Read),
        3 => prop::sample::select(vec![0u32, 1, 3, 1_000_000]).prop_map(ROp::Fill),
        1 => prop::sample::select(vec![1u32, 3, 1_000_000]).prop_map(ROp::LowLevel),
        2 => prop::sample::select(vec![2u32, 5, 9, 40, 6000]).prop_map(ROp::Exact),
        1 => Just(ROp::Yield),
    ]
}

pub fn end_script(sh: Shape) -> impl Strategy<Value = EndScript> {
    let w_end = if sh.complete {
        prop_oneof![Just(Some(WOp::Shutdown))].boxed()
    } else if sh.allow_drop {
        prop_oneof![4 => Just(Some(WOp::Shutdown)), 2 => Just(Some(WOp::Drop)), 2 => Just(None)].boxed()
    } else {
        prop_oneof![4 => Just(Some(WOp::Shutdown)), 2 => Just(None)].boxed()
    };
    let r_end = if sh.complete {
        prop::sample::select(vec![1u32, 3, 64, 4096]).prop_map(|b| Some(ROp::ToEof(b))).boxed()
    } else if sh.allow_drop {
        prop_oneof![5 => prop::sample::select(vec![1u32, 64, 4096]).prop_map(|b| Some(ROp::ToEof(b))), 1 => Just(Some(ROp::Drop)), 2 => Just(None)].boxed()
    } else {
        prop_oneof![5 => prop::sample::select(vec![1u32, 64, 4096]).prop_map(|b| Some(ROp::ToEof(b))), 2 => Just(None)].boxed()
    };
    // burst mode: many writes in a row (longer than small windows)
    let ws = prop_oneof![
        3 => prop::collection::vec(wop(sh.allow_empty), 0..=sh.max_wops),
        2 => (1u32..=3, 1usize..=sh.max_wops.max(2) * 2).prop_map(|(l, n)| vec![WOp::Write(l); n]),
    ];
    let complete = sh.complete;
    (ws, w_end, prop::collection::vec(rop(), 0..6), r_end, any::<u16>()).prop_map(move |(mut w, we, mut r, re, mid)| {
        // sometimes shut down in the middle of the script: later writes must fail with BrokenPipe
        if !complete && mid % 5 == 0 && !w.is_empty() {
            let at = (mid as usize / 5) % w.len();
            w.insert(at, WOp::Shutdown);
        }
        if let Some(x) = we {
            w.push(x);
        }
        if let Some(x) = re {
            r.push(x);
        }
        EndScript { w, r }
    })
}

pub fn stream_spec(sh: Shape) -> impl Strategy<Value = StreamSpec> {
    (0usize..2, any::<u16>(), prop::collection::vec(any::<u8>(), 0..6), 0u8..4, end_script(sh), end_script(sh))
        .prop_map(|(side, port, pad, delay, e0, e1)| StreamSpec { side, port, pad, delay, park: None, cancel: None, ends: [e0, e1] })
}

pub fn schedule(max: usize) -> impl Strategy<Value = Vec<u8>> {
    prop_oneof![1 => Just(vec![]), 4 => prop::collection::vec(any::<u8>(), 0..=max)]
}

pub fn stream_workload(sh: Shape) -> impl Strategy<Value = Case> {
    // a third of the workloads run with keepalive on one or both sides: Ping/Pong messages interleave with the frames
    let ka = prop_oneof![4 => Just([false, false]), 1 => Just([true, false]), 1 => Just([true, true])];
    // a quarter of the workloads run over a write-behind transport on one or both sides: what the endpoint hands to its WebSocket is
    // only transmitted when it flushes (or when the small output buffer is full)
    let wb = || prop_oneof![3 => Just(None), 1 => (1u8..4).prop_map(Some)];
    (opts(sh.small_windows), opts(sh.small_windows), cap(), cap(), prop::collection::vec(stream_spec(sh), 1..=sh.max_streams), schedule(sh.max_sched), ka, (prop::collection::vec(0u32..250, 0..3), wb(), wb())).prop_map(|(o0, o1, c0, c1, streams, schedule, keepalive, (ticks, w0, w1))| Case {
        opts: [o0, o1],
        cap: [c0, c1],
        write_behind: [w0, w1],
        streams,
        schedule,
        keepalive,
        events: if keepalive.iter().any(|k| *k) { ticks.into_iter().map(|at| RawEvent { when: Trigger::FromStep(at), what: What::Tick }).collect() } else { vec![] },
        ..Case::default()
    })
}

/// a third of the cases of `s` run with keepalive on one or both sides and 0-2 clock ticks at generated steps, so that
/// Ping/Pong messages interleave with whatever traffic the case produces
pub fn with_keepalive<S: Strategy<Value = Case>>(s: S) -> impl Strategy<Value = Case> {
    let ka = prop_oneof![4 => Just([false, false]), 1 => Just([true, false]), 1 => Just([true, true])];
    (s, ka, prop::collection::vec(0u32..250, 0..3)).prop_map(|(mut c, keepalive, ticks)| {
        c.keepalive = keepalive;
        if keepalive.iter().any(|k| *k) {
            c.events.extend(ticks.into_iter().map(|at| RawEvent { when: Trigger::FromStep(at), what: What::Tick }));
        }
        c
    })
}

/// directed family for window values far above the generated ones: the reading end advertises W (as opener or as acceptor) and
/// stays idle while the other end writes W one-byte frames - all within the advertised window - and shuts down; then the reader
/// wakes up and reads to end-of-stream. Every byte must arrive, nothing may be reset.
pub const LARGE_WINDOWS: [u32; 5] = [300, 1000, 4097, 10_000, 70_000];
pub const LARGE_WINDOW_CASES: u64 = 20;
pub fn large_window_case(i: u64) -> Case {
    let (w, side, writer_end) = (LARGE_WINDOWS[(i % 5) as usize], ((i / 5) % 2) as usize, (i / 10) as usize);
    let reader_side = if writer_end == 0 { 1 - side } else { side };
    let mut opts = [OptsSpec { rwnd: 3, thr: 1, ..OptsSpec::default() }, OptsSpec { rwnd: 3, thr: 1, ..OptsSpec::default() }];
    opts[reader_side] = OptsSpec { rwnd: w, thr: 64, ..OptsSpec::default() };
    let mut ends = [EndScript::default(), EndScript::default()];
    let mut wr = vec![WOp::Write(1); w as usize];
    wr.push(WOp::Shutdown);
    ends[writer_end] = EndScript { w: wr, r: vec![ROp::ToEof(64)] };
    ends[1 - writer_end] = EndScript { w: vec![WOp::Write(2), WOp::Shutdown], r: vec![ROp::Park(1), ROp::ToEof(4096)] };
    Case {
        opts,
        streams: vec![StreamSpec { side, port: 1, pad: vec![], delay: 0, park: None, cancel: None, ends }],
        events: vec![RawEvent { when: Trigger::Quiescent, what: What::Wake(1) }],
        step_bound: 3_000_000,
        ..Case::default()
    }
}

/// Several writes far above the sizes the random workloads use (around 64 KiB, around 1 MiB, 3 MiB), plain or vectored, into a
/// small window while the reader starts late (parked until the system is quiescent, i.e. until the writer has used up the
/// window): one write is one frame and one unit of credit whatever its size.
pub const LARGE_WRITE_LAG_CASES: u64 = 6 * 2 * 2;
pub fn large_write_lag_case(i: u64) -> Case {
    const SIZES: [u32; 6] = [65_537, (1 << 20) - 3, (1 << 20) + 17, (2 << 20) + 1, (3 << 20) + 17, 70_000];
    let s = SIZES[(i % 6) as usize];
    let vectored = (i / 6) % 2 == 1;
    let side = (i / 12) as usize;
    let big = |n: u32| if vectored { WOp::WriteV(vec![n / 3, n - n / 3]) } else { WOp::Write(n) };
    let mut w = vec![WOp::Write(5)];
    for _ in 0..6 {
        w.push(big(s));
    }
    w.push(WOp::Write(9));
    w.push(WOp::Shutdown);
    Case {
        opts: [OptsSpec { rwnd: 4, thr: 2, ..OptsSpec::default() }, OptsSpec { rwnd: 4, thr: 2, ..OptsSpec::default() }],
        streams: vec![StreamSpec { side, port: 80, pad: vec![], delay: 0, park: None, cancel: None, ends: [EndScript { w, r: vec![ROp::ToEof(4096)] }, EndScript { w: vec![WOp::Write(1), WOp::Shutdown], r: vec![ROp::Park(1), ROp::ToEof(1 << 20)] }] }],
        events: vec![RawEvent { when: Trigger::Quiescent, what: What::Wake(1) }],
        step_bound: 2_000_000,
        ..Case::default()
    }
}
