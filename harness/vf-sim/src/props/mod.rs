//! Per-property generators and oracles on top of simnet.
pub mod gens;
pub mod streams;
pub mod conn;
pub mod teardown;
pub mod peer;
pub mod keepalive;
pub mod bridge;

use vf_common::{Ctx, Report};

pub fn dispatch(ctx: &Ctx, rep: &mut Report) -> bool {
    match ctx.property.as_str() {
        "C02" => streams::c02(ctx, rep),
        "C03" => streams::c03(ctx, rep),
        "C04" => streams::c04(ctx, rep),
        "C05" => streams::c05(ctx, rep),
        "C06" => conn::c06(ctx, rep),
        "C07" => conn::c07(ctx, rep),
        "C08" => teardown::c08(ctx, rep),
        "C10" => peer::c10(ctx, rep),
        "C11" => conn::c11(ctx, rep),
        "C13" => bridge::c13(ctx, rep),
        "C15" => conn::c15(ctx, rep),
        "C16" => keepalive::c16(ctx, rep),
        _ => return false,
    }
    true
}
