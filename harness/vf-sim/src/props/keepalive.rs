//! C16 – keepalive on tokio's paused clock (virtual time is exact).
use super::streams::sim_assumptions;
use penguin_mux::config::Options;
use penguin_mux::timing::{OptionalDuration, TimestampProvider};
use penguin_mux::ws::{Message, WebSocket};
use penguin_mux::Multiplexor;
use proptest::prelude::*;
use rand::SeedableRng;
use std::sync::{Arc, Mutex};
use std::task::{Context, Poll};
use std::time::Duration;
use tokio::sync::mpsc;
use tokio::time::Instant;
use vf_common::{Ctx, Outcome, Report};

#[derive(Clone, Copy, Debug)]
pub struct TI(Instant);
impl TimestampProvider for TI {
    fn now() -> Self {
        TI(Instant::now())
    }
    fn duration_since(&self, earlier: Self) -> Duration {
        self.0.duration_since(earlier.0)
    }
}

#[derive(Clone, Debug, Hash, PartialEq, Eq, serde::Serialize, serde::Deserialize)]
pub enum Pong {
    /// every ping answered after d ms
    Const(u64),
    /// k-th ping answered after list[k % len] ms
    PerPing(Vec<u64>),
    /// the first k pings answered after d ms, then silence
    ThenSilent(u32, u64),
    Never,
}

#[derive(Clone, Debug, Hash, serde::Serialize, serde::Deserialize)]
pub struct KaCase {
    /// interval / timeout in ms; 0 = disabled
    pub interval: u64,
    pub timeout: u64,
    pub pong: Pong,
    /// the transport answers a Close (graceful) or stays silent after the timeout
    pub silent_transport: bool,
    /// the peer sends keepalive Pings of its own every so many ms (0 = none), whether or not it answers ours: only Pongs
    /// prove that our pings get through
    #[serde(default)]
    pub peer_ping_every: u64,
    /// from this virtual time (ms) on the transport's sink is not writable any more (poll_ready stays Pending: a full send buffer
    /// towards a host that went away); 0 = always writable. Nothing sent after that point reaches the peer, so no pong comes back.
    #[serde(default)]
    pub sink_stalls_at: u64,
    /// the application sends a datagram every so many ms of virtual time (0 = none) while the peer sends nothing but its Pongs:
    /// one-way traffic must neither replace the pings nor count as (or against) proof of life
    #[serde(default)]
    pub datagram_every: u64,
    /// (start ms, length ms): from `start` on the endpoint is not scheduled for `length` ms - a blocked runtime thread, a stopped
    /// process, a suspended machine - while the peer and the network go on: pongs of pings already sent reach the socket during
    /// the stall, ticks become overdue, and everything is found at once when the endpoint runs again. With a stall the pongs are
    /// kept in the transport with their arrival times (what is in the socket does not depend on task scheduling).
    #[serde(default)]
    pub sched_stall: Option<(u64, u64)>,
}

struct Rec {
    pings: Vec<u64>, // ms since start
    pongs_scheduled: Vec<u64>,
    closed_at: Option<u64>,
}

struct ClockWs {
    start: Instant,
    rec: Arc<Mutex<Rec>>,
    rx: mpsc::UnboundedReceiver<Message>,
    tx: mpsc::UnboundedSender<Message>,
    pong: Pong,
    nping: u32,
    silent: bool,
    ended: bool,
    stall_at: u64,
    /// Some: pongs are queued here with their arrival time (us since start) instead of being sent by a timer task
    due: Option<std::collections::VecDeque<u64>>,
    due_sleep: Option<std::pin::Pin<Box<tokio::time::Sleep>>>,
}

/// tokio's timer has millisecond granularity; intervals are multiples of 10 ms and every pong delay ends in 5 ms,
/// so a pong never coincides with a tick
pub fn eff_delay(d: u64) -> u64 {
    d / 10 * 10 + 5
}

fn ms_since(start: Instant) -> u64 {
    Instant::now().duration_since(start).as_micros() as u64 / 1000
}

impl WebSocket for ClockWs {
    fn poll_ready_unpin(&mut self, _cx: &mut Context<'_>) -> Poll<Result<(), penguin_mux::Error>> {
        if self.stall_at > 0 && ms_since(self.start) >= self.stall_at {
            // never writable again; nobody will wake this waiter
            return Poll::Pending;
        }
        Poll::Ready(Ok(()))
    }
    fn start_send_unpin(&mut self, item: Message) -> Result<(), penguin_mux::Error> {
        if let Message::Ping = item {
            let now = ms_since(self.start);
            let k = self.nping;
            self.nping += 1;
            let delay_us = match &self.pong {
                Pong::Const(d) => Some(eff_delay(*d) * 1000),
                Pong::PerPing(v) => Some(eff_delay(v[k as usize % v.len()]) * 1000),
                Pong::ThenSilent(n, d) => if k < *n { Some(eff_delay(*d) * 1000) } else { None },
                Pong::Never => None,
            };
            let mut r = self.rec.lock().unwrap();
            r.pings.push(now);
            if let (Some(us), Some(q)) = (delay_us, self.due.as_mut()) {
                r.pongs_scheduled.push(now * 1000 + us);
                q.push_back(now * 1000 + us);
            } else if let Some(us) = delay_us {
                r.pongs_scheduled.push(now * 1000 + us);
                let tx = self.tx.clone();
                tokio::spawn(async move {
                    tokio::time::sleep(Duration::from_micros(us)).await;
                    tx.send(Message::Pong).ok();
                });
            }
        }
        Ok(())
    }
    fn poll_flush_unpin(&mut self, _cx: &mut Context<'_>) -> Poll<Result<(), penguin_mux::Error>> {
        Poll::Ready(Ok(()))
    }
    fn poll_close_unpin(&mut self, _cx: &mut Context<'_>) -> Poll<Result<(), penguin_mux::Error>> {
        let mut r = self.rec.lock().unwrap();
        if r.closed_at.is_none() {
            r.closed_at = Some(ms_since(self.start));
            if !self.silent {
                self.tx.send(Message::Close).ok();
            }
        }
        Poll::Ready(Ok(()))
    }
    fn poll_next_unpin(&mut self, cx: &mut Context<'_>) -> Poll<Option<Result<Message, penguin_mux::Error>>> {
        if self.ended {
            return Poll::Ready(None);
        }
        // pongs that have reached the socket by now (arrival-time queue), oldest first
        loop {
            let Some(q) = self.due.as_mut() else { break };
            let Some(&front) = q.front() else { break };
            let now_us = Instant::now().duration_since(self.start).as_micros() as u64;
            if front <= now_us {
                q.pop_front();
                self.due_sleep = None;
                return Poll::Ready(Some(Ok(Message::Pong)));
            }
            let start = self.start;
            let sl = self.due_sleep.get_or_insert_with(|| Box::pin(tokio::time::sleep_until(start + Duration::from_micros(front))));
            match sl.as_mut().poll(cx) {
                Poll::Ready(()) => {
                    self.due_sleep = None;
                }
                Poll::Pending => break,
            }
        }
        match self.rx.poll_recv(cx) {
            Poll::Ready(Some(m)) => {
                if matches!(m, Message::Close) {
                    self.ended = true;
                }
                Poll::Ready(Some(Ok(m)))
            }
            Poll::Ready(None) => Poll::Ready(None),
            Poll::Pending => Poll::Pending,
        }
    }
}

pub struct KaResult {
    pub pings: Vec<u64>,
    pub pongs_us: Vec<u64>,
    /// (virtual ms, result) of the connection task
    pub end: Option<(u64, Result<(), String>)>,
    pub get_datagram_done: Option<(u64, String)>,
    pub accept_done: Option<(u64, String)>,
    pub horizon: u64,
    pub eff_timeout: Option<u64>,
}

pub fn od(ms: u64) -> OptionalDuration {
    OptionalDuration::from(Duration::from_millis(ms))
}

pub fn run_ka(c: &KaCase) -> KaResult {
    let rt = tokio::runtime::Builder::new_current_thread().enable_time().start_paused(true).build().expect("runtime");
    let horizon = if c.interval == 0 { 60_000 } else { c.interval * 20 + c.timeout + 1000 };
    // as the client applies them: interval first, then timeout (clamped to at least the interval)
    let opts = Options::new().keepalive_interval(od(c.interval)).keepalive_timeout(od(c.timeout));
    rt.block_on(async {
        let start = Instant::now();
        let rec = Arc::new(Mutex::new(Rec { pings: vec![], pongs_scheduled: vec![], closed_at: None }));
        let (tx, rx) = mpsc::unbounded_channel();
        let ws = ClockWs { start, rec: rec.clone(), rx, tx, pong: c.pong.clone(), nping: 0, silent: c.silent_transport, ended: false, stall_at: c.sink_stalls_at, due: c.sched_stall.map(|_| Default::default()), due_sleep: None };
        if c.peer_ping_every > 0 {
            // the peer's own pings, 3 ms off the 10 ms grid so that they coincide neither with a tick nor with a pong
            let (txp, every) = (ws.tx.clone(), c.peer_ping_every);
            tokio::spawn(async move {
                tokio::time::sleep(Duration::from_millis(3)).await;
                loop {
                    if txp.send(Message::Ping).is_err() {
                        return;
                    }
                    tokio::time::sleep(Duration::from_millis(every)).await;
                }
            });
        }
        let rng = rand::rngs::SmallRng::seed_from_u64(7);
        let (mux, taskdata) = Multiplexor::new_detailed::<_, TI>(ws, opts, rng);
        let mux = Arc::new(mux);
        let task = tokio::spawn(async move {
            let r = taskdata.into_task().await;
            (ms_since(start), r.map_err(|e| format!("{e:?}")))
        });
        if c.datagram_every > 0 {
            let (m0, every) = (mux.clone(), c.datagram_every);
            tokio::spawn(async move {
                // 1 ms off the grid: never at the very instant of a tick or a pong
                tokio::time::sleep(Duration::from_millis(1)).await;
                let mut k = 0u32;
                loop {
                    let d = penguin_mux::Datagram { flow_id: 9, target_host: bytes::Bytes::from_static(b"one-way"), target_port: 53, data: bytes::Bytes::from(k.to_be_bytes().to_vec()) };
                    if m0.send_datagram(d).await.is_err() {
                        return;
                    }
                    k += 1;
                    tokio::time::sleep(Duration::from_millis(every)).await;
                }
            });
        }
        if let Some((at, len)) = c.sched_stall {
            tokio::spawn(async move {
                tokio::time::sleep(Duration::from_millis(at)).await;
                // the clock jumps: nothing runs in between, everything due in the meantime is found at once afterwards
                tokio::time::advance(Duration::from_millis(len)).await;
            });
        }
        let m1 = mux.clone();
        let dg = tokio::spawn(async move {
            let r = m1.get_datagram().await;
            (ms_since(start), format!("{:?}", r.map(|_| ()).map_err(|e| format!("{e:?}"))))
        });
        let m2 = mux.clone();
        let acc = tokio::spawn(async move {
            let r = m2.accept_stream_channel().await;
            (ms_since(start), format!("{:?}", r.map(|_| ()).map_err(|e| format!("{e:?}"))))
        });
        tokio::time::sleep(Duration::from_millis(horizon)).await;
        let grab = |h: tokio::task::JoinHandle<(u64, String)>| async move {
            if h.is_finished() { h.await.ok() } else { h.abort(); None }
        };
        let end = if task.is_finished() { task.await.ok() } else { task.abort(); None };
        let get_datagram_done = grab(dg).await;
        let accept_done = grab(acc).await;
        let r = rec.lock().unwrap();
        // effective timeout after the API's clamping
        let eff_timeout = if c.timeout == 0 || c.interval == 0 { None } else { Some(c.timeout.max(c.interval)) };
        drop(mux);
        KaResult { pings: r.pings.clone(), pongs_us: r.pongs_scheduled.clone(), end, get_datagram_done, accept_done, horizon, eff_timeout }
    })
}

pub fn check_ka(c: &KaCase) -> Outcome {
    let r = run_ka(c);
    let i = c.interval;
    let mut classes: Vec<&'static str> = vec![];
    let ended_at = r.end.as_ref().map(|e| e.0);
    // 1. pings at 0, I, 2I, ... while the task lives; none when disabled
    if i == 0 {
        if !r.pings.is_empty() {
            return Outcome::violation("c16-ping-while-disabled", format!("keepalive interval disabled but pings were sent at {:?}", r.pings));
        }
        if let Some((t, res)) = &r.end {
            return Outcome::violation("c16-exit-while-disabled", format!("keepalive disabled but the task ended at {t} ms with {res:?}"));
        }
        classes.push("interval-disabled");
        return Outcome::pass(c.timeout != 0, classes);
    }
    let alive_until = ended_at.unwrap_or(r.horizon);
    // (with a sink that stops being writable, pings are expected on the wire only before that moment)
    let sendable_until = if c.sink_stalls_at > 0 { alive_until.min(c.sink_stalls_at) } else { alive_until };
    let want_trim: Vec<u64> = (0..).map(|k| k * i).take_while(|t| *t < sendable_until).collect();
    let got_trim: Vec<u64> = r.pings.iter().copied().filter(|t| *t < alive_until).collect();
    // nothing may be sent at or after the end of the task (the tick that declares the timeout sends no ping)
    if ended_at.is_some() && r.pings.iter().any(|t| *t >= alive_until) {
        return Outcome::violation("c16-ping-after-end", format!("ping at/after the end of the task: {:?}, ended {:?}", r.pings.last(), r.end));
    }
    if got_trim != want_trim {
        return Outcome::violation(
            "c16-ping-schedule",
            format!("interval {i} ms: pings sent at {:?} ms, expected one every interval: {:?} (task ended: {:?})", &r.pings[..r.pings.len().min(12)], &want_trim[..want_trim.len().min(12)], r.end),
        );
    }
    // pong arrival times (us), only those before the end
    let end_us = alive_until * 1000;
    let pongs: Vec<u64> = r.pongs_us.iter().copied().filter(|p| *p < end_us).collect();
    let last_before = |t_us: u64| pongs.iter().copied().filter(|p| *p < t_us).max().unwrap_or(0);
    match (&r.end, r.eff_timeout) {
        (Some((t, Err(e))), Some(to)) if e.contains("KeepaliveTimeout") => {
            classes.push("timed-out");
            let l = last_before(*t * 1000);
            let since = *t * 1000 - l;
            if since < to * 1000 || since > (to + i) * 1000 {
                return Outcome::violation(
                    "c16-timeout-bounds",
                    format!("I={i} T={to} (configured {}): KeepaliveTimeout at {t} ms, last pong (or start) at {:.1} ms: {:.1} ms since then is outside [T, T+I]", c.timeout, l as f64 / 1000.0, since as f64 / 1000.0),
                );
            }
            // never for a live peer
            let live = c.sink_stalls_at == 0
                && match &c.pong {
                    Pong::Const(d) => eff_delay(*d) <= to,
                    Pong::PerPing(v) => v.iter().all(|d| eff_delay(*d) < i.min(to)),
                    _ => false,
                };
            if live {
                return Outcome::violation("c16-timeout-on-live-peer", format!("I={i} T={to}: every ping is answered ({:?}) yet the task ended with KeepaliveTimeout at {t} ms", c.pong));
            }
        }
        (Some((t, res)), _) => {
            return Outcome::violation("c16-unexpected-exit", format!("I={i} T={:?}: task ended at {t} ms with {res:?}", r.eff_timeout));
        }
        (None, Some(to)) => {
            classes.push("survived");
            // no gap without a pong may exceed T + I
            let mut pts = vec![0u64];
            pts.extend(pongs.iter().copied());
            pts.sort_unstable();
            pts.push(r.horizon * 1000);
            for w in pts.windows(2) {
                // a timeout is only noticed at a tick: the gap must contain a tick later than T after its start
                if w[1] - w[0] > (to + i) * 1000 + 1000 {
                    return Outcome::violation(
                        "c16-dead-peer-not-detected",
                        format!("I={i} T={to}: no pong between {:.1} ms and {:.1} ms (more than T+I) but the connection was not terminated", w[0] as f64 / 1000.0, w[1] as f64 / 1000.0),
                    );
                }
            }
        }
        (None, None) => {
            classes.push("timeout-disabled");
        }
    }
    // after the end every pending call fails, also when the transport stays silent
    if let Some((t, _)) = &r.end {
        for (name, d) in [("get_datagram", &r.get_datagram_done), ("accept_stream_channel", &r.accept_done)] {
            match d {
                None => return Outcome::violation(format!("c16-pending-call-hangs:{name}"), format!("the task ended at {t} ms but a pending {name} never returned (silent transport: {})", c.silent_transport)),
                Some((_, res)) if !res.contains("Closed") => return Outcome::violation("c16-pending-call-result", format!("{name} returned {res}")),
                _ => {}
            }
        }
    } else if matches!(c.pong, Pong::Never | Pong::ThenSilent(..)) && r.eff_timeout.is_some() {
        return Outcome::violation(
            format!("c16-task-hangs-after-timeout{}", if c.silent_transport { ":silent" } else { "" }),
            format!("I={i} T={:?}: the peer went silent, pings stopped at {:?} ms but the connection task never finished within {} ms (silent transport: {})", r.eff_timeout, r.pings.last(), r.horizon, c.silent_transport),
        );
    }
    let answered_before_silence = matches!(&c.pong, Pong::ThenSilent(k, _) if *k > 0);
    let non_multiple = r.eff_timeout.is_some_and(|t| t % i != 0);
    if c.timeout < c.interval && c.timeout != 0 {
        classes.push("timeout-clamped");
    }
    if non_multiple {
        classes.push("timeout-not-multiple-of-interval");
    }
    if c.silent_transport {
        classes.push("silent-transport");
    }
    if c.peer_ping_every > 0 {
        classes.push("peer-sends-pings-too");
    }
    if c.sink_stalls_at > 0 {
        classes.push("sink-stops-being-writable");
    }
    Outcome::pass(answered_before_silence || non_multiple, classes)
}

fn ka_case() -> impl Strategy<Value = KaCase> {
    let interval = prop_oneof![1 => Just(0u64), 8 => prop::sample::select(vec![1000u64, 2000, 2500, 5000, 10_000]), 3 => (50u64..800).prop_map(|x| x * 10)];
    interval.prop_flat_map(|i| {
        let timeout = if i == 0 {
            prop_oneof![Just(0u64), Just(3000u64)].boxed()
        } else {
            prop_oneof![1 => Just(0u64), 2 => Just(i), 2 => (1u64..=4).prop_map(move |k| k * i), 2 => (1..(i / 10).max(2)).prop_map(|x| x * 10), 4 => (i / 10..(4 * i / 10 + 1)).prop_map(|x| x * 10)].boxed()
        };
        (Just(i), timeout).prop_flat_map(|(i, t)| {
            let eff = if t == 0 { 0 } else { t.max(i) };
            let lim = eff.max(1);
            let small = i.min(lim).max(2);
            let pong = prop_oneof![
                3 => (0..=lim.saturating_sub(1)).prop_map(Pong::Const),
                1 => Just(Pong::Const(lim.saturating_sub(1))),
                3 => prop::collection::vec(0..small - 1, 1..6).prop_map(Pong::PerPing),
                4 => (0u32..8, 0..small).prop_map(|(k, d)| Pong::ThenSilent(k, d)),
                2 => Just(Pong::Never),
                2 => (lim + 1..lim * 3 + 2).prop_map(Pong::Const),
            ];
            let peer = prop_oneof![4 => Just(0u64), 1 => Just((i / 20).max(1) * 10), 1 => Just(i.max(10)), 1 => Just(250u64)];
            // a sink that stops being writable at some multiple of 10 ms + 7 (never at a tick, a pong or a peer ping)
            let stall = prop_oneof![5 => Just(0u64), 2 => (0u64..(12 * i.max(10)) / 10).prop_map(|x| x * 10 + 7)];
            (Just(i), Just(t), pong, any::<bool>(), peer, stall, prop_oneof![4 => Just(0u64), 1 => Just((i / 40).max(1) * 10), 1 => Just((i / 20).max(1) * 10 * 3)]).prop_map(|(interval, timeout, pong, silent_transport, peer_ping_every, sink_stalls_at, datagram_every)| KaCase { interval, timeout, pong, silent_transport, peer_ping_every, sink_stalls_at, datagram_every, sched_stall: None })
        })
    })
}

pub fn c16(ctx: &Ctx, rep: &mut Report) {
    rep.rule = "(I, T) pairs in ms incl. T < I (clamped by the options API, applied in the client's order), T = I, T a multiple / not a multiple of I, either or both disabled; pong policies: constant delay (<= T and late > T), per-ping delays < min(I,T), answered for k rounds then silent, never; in 3 of 7 cases the peer also sends Pings of its own (every I/2, I or 250 ms) whether or not it answers; in 2 of 7 cases the transport's sink stops being writable at a generated moment (from then on nothing reaches the peer, so no pong returns); \
                transport answering the final Close or staying silent; a directed family in which the endpoint itself is not scheduled for a while (clock jump) while the pong of a ping under way reaches its socket and the next tick becomes overdue - the pong is younger than T when the endpoint runs again, so the connection must stay up; horizon 20 intervals + T on tokio's paused clock (exact virtual time). Oracle: a ping exactly every I while alive; a KeepaliveTimeout at tau satisfies T <= tau - last pong <= T+I; a connection that survived has no pong-free gap longer than T+I; \
                peers answering every ping within the bound never time out; disabled values send no ping / never time out; after the end the task future completes and pending get_datagram/accept calls fail with Closed. \
                Non-trivial = at least one pong arrived before the silence began, or T is not a multiple of I. Distinct = distinct case value."
        .into();
    rep.assumptions = sim_assumptions();
    rep.assumptions = vec![
        "tokio current-thread runtime with start_paused(true): virtual time is exact and advances only when every task is idle".into(),
        "intervals/timeouts are multiples of 10 ms and pong delays end in 5 ms so that a pong never coincides with a tick (tokio timers have ms granularity; the order of simultaneous events is unspecified)".into(),
        "'each ping answered within T' is read as: constant delay <= T, or every delay < min(I,T) (see DESIGN.md C16)".into(),
    ];
    ctx.prop(rep, "keepalive", ctx.tier.pick(200_000, 5_000_000), 300, ka_case, check_ka);
    // the endpoint itself is not scheduled for a while (blocked thread, stopped process) with a pong arriving meanwhile
    ctx.enumerate(rep, "scheduling-stall", SCHED_STALL_CASES, 30, sched_stall_case, check_sched_stall);
    // connections that stay up for months (virtual time costs nothing): intervals of hours to weeks, so that the 20-interval horizon
    // spans 2^31 ms (24.8 days), 2^32 ms (49.7 days) and more; same policies and the same oracle
    ctx.prop(rep, "long-uptime", ctx.tier.pick(4_000, 100_000), 20, || {
        const H: u64 = 3_600_000;
        (prop::sample::select(vec![H, 6 * H, 24 * H, 3 * 24 * H, 7 * 24 * H, 21 * 24 * H]), 1u64..=3, 0u8..5, any::<bool>()).prop_map(|(i, tk, pol, silent_transport)| {
            let t = tk * i;
            let pong = match pol {
                0 => Pong::Const(5),
                1 => Pong::Const(i / 2 + 5),
                2 => Pong::ThenSilent(7, 15),
                3 => Pong::ThenSilent(14, 15),
                _ => Pong::Never,
            };
            KaCase { interval: i, timeout: t, pong, silent_transport, peer_ping_every: 0, sink_stalls_at: 0, datagram_every: 0, sched_stall: None }
        })
    }, |c| {
        let mut o = check_ka(c);
        o.classes.push("uptime-days-to-months");
        o
    });
}

/// The endpoint is not scheduled for a while (see `KaCase::sched_stall`) at a moment when a ping is under way: its pong reaches the
/// socket during the stall and the next tick becomes overdue, so that both are found together when the endpoint runs again. The
/// peer answered every ping within d < min(I, T) and the pong in the socket is younger than T: the connection must stay up.
/// (A stall that begins AFTER the last pong was taken from the socket and lasts longer than T is a different matter - no ping was
/// sent meanwhile, the time since the last pong does exceed T - and is not generated.)
pub const SCHED_STALL_CASES: u64 = 5 * 4 * 3 * 3;
pub fn sched_stall_case(n: u64) -> KaCase {
    let interval = [200u64, 1000, 2500, 10_000, 60_000][(n % 5) as usize];
    let timeout = [interval, interval * 3 / 2 / 10 * 10, 2 * interval, 3 * interval][((n / 5) % 4) as usize];
    let d = [15u64, interval / 4 / 10 * 10 + 5, interval / 2 / 10 * 10 + 5][((n / 20) % 3) as usize];
    let k = [1u64, 3, 8][((n / 60) % 3) as usize];
    // the endpoint runs again x ms after the pong arrived: late enough for the next tick to be overdue and for the PREVIOUS pong to be
    // older than T, early enough for this pong to be younger than T
    let lo = (interval - d).max(timeout.saturating_sub(interval)) + 1;
    let x = lo + (timeout - lo) / 2;
    let start = k * interval + 2;
    let wake = k * interval + d + x;
    KaCase { interval, timeout, pong: Pong::Const(d), silent_transport: false, peer_ping_every: 0, sink_stalls_at: 0, datagram_every: 0, sched_stall: Some((start, wake - start)) }
}
pub fn check_sched_stall(c: &KaCase) -> Outcome {
    let r = run_ka(c);
    let (at, len) = c.sched_stall.unwrap_or((0, 0));
    if let Some((t, res)) = &r.end {
        return Outcome::violation(
            "c16-timeout-on-live-peer:after-a-scheduling-stall",
            format!("I={} T={}: every ping is answered after {:?}; the endpoint was not scheduled from {at} to {} ms while the pong of the ping sent just before reached its socket; when it ran again the task ended at {t} ms with {res:?} although that pong was younger than T (pings at {:?}, pongs in the socket at {:?} us)", c.interval, c.timeout, c.pong, at + len, &r.pings[..r.pings.len().min(12)], &r.pongs_us[..r.pongs_us.len().min(12)]),
        );
    }
    // pings went on afterwards
    if !r.pings.iter().any(|p| *p > at + len + c.interval) {
        return Outcome::violation("c16-ping-schedule:after-a-scheduling-stall", format!("I={}: no ping later than one interval after the stall ended at {} ms (pings {:?})", c.interval, at + len, r.pings));
    }
    Outcome::pass(true, vec!["scheduling-stall-with-a-pong-in-the-socket"])
}

/// C11 "no datagram, whatever its size or rate, terminates the connection" with keepalive configured: a steady one-way datagram flow
/// (faster than, as fast as, slower than the ping interval) to a live peer that answers every ping at once and sends nothing
/// else; the connection must stay up for the whole horizon and the pings must go out as usual
pub const DATAGRAM_FLOW_CASES: u64 = 3 * 3 * 2;
pub fn datagram_flow_case(i: u64) -> KaCase {
    let interval = [1000u64, 2500, 10_000][(i % 3) as usize];
    let every = [interval / 10, interval, interval * 3 / 2][((i / 3) % 3) as usize];
    let timeout = if i / 9 == 0 { interval } else { 3 * interval };
    KaCase { interval, timeout, pong: Pong::Const(5), silent_transport: false, peer_ping_every: 0, sink_stalls_at: 0, datagram_every: every, sched_stall: None }
}
pub fn check_datagram_flow(c: &KaCase) -> Outcome {
    let r = run_ka(c);
    if let Some((at, res)) = &r.end {
        return Outcome::violation("c11-datagram-flow-ends-connection", format!("keepalive every {} ms, timeout {} ms, every ping answered after 5 ms, the application sends one datagram every {} ms: the connection ended at {at} ms with {res:?}", c.interval, c.timeout, c.datagram_every));
    }
    let mut o = check_ka(c);
    o.nontrivial = true;
    o.classes.push("one-way-datagram-flow-with-keepalive");
    o
}
