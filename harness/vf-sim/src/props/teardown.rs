//! C08 – teardown: fault enumeration over every step of every base execution.
use super::gens::*;
use super::streams::sim_assumptions;
use crate::engine::*;
use crate::oracle::*;
use crate::run::*;
use crate::world::*;
use proptest::prelude::*;
use std::sync::atomic::{AtomicU64, Ordering};
use vf_common::{Ctx, Outcome, Report};
use vf_ref::frame::RFrame;

pub static FAULT_RUNS: AtomicU64 = AtomicU64::new(0);
pub static FAULT_RUNS_PENDING: AtomicU64 = AtomicU64::new(0);

pub const FAULTS: [&str; 13] = ["peer-close", "cut-a-to-b", "cut-b-to-a-err", "cut-b-to-a-eof", "cut-both", "half-dead", "invalid-frame", "invalid-frame-silent-peer", "drop-mux", "invalid-frame-stalled-sink", "source-error-stalled-sink", "keepalive-expiry-silent-peer", "keepalive-expiry-silent-peer-stalled-sink"];
/// the fault kinds injected at every cut point of every base execution; the keepalive-expiry kinds need a keepalive timeout and
/// virtual time passing after the peer has gone silent, which the directed family `keepalive-expiry` provides
pub const ENUMERATED_FAULTS: usize = 11;

/// events realising fault `f` at step `k`; second value: does side B learn about it (its obligations are checked too)
pub fn fault_events(f: usize, k: u32) -> (Vec<RawEvent>, bool) {
    let at = |what| RawEvent { when: Trigger::ForcedAt(k), what };
    match f {
        0 => (vec![at(What::Inject { from: 1, msg: RawMsg::Close })], true),
        1 => (vec![at(What::CutSink { side: 0 }), at(What::CutSource { side: 1, err: false })], true),
        2 => (vec![at(What::CutSource { side: 0, err: true }), at(What::CutSink { side: 1 })], true),
        3 => (vec![at(What::CutSource { side: 0, err: false }), at(What::CutSink { side: 1 })], true),
        4 => (vec![at(What::CutSink { side: 0 }), at(What::CutSource { side: 1, err: true }), at(What::CutSource { side: 0, err: true }), at(What::CutSink { side: 1 })], true),
        5 => (vec![at(What::Blackhole { side: 1 }), at(What::CutSink { side: 0 })], false),
        6 => (vec![at(What::Inject { from: 1, msg: RawMsg::Bytes(vec![0xf7, 1, 2]) })], true),
        7 => (vec![at(What::Inject { from: 1, msg: RawMsg::Bytes(vec![0x7f]) }), at(What::Blackhole { side: 1 })], false),
        8 => (vec![at(What::DropMux { side: 0 })], true),
        // the peer has stopped reading (A's sink is not writable any more, no error) when the invalid frame / the receive error arrives
        9 => (vec![at(What::Wedge { side: 0 }), at(What::Inject { from: 1, msg: RawMsg::Bytes(vec![0x7f]) }), at(What::Blackhole { side: 1 })], false),
        10 => (vec![at(What::Wedge { side: 0 }), at(What::CutSource { side: 0, err: true }), at(What::Blackhole { side: 1 })], false),
        // the peer goes silent (nothing it sends arrives any more: no Pong, no Close, no error); the keepalive timeout has to end the
        // connection - also when the endpoint's own sink has stopped taking output at the same moment (a black-holed TCP connection
        // with a full send buffer). Virtual time passes in ticks fired whenever the system is quiescent.
        11 | 12 => {
            let mut v = vec![at(What::Blackhole { side: 1 })];
            if f == 12 {
                v.insert(0, at(What::Wedge { side: 0 }));
            }
            for _ in 0..6 {
                v.push(RawEvent { when: Trigger::Quiescent, what: What::Tick });
            }
            (v, false)
        }
        _ => unreachable!(),
    }
}

fn side_of_task(name: &str, kind: TaskKind) -> Side {
    let _ = name;
    match kind {
        TaskKind::Mux(s) | TaskKind::MuxUser(s) | TaskKind::StreamUser(s) => s,
    }
}

/// an endpoint whose application stopped accepting and whose accept queue is full has acknowledged one more Connect and
/// now blocks its receive loop on handing that stream over (see the precondition note in `teardown_oracle`)
pub fn accept_blocked(case: &Case, run: &RunResult) -> bool {
    (0..2).any(|s| {
        if case.raw.is_some() && s == 1 {
            return false;
        }
        let mut acked = 0usize;
        for (i, e) in run.events.iter().enumerate() {
            if let Ev::Recv { side, msg: WMsg::Frame(RFrame::Connect { id, .. }) } = &e.ev {
                if *side == s {
                    let answer = run.events[i..].iter().find_map(|x| match &x.ev {
                        Ev::Sent { side: s2, msg: WMsg::Frame(RFrame::Acknowledge { id: a2, .. }), .. } if *s2 == s && a2 == id => Some(true),
                        Ev::Sent { side: s2, msg: WMsg::Frame(RFrame::Reset { id: a2 }), .. } if *s2 == s && a2 == id => Some(false),
                        _ => None,
                    });
                    if answer == Some(true) {
                        acked += 1;
                    }
                }
            }
        }
        let taken = run.app_events().filter(|(_, e)| matches!(e, AppEv::Accepted { side, .. } if *side == s)).count();
        acked > taken + case.opts[s].stream_buf
    })
}

/// Oracle after an injected fault. `sides`: whose obligations are checked.
pub fn teardown_oracle(case: &Case, run: &RunResult, fault: usize, b_knows: bool) -> Result<bool, V> {
    let a = Analysis::new(case, run);
    let name = FAULTS[fault];
    let fault_at = run.events.iter().position(|e| matches!(&e.ev, Ev::Fault(_) | Ev::App(AppEv::MuxDropped { .. })) || matches!(&e.ev, Ev::Sent { side: 1, msg: WMsg::Close | WMsg::Invalid(_), .. }));
    let Some(fault_at) = fault_at else {
        // the forced step lies beyond the end of this execution: nothing injected
        return Ok(false);
    };
    let sides: Vec<Side> = if b_knows { vec![0, 1] } else { vec![0] };
    // stalled-sink faults: the obligations start when the endpoint has actually SEEN the invalid frame / the receive error. An
    // endpoint whose receive loop is parked by design (full accept queue, see below) never reads it; with a sink that is not
    // writable its Acknowledge frames do not reach the wire either, so `accept_blocked` cannot be decided from the wire there.
    if fault == 9 && !run.events.iter().any(|e| matches!(&e.ev, Ev::Recv { side: 0, msg: WMsg::Invalid(_) })) {
        return Ok(false);
    }
    if fault == 10 && !run.events.iter().any(|e| matches!(&e.ev, Ev::RecvEnd { side: 0, err: true })) {
        return Ok(false);
    }
    if fault == 5 && !run.events.iter().any(|e| matches!(&e.ev, Ev::SinkErrorSeen { side: 0 })) {
        // a sink that failed while the endpoint had nothing to send, with a peer that stays silent: nothing to notice yet
        return Ok(false);
    }
    // Precondition shared with C04 ("keeps accepting new streams"): an endpoint whose application has stopped accepting and
    // whose accept queue (stream_buffer_size) is full blocks its receive loop on the next Connect it acknowledges, by design;
    // from then on it cannot read anything the peer sends - a Close included - and the peer waits for its answer. Such runs
    // keep the safety clauses below but no completion obligations. (A Connect dispatched after the outbound queue was
    // closed is not acknowledged and must not block: that case is not waived.)
    let accept_blocked = accept_blocked(case, run);
    // 1. the connection task future completed
    for &s in &sides {
        if accept_blocked {
            break;
        }
        if run.task_exit[s].is_none() {
            return Err((
                format!("c08-task-hangs:{name}"),
                format!("fault {name}: the connection task of side {s} never finished; unfinished tasks {:?}; tail: {}", run.blocked_tasks(), a.ctx(14)),
            ));
        }
    }
    // 2. every application future of those sides completed
    let stuck: Vec<String> = run.tasks.iter().filter(|t| !t.2 && sides.contains(&side_of_task(&t.0, t.1))).map(|t| t.0.clone()).collect();
    if !stuck.is_empty() && !accept_blocked {
        let w = &stuck[0];
        let what = if w.starts_with("accept") {
            "accept"
        } else if w.starts_with("dgread") {
            "get_datagram"
        } else if w.starts_with("bindresp") {
            "next_bind_request"
        } else if w.starts_with("bind") {
            "request_bind"
        } else if w.starts_with("open") {
            "new_stream_channel"
        } else if w.ends_with('w') {
            "stream-write"
        } else {
            "stream-read"
        };
        return Err((format!("c08-op-hangs:{what}:{name}"), format!("fault {name}: operations {stuck:?} are still blocked at quiescence; tail: {}", a.ctx(14))));
    }
    // 3. results
    let mut pending_seen = false;
    for (idx, st) in run.events.iter().enumerate() {
        let Ev::App(e) = &st.ev else { continue };
        let after = idx > fault_at;
        match e {
            AppEv::OpenErr { stream, err } => {
                pending_seen |= after;
                if err != "Closed" && sides.contains(&case.streams[*stream].side) {
                    // FlowIdRejected is only right if the peer really rejected every attempt
                    let rejected = a.streams[*stream].connects.iter().all(|(cidx, id)| {
                        run.events[*cidx..].iter().any(|e| matches!(&e.ev, Ev::Recv { side, msg: WMsg::Frame(RFrame::Reset { id: r }) } if *side == case.streams[*stream].side && r == id))
                    });
                    if !(err == "FlowIdRejected" && rejected && a.streams[*stream].connects.len() == case.opts[case.streams[*stream].side].retries) {
                        return Err((
                            format!("c08-open-wrong-error:{err}"),
                            format!("fault {name}: new_stream_channel for stream {stream} returned {err} instead of Closed when the connection ended ({} Connect frames sent, max_flow_id_retries {})", a.streams[*stream].connects.len(), case.opts[case.streams[*stream].side].retries),
                        ));
                    }
                }
            }
            AppEv::AcceptErr { err, .. } | AppEv::DgRecvErr { err, .. } | AppEv::BindNextErr { err, .. } => {
                // always pending: not counted for non-triviality
                if err != "Closed" {
                    return Err((format!("c08-wrong-error:{err}"), format!("fault {name}: {e:?}")));
                }
            }
            AppEv::BindResolved { result, .. } => {
                pending_seen |= after;
                match result {
                    Ok(_) => {}
                    Err(x) if x == "Closed" => {}
                    Err(x) => return Err((format!("c08-bind-wrong-error:{x}"), format!("fault {name}: request_bind returned {x}"))),
                }
            }
            AppEv::WriteErr { kind, stream, end } => {
                pending_seen |= after;
                if kind != "BrokenPipe" && !kind.starts_with("shutdown:") {
                    return Err((format!("c08-write-wrong-error:{kind}"), format!("fault {name}: write on stream {stream} end {end} failed with {kind}")));
                }
            }
            AppEv::ReadEof { .. } => pending_seen |= after,
            AppEv::ReadErr { kind, stream, end } => return Err((format!("c08-read-error:{kind}"), format!("fault {name}: read on stream {stream} end {end} failed with {kind} instead of returning end-of-stream"))),
            _ => {}
        }
    }
    // reads: prefix consistency, and everything that reached the endpoint is readable before EOF
    a.integrity()?;
    a.end_of_stream().or_else(|(sig, msg)| if sig == "c05-delivered-data-lost" { Err((format!("c08-{sig}:{name}"), format!("fault {name}: {msg}"))) } else { Ok(()) })?;
    // 4. local drop on a healthy link: everything queued before is transmitted, in order, before Close
    if fault == 8 {
        let sent: Vec<&WMsg> = run.events.iter().filter_map(|e| if let Ev::Sent { side: 0, msg, lost } = &e.ev { if *lost { None } else { Some(msg) } } else { None }).collect();
        // (Pong messages are produced by the simulated WebSocket layer itself in answer to a Ping, not by the endpoint)
        let recvd: Vec<&WMsg> = run.events.iter().filter_map(|e| if let Ev::Recv { side: 1, msg } = &e.ev { Some(msg) } else { None }).filter(|m| !matches!(m, WMsg::Pong)).collect();
        if sent.last() != Some(&&WMsg::Close) {
            return Err(("c08-drop-no-close".into(), format!("after dropping the Multiplexor the last message on the wire is {:?}, not Close", sent.last().map(|m| m.short()))));
        }
        if sent != recvd && !accept_blocked {
            return Err(("c08-drop-not-delivered".into(), format!("messages sent by the dropped side ({}) and received by the peer ({}) differ: sent [{}], received [{}]", sent.len(), recvd.len(), sent.iter().map(|m| m.short()).collect::<Vec<_>>().join(", "), recvd.iter().map(|m| m.short()).collect::<Vec<_>>().join(", "))));
        }
        for (i, s) in a.streams.iter().enumerate() {
            let Some(id) = s.flow_id else { continue };
            if s.open_ok_at.is_none() && s.accepted_at.is_none() {
                continue;
            }
            let end = if case.streams[i].side == 0 { 0 } else { 1 };
            if (end == 0 && s.open_ok_at.is_none()) || (end == 1 && s.accepted_at.is_none()) {
                continue;
            }
            let wire_bytes: usize = sent.iter().map(|m| if let WMsg::Frame(RFrame::Push { id: p, data }) = m { if *p == id { data.len() } else { 0 } } else { 0 }).sum();
            let written = s.ends[end].total_written();
            if wire_bytes != written {
                return Err((
                    "c08-drop-loses-data".into(),
                    format!("stream {i} (flow {id:08x}): the application's successful writes total {written} bytes but only {wire_bytes} bytes were transmitted before the WebSocket was closed after the Multiplexor drop; tail: {}", a.ctx(14)),
                ));
            }
            let reset_before = |t: usize| run.events[..t].iter().any(|e| matches!(&e.ev, Ev::Recv { side: 0, msg: WMsg::Frame(RFrame::Reset { id: r }) } if *r == id));
            if s.ends[end].shutdown_at.is_some_and(|x| x < fault_at && !reset_before(x)) && !sent.iter().any(|m| matches!(m, WMsg::Frame(RFrame::Finish { id: f }) if *f == id)) {
                return Err(("c08-drop-loses-finish".into(), format!("stream {i} (flow {id:08x}) was shut down before the drop but no Finish was transmitted; tail: {}", a.ctx(14))));
            }
        }
        let dg_ok = run.app_events().filter(|(_, e)| matches!(e, AppEv::DgSent { side: 0, ok: Ok(()), .. })).count();
        let dg_wire = sent.iter().filter(|m| matches!(m, WMsg::Frame(RFrame::Datagram { .. }))).count();
        if dg_ok != dg_wire {
            return Err(("c08-drop-loses-datagram".into(), format!("{dg_ok} datagrams accepted by send_datagram, {dg_wire} transmitted before Close; tail: {}", a.ctx(14))));
        }
    }
    Ok(pending_seen)
}

fn accept_policy() -> impl Strategy<Value = AcceptPolicy> {
    prop_oneof![5 => Just(AcceptPolicy::All), 1 => Just(AcceptPolicy::Never), 2 => (0u8..3).prop_map(AcceptPolicy::Count)]
}

fn c08_base() -> impl Strategy<Value = Case> {
    let sh = Shape { max_streams: 3, max_wops: 5, allow_empty: true, allow_drop: true, complete: false, small_windows: true, max_sched: 60 };
    (
        opts(true),
        opts(true),
        cap(),
        cap(),
        1usize..=3,
        1usize..=3,
        prop::collection::vec(stream_spec(sh), 1..=3),
        0usize..3,
        prop::collection::vec((0usize..2, any::<bool>(), 0u8..3), 0..3),
        prop::sample::select(vec![BindAnswer::Accept, BindAnswer::Hold, BindAnswer::Reject, BindAnswer::Hold]),
        (schedule(60), prop::collection::vec(0u32..80, 0..4), prop::sample::select(vec![[false, false], [true, false], [true, true], [false, false]]), accept_policy(), accept_policy()),
    )
        .prop_map(|(mut o0, mut o1, c0, c1, r0, r1, streams, ndg, binds, ans, (schedule, ticks, keepalive, acc0, acc1))| {
            o0.retries = r0;
            o1.retries = r1;
            o0.bind_buf = 2;
            o1.bind_buf = 2;
            let dgrams = (0..ndg).map(|k| DgSpec { side: k % 2, flow_id: k as u32, host_len: 5, port: 1, data_len: 3, delay: k as u8 }).collect();
            let binds = binds.into_iter().map(|(side, dgram, delay)| BindSpec { side, dgram, host: b"h".to_vec(), port: 1, delay }).collect();
            let bp = BindPolicy { answers: vec![ans.clone(), BindAnswer::Hold, ans], batch: 1, order: vec![], enabled: true, ping_first: false };
            Case {
                opts: [o0, o1],
                cap: [c0, c1],
                streams,
                dgrams,
                dg_readers: [DgReader::Eager, DgReader::Eager],
                binds,
                bind_policy: [bp.clone(), bp],
                schedule,
                // an application that stops accepting: the accept queue (stream_buffer_size) fills up and later Connects wait
                acceptors: [acc0, acc1],
                // keepalive: Ping messages share the outbound queue with frames (the drain after a drop must pass them)
                keepalive,
                events: if keepalive.iter().any(|k| *k) { ticks.into_iter().map(|at| RawEvent { when: Trigger::FromStep(at), what: What::Tick }).collect() } else { vec![] },
                ..Case::default()
            }
        })
}

#[derive(Clone, Debug, Hash, serde::Serialize, serde::Deserialize)]
pub struct C08Case {
    pub base: Case,
    /// Some((step, fault)): only that injection (used by directed families); None: every step x every fault
    pub only: Option<(u32, usize)>,
}

pub fn run_c08(c: &C08Case) -> Outcome {
    let base_run = run_case(&c.base);
    if !base_run.quiescent {
        return Outcome::inconclusive("base execution hit the step bound");
    }
    // the fault-free base must itself be clean
    {
        let a = Analysis::new(&c.base, &base_run);
        let blocked = accept_blocked(&c.base, &base_run);
        if let Err((sig, msg)) = a.integrity().and_then(|_| a.end_of_stream()) {
            // with a receive loop blocked on a full accept queue, the end-of-stream notices behind it cannot arrive
            if !(blocked && (sig == "c05-eof-not-delivered" || sig == "c05-write-hangs-after-abort")) {
                return Outcome::violation(format!("base:{sig}"), msg);
            }
        }
    }
    let n = base_run.steps as u32;
    let mut any_pending = false;
    let mut classes: Vec<&'static str> = vec![];
    let plan: Vec<(u32, usize)> = match c.only {
        Some(x) => vec![x],
        None => (0..=n).flat_map(|k| (0..ENUMERATED_FAULTS).map(move |f| (k, f))).collect(),
    };
    for (k, f) in plan {
        let (events, b_knows) = fault_events(f, k);
        let mut case = c.base.clone();
        // the fault's events first (their AfterEvent indices stay valid), then the base's own events (pings)
        let mut events = events;
        events.extend(c.base.events.iter().cloned());
        case.events = events;
        let run = run_case(&case);
        FAULT_RUNS.fetch_add(1, Ordering::Relaxed);
        if !run.quiescent {
            return Outcome::inconclusive(format!("fault {} at step {k}: step bound hit", FAULTS[f]));
        }
        match teardown_oracle(&case, &run, f, b_knows) {
            Err((sig, msg)) => return Outcome::violation(sig, format!("cut at step {k} of {n}: {msg}")),
            Ok(p) => {
                if p {
                    FAULT_RUNS_PENDING.fetch_add(1, Ordering::Relaxed);
                    any_pending = true;
                    if !classes.contains(&FAULTS[f]) {
                        classes.push(FAULTS[f]);
                    }
                }
            }
        }
    }
    Outcome::pass(any_pending, classes)
}

/// The observed endpoint (side 0) accepts bind requests (queue of ONE) but its application never asks for them; the peer sends three: the
/// first fills the queue, the second parks the receive loop on the hand-over, the third stays unread. The endpoint has a bind request and
/// a stream request of its own pending. Then the peer goes silent and the keepalive expires (variant 1: the endpoint's own sink stalls as
/// well): the connection has to end although the receive loop is parked and unread requests remain, and everything pending resolves.
pub const BIND_QUEUE_FULL_CASES: u64 = 2 * 2 * 2;
pub fn bind_queue_full_case(i: u64) -> Case {
    let stalled = i % 2 == 1;
    let nbinds = 3 + (i / 2) % 2;
    let own_stream = i / 4 == 1;
    let mut binds: Vec<BindSpec> = (0..nbinds).map(|k| BindSpec { side: 1, dgram: k % 2 == 1, host: b"q".to_vec(), port: 10 + k as u16, delay: 0 }).collect();
    binds.push(BindSpec { side: 0, dgram: false, host: b"mine".to_vec(), port: 3, delay: 0 });
    let mut events = vec![];
    if stalled {
        events.push(RawEvent { when: Trigger::Quiescent, what: What::Wedge { side: 0 } });
    }
    events.push(RawEvent { when: Trigger::Quiescent, what: What::Blackhole { side: 1 } });
    for _ in 0..6 {
        events.push(RawEvent { when: Trigger::Quiescent, what: What::Tick });
    }
    let streams = if own_stream { vec![StreamSpec { side: 0, port: 1, pad: vec![], delay: 0, park: None, cancel: None, ends: [EndScript { w: vec![WOp::Write(2)], r: vec![ROp::ToEof(8)] }, EndScript { w: vec![], r: vec![ROp::Read(4), ROp::Park(1)] }] }] } else { vec![] };
    Case {
        opts: [OptsSpec { bind_buf: 1, ..OptsSpec::default() }, OptsSpec { bind_buf: 2, ..OptsSpec::default() }],
        streams,
        binds,
        // side 0: binds accepted by the endpoint, never taken by the application; side 1: takes the request and holds it
        bind_policy: [BindPolicy { enabled: false, ..BindPolicy::default() }, BindPolicy { answers: vec![BindAnswer::Hold], batch: 1, order: vec![], enabled: true, ping_first: false }],
        keepalive: [true, false],
        keepalive_timeout_ticks: 2,
        events,
        ..Case::default()
    }
}
pub fn run_bind_queue_full(case: &Case) -> Outcome {
    let run = run_case(case);
    FAULT_RUNS.fetch_add(1, Ordering::Relaxed);
    if !run.quiescent {
        return Outcome::inconclusive("step bound");
    }
    let stalled = case.events.iter().any(|e| matches!(e.what, What::Wedge { .. }));
    // the family is about a parked receive loop: the second Bind of the peer was received but the third was not dispatched
    let shown = run.events.iter().filter(|e| matches!(&e.ev, Ev::Recv { side: 0, msg: WMsg::Frame(RFrame::Bind { .. }) })).count();
    match teardown_oracle(case, &run, if stalled { 12 } else { 11 }, false) {
        Err((sig, msg)) => Outcome::violation(format!("{sig}:bind-queue-full"), format!("the endpoint's bind queue (size 1) was full and its application does not take bind requests; {shown} Bind frames of the peer had been read when the peer went silent and the keepalive expired: {msg}")),
        Ok(p) => {
            FAULT_RUNS_PENDING.fetch_add(u64::from(p), Ordering::Relaxed);
            Outcome::pass(p, vec!["keepalive-expiry-with-a-full-bind-queue"])
        }
    }
}

/// directed: a pending open on its last retry at teardown must see Closed
fn last_retry_case(i: u64) -> C08Case {
    let retries = 1 + (i % 3) as usize;
    let fault = [0usize, 2, 3, 8][((i / 3) % 4) as usize];
    let k = (i / 12) as u32; // cut step 0..
    let mut o0 = OptsSpec::default();
    o0.retries = retries;
    C08Case {
        base: Case {
            opts: [o0, OptsSpec::default()],
            streams: vec![StreamSpec { side: 0, port: 1, pad: vec![], delay: 0, park: None, cancel: None, ends: [EndScript { w: vec![WOp::Write(1)], r: vec![ROp::Read(8)] }, EndScript::default()] }],
            // the peer rejects the first retries-1 attempts through id collisions: scripted ids collide with B's live stream
            ..Case::default()
        },
        only: Some((k, fault)),
    }
}

pub fn c08(ctx: &Ctx, rep: &mut Report) {
    rep.rule = "base executions = workloads with streams mid-transfer (blocked writers/readers), pending opens, pending accept, pending get_datagram, pending/held bind requests and next_bind_request, options incl. max_flow_id_retries 1..3, under a generated schedule. \
                For each base execution of n steps EVERY step k in 0..=n is a cut point and at each one EVERY fault kind (peer Close, A->B cut, B->A cut with error / with EOF, both, half-dead link with a silent peer, invalid frame, invalid frame + silent peer, local Multiplexor drop) is injected in a fresh deterministic re-run of the prefix; a directed family lets the keepalive expire: the peer goes silent at step k - with or without the endpoint's own sink stalling at the same moment -, virtual time passes and the keepalive timeout must end the connection (exhaustive in the cut-point x fault-kind dimension). \
                Oracle after running to quiescence: connection task finished, no application future blocked, reads = consistent prefix then EOF, writes fail with BrokenPipe, multiplexor calls return Closed (bind: false/Closed), local drop: all queued frames transmitted in order before Close (also, on a real tokio current-thread runtime, with a backlog of 1..5000 datagrams held back by a back-pressured sink). \
                evaluations = base executions; coverage.fault_injections = individual fault runs. Non-trivial = at least one injection hit while a stream read/write, an open request or a bind request was pending or still to come (it completed with an error/EOF after the fault; the always-pending accept/get_datagram/next_bind_request calls do not count). Distinct = distinct base case value."
        .into();
    rep.assumptions = sim_assumptions();
    rep.assumptions.push("faults are injected one at a time; with a half-dead link / silent peer only the obligations of the side that can notice are checked".into());
    let t = ctx.tier;
    ctx.prop(rep, "cut-points", t.pick(1_500, 30_000), 20, || c08_base().prop_map(|base| C08Case { base, only: None }), run_c08);
    ctx.enumerate(rep, "last-retry-at-teardown", 12 * 14, 10, last_retry_case, run_c08);
    ctx.enumerate(rep, "bind-queue-full-at-connection-end", BIND_QUEUE_FULL_CASES, 4, bind_queue_full_case, run_bind_queue_full);
    // the keepalive expires: the peer goes silent at step k (with or without the endpoint's own sink stalling at the same moment),
    // virtual time passes, and the keepalive timeout (2 intervals) must end the connection and resolve everything that is pending
    ctx.enumerate(
        rep,
        "keepalive-expiry",
        30 * 2 * 2,
        20,
        |i| {
            let k = (i % 30) as u32;
            let fault = 11 + ((i / 30) % 2) as usize;
            let second_stream = i / 60 == 1;
            let w: Vec<WOp> = std::iter::repeat(WOp::Write(3)).take(6).chain([WOp::Shutdown]).collect();
            let mut streams = vec![StreamSpec { side: 0, port: 1, pad: vec![], delay: 0, park: None, cancel: None, ends: [EndScript { w, r: vec![ROp::ToEof(8)] }, EndScript { w: vec![WOp::Write(2)], r: vec![ROp::Read(4), ROp::Park(1), ROp::ToEof(64)] }] }];
            if second_stream {
                streams.push(StreamSpec { side: 1, port: 2, pad: vec![], delay: 1, park: None, cancel: None, ends: [EndScript { w: vec![WOp::Write(1), WOp::Write(1), WOp::Write(1)], r: vec![] }, EndScript { w: vec![], r: vec![ROp::ToEof(8)] }] });
            }
            let base = Case {
                opts: [OptsSpec { rwnd: 2, thr: 1, bind_buf: 2, ..OptsSpec::default() }, OptsSpec { rwnd: 2, thr: 1, bind_buf: 2, ..OptsSpec::default() }],
                streams,
                dgrams: vec![DgSpec { side: 0, flow_id: 3, host_len: 4, port: 9, data_len: 5, delay: 2 }],
                dg_readers: [DgReader::Eager, DgReader::Eager],
                binds: vec![BindSpec { side: 0, dgram: false, host: b"x".to_vec(), port: 3, delay: 3 }],
                bind_policy: [BindPolicy { answers: vec![BindAnswer::Hold], batch: 1, order: vec![], enabled: true, ping_first: false }, BindPolicy { answers: vec![BindAnswer::Hold], batch: 1, order: vec![], enabled: true, ping_first: false }],
                keepalive: [true, false],
                keepalive_timeout_ticks: 2,
                ..Case::default()
            };
            C08Case { base, only: Some((k, fault)) }
        },
        run_c08,
    );
    // a buffering transport over a slow link: what the endpoint handed to its WebSocket is only transmitted once the close has
    // flushed it, and that takes longer than the keepalive timeout (virtual time passes while the close is pending); dropping the
    // Multiplexor on this healthy (if slow) transport must still get every queued frame to the peer before the Close
    ctx.enumerate(
        rep,
        "drop-flush-slow-link",
        40 * 2,
        10,
        |i| {
            let k = 6 + (i % 40) as u32;
            let ticks = 3 + (i / 40) as u32 * 3;
            // the link stops delivering just before the drop; once the endpoint has handed everything to its WebSocket and is waiting
            // for the close (= quiescence), virtual time passes; then the link delivers again
            let mut events = vec![RawEvent { when: Trigger::ForcedAt(k), what: What::Hold { side: 0, on: true } }, RawEvent { when: Trigger::ForcedAt(k + 1), what: What::DropMux { side: 0 } }];
            for _ in 0..ticks {
                events.push(RawEvent { when: Trigger::Quiescent, what: What::Tick });
            }
            events.push(RawEvent { when: Trigger::Quiescent, what: What::Hold { side: 0, on: false } });
            events.push(RawEvent { when: Trigger::Quiescent, what: What::Wake(1) });
            let w: Vec<WOp> = std::iter::repeat(WOp::Write(3)).take(6).chain([WOp::Shutdown]).collect();
            Case {
                opts: [OptsSpec { rwnd: 16, thr: 4, ..OptsSpec::default() }, OptsSpec { rwnd: 16, thr: 4, ..OptsSpec::default() }],
                streams: vec![StreamSpec { side: 0, port: 1, pad: vec![], delay: 0, park: None, cancel: None, ends: [EndScript { w, r: vec![] }, EndScript { w: vec![], r: vec![ROp::Park(1), ROp::ToEof(64)] }] }],
                dgrams: vec![DgSpec { side: 0, flow_id: 3, host_len: 4, port: 9, data_len: 5, delay: 2 }],
                dg_readers: [DgReader::None, DgReader::AfterWake(1)],
                keepalive: [true, false],
                keepalive_timeout_ticks: 2,
                flush_waits: [true, false],
                events,
                ..Case::default()
            }
        },
        |case| {
            let run = run_case(case);
            FAULT_RUNS.fetch_add(1, Ordering::Relaxed);
            if !run.quiescent {
                return Outcome::inconclusive("step bound");
            }
            let a = Analysis::new(case, &run);
            let Some(drop_at) = run.events.iter().position(|e| matches!(&e.ev, Ev::App(AppEv::MuxDropped { side: 0 }))) else {
                return Outcome::pass(false, vec!["drop-after-the-end"]);
            };
            if run.events[..drop_at].iter().any(|e| matches!(&e.ev, Ev::TaskExit { .. })) {
                return Outcome::pass(false, vec!["ended-before-the-drop"]);
            }
            if let Some(lost) = run.events.iter().find_map(|e| if let Ev::Fault(m) = &e.ev { if m.contains("never transmitted") { Some(m.clone()) } else { None } } else { None }) {
                return Outcome::violation("c08-drop-loses-buffered-frames", format!("the Multiplexor was dropped on a healthy but slow transport with keepalive configured: {lost}; tail: {}", a.ctx(14)));
            }
            // what the application had completed before the drop arrives
            let w = a.streams[0].ends[0].written_before(drop_at);
            let shut = a.streams[0].ends[0].shutdown_at.is_some_and(|s| s < drop_at);
            let r = &a.streams[0].ends[1];
            if a.streams[0].accepted_at.is_some() && (r.total_read() < w || (shut && r.eof_at.is_none())) {
                return Outcome::violation("c08-drop-loses-data", format!("{w} bytes written (shutdown: {shut}) before the Multiplexor was dropped; the peer read {} bytes, eof {:?}; tail: {}", r.total_read(), r.eof_at, a.ctx(14)));
            }
            if std::env::var("VF_TRACE").is_ok() {
                eprintln!("TRACE {}", a.ctx(70));
            }
            let in_flight_at_drop = w > 0;
            Outcome::pass(in_flight_at_drop, vec!["drop-with-slow-flush"])
        },
    );
    // the flush after a local drop under a real tokio runtime (cooperative budget, real wake-ups) with a large backlog
    ctx.enumerate(rep, "drop-flush-backlog", (BACKLOG.len() * 3) as u64, 4, |i| (BACKLOG[(i % BACKLOG.len() as u64) as usize], (i / BACKLOG.len() as u64) as u8), run_backlog);
    rep.extra.insert("fault_injections".into(), serde_json::json!(FAULT_RUNS.load(Ordering::Relaxed)));
    rep.extra.insert("fault_injections_with_pending_ops".into(), serde_json::json!(FAULT_RUNS_PENDING.load(Ordering::Relaxed)));
    rep.extra.insert("fault_kinds".into(), serde_json::json!(FAULTS));
    rep.extra.insert("exhaustive_dimension".into(), serde_json::json!("cut point (every step of each base execution) x fault kind"));
}


// ------------------------------------------------------------------ drop flush with a large backlog, on a real tokio runtime

const BACKLOG: [u32; 9] = [1, 50, 127, 128, 129, 130, 300, 1000, 5000];

/// transport whose sink is closed by a gate (poll_ready Pending while the gate is shut); records what was sent
struct GateWs {
    open: std::sync::Arc<std::sync::atomic::AtomicBool>,
    waker: std::sync::Arc<std::sync::Mutex<Option<std::task::Waker>>>,
    out: std::sync::Arc<std::sync::Mutex<Vec<penguin_mux::ws::Message>>>,
    closed: bool,
    /// let through this many messages per poll_ready before reporting Pending once (a sink that drains in bursts)
    burst: u32,
    passed: u32,
}

impl penguin_mux::ws::WebSocket for GateWs {
    fn poll_ready_unpin(&mut self, cx: &mut std::task::Context<'_>) -> std::task::Poll<Result<(), penguin_mux::Error>> {
        if !self.open.load(Ordering::SeqCst) {
            *self.waker.lock().unwrap() = Some(cx.waker().clone());
            return std::task::Poll::Pending;
        }
        if self.burst > 0 && self.passed >= self.burst {
            self.passed = 0;
            cx.waker().wake_by_ref();
            return std::task::Poll::Pending;
        }
        std::task::Poll::Ready(Ok(()))
    }
    fn start_send_unpin(&mut self, item: penguin_mux::ws::Message) -> Result<(), penguin_mux::Error> {
        self.passed += 1;
        self.out.lock().unwrap().push(item);
        Ok(())
    }
    fn poll_flush_unpin(&mut self, _cx: &mut std::task::Context<'_>) -> std::task::Poll<Result<(), penguin_mux::Error>> {
        std::task::Poll::Ready(Ok(()))
    }
    fn poll_close_unpin(&mut self, _cx: &mut std::task::Context<'_>) -> std::task::Poll<Result<(), penguin_mux::Error>> {
        if !self.closed {
            self.closed = true;
            self.out.lock().unwrap().push(penguin_mux::ws::Message::Close);
        }
        std::task::Poll::Ready(Ok(()))
    }
    fn poll_next_unpin(&mut self, cx: &mut std::task::Context<'_>) -> std::task::Poll<Option<Result<penguin_mux::ws::Message, penguin_mux::Error>>> {
        if self.closed {
            // the peer answers our Close by ending the stream
            return std::task::Poll::Ready(None);
        }
        *self.waker.lock().unwrap() = Some(cx.waker().clone());
        std::task::Poll::Pending
    }
}

/// n datagrams are accepted by send_datagram while the sink is shut, the Multiplexor is dropped, the sink opens: every one of
/// them must be transmitted, in order, before the Close
fn run_backlog(c: &(u32, u8)) -> Outcome {
    use rand::SeedableRng;
    let (n, mode) = *c;
    let rt = tokio::runtime::Builder::new_current_thread().enable_time().start_paused(true).build().expect("runtime");
    let open = std::sync::Arc::new(std::sync::atomic::AtomicBool::new(false));
    let waker = std::sync::Arc::new(std::sync::Mutex::new(None::<std::task::Waker>));
    let out = std::sync::Arc::new(std::sync::Mutex::new(vec![]));
    let ws = GateWs { open: open.clone(), waker: waker.clone(), out: out.clone(), closed: false, burst: if mode == 2 { 7 } else { 0 }, passed: 0 };
    let finished = rt.block_on(async {
        let (mux, taskdata) = penguin_mux::Multiplexor::new_detailed::<_, std::time::Instant>(ws, penguin_mux::config::Options::new(), rand::rngs::SmallRng::seed_from_u64(3));
        let task = tokio::spawn(taskdata.into_task());
        tokio::task::yield_now().await;
        for k in 0..n {
            let d = penguin_mux::Datagram { flow_id: k, target_host: bytes::Bytes::from_static(b"h"), target_port: 9, data: bytes::Bytes::from(k.to_be_bytes().to_vec()) };
            if mux.send_datagram(d).await.is_err() {
                return Err(format!("send_datagram {k} refused on a live connection"));
            }
        }
        let release = || {
            open.store(true, Ordering::SeqCst);
            if let Some(w) = waker.lock().unwrap().take() {
                w.wake();
            }
        };
        if mode == 0 {
            // the sink opens first, the drop follows at once (nothing has been polled in between)
            release();
            drop(mux);
        } else {
            drop(mux);
            tokio::task::yield_now().await;
            release();
        }
        match tokio::time::timeout(std::time::Duration::from_secs(3600), task).await {
            Ok(r) => Ok(r.map(|x| x.map_err(|e| format!("{e:?}"))).map_err(|e| e.to_string())),
            Err(_) => Err("the connection task did not finish after the drop (1 h of virtual time)".to_string()),
        }
    });
    match finished {
        Err(m) => return Outcome::violation("c08-backlog-task-hangs", format!("backlog {n}, mode {mode}: {m}")),
        Ok(Err(join)) => return Outcome::violation("c08-backlog-task-panicked", format!("backlog {n}, mode {mode}: {join}")),
        Ok(Ok(_)) => {}
    }
    let out = out.lock().unwrap();
    let mut dg = vec![];
    for (i, m) in out.iter().enumerate() {
        match m {
            penguin_mux::ws::Message::Binary(b) => match vf_ref::frame::decode(b) {
                Ok(RFrame::Datagram { id, .. }) => dg.push(id),
                other => return Outcome::violation("c08-backlog-unexpected-frame", format!("backlog {n}: message {i} is {other:?}")),
            },
            penguin_mux::ws::Message::Close => {
                if i + 1 != out.len() {
                    return Outcome::violation("c08-backlog-close-not-last", format!("backlog {n}: Close is message {i} of {}", out.len()));
                }
            }
            _ => {}
        }
    }
    let want: Vec<u32> = (0..n).collect();
    if dg != want {
        let first = dg.iter().zip(want.iter()).position(|(a, b)| a != b).unwrap_or(dg.len().min(want.len()));
        return Outcome::violation(
            "c08-drop-loses-datagram",
            format!("{n} datagrams were accepted by send_datagram before the Multiplexor was dropped (sink back-pressured, mode {mode}); {} were transmitted before the WebSocket was closed (first difference at position {first})", dg.len()),
        );
    }
    if !matches!(out.last(), Some(penguin_mux::ws::Message::Close)) {
        return Outcome::violation("c08-drop-no-close", format!("backlog {n}: the last message is not Close"));
    }
    Outcome::pass(n > 128, vec!["drop-flush-backlog"])
}
