//! C10 – a misbehaving peer cannot crash, wedge or cross-contaminate an endpoint (raw peer on side B).
use super::gens::*;
use super::streams::sim_assumptions;
use crate::engine::*;
use crate::oracle::*;
use crate::run::*;
use crate::world::*;
use proptest::prelude::*;
use std::collections::BTreeMap;
use vf_common::{Ctx, Outcome, Report};
use vf_ref::frame::RFrame;

// scripted flow ids of A (setup runs in fair mode, so the assignment is deterministic; verified on the wire)
const ID_BY0: u32 = 0x10; // bystander, A writes
const ID_BY1: u32 = 0x11; // bystander, peer writes
const ID_TARGET: u32 = 0x12;
const ID_HALF: u32 = 0x13;
const ID_STALE: u32 = 0x14;
const ID_REQ: u32 = 0x15;
const ID_BINDREQ: u32 = 0x16;
const ID_LATE: u32 = 0x17;
const ID_UNKNOWN: u32 = 0xDEAD;
const ID_PROBE: u32 = 0x7777;

pub const OPS: [&str; 13] = ["connect", "connect0", "ack0", "ack1", "ackbig", "ackmax", "reset", "finish", "push1", "pushburst", "bind1", "bind3", "datagram"];
pub const IDS: [(&str, u32); 7] = [("zero", 0), ("unknown", ID_UNKNOWN), ("stale", ID_STALE), ("target", ID_TARGET), ("halfclosed", ID_HALF), ("requested", ID_REQ), ("bindrequested", ID_BINDREQ)];
pub const NSYM: u64 = (OPS.len() * IDS.len()) as u64;

#[derive(Clone, Debug, Hash, serde::Serialize, serde::Deserialize)]
pub struct C10Case {
    /// symbols: op * 7 + idclass
    pub seq: Vec<u8>,
    pub rwnd: u32,
    pub binds_enabled: bool,
    pub schedule: Vec<u8>,
}

fn sym_msgs(sym: u8, rwnd: u32) -> Vec<RawMsg> {
    let op = sym as usize / IDS.len();
    let id = IDS[sym as usize % IDS.len()].1;
    match OPS[op] {
        "connect" => vec![RawMsg::Connect { id, rwnd: 2, port: 9, host: b"evil".to_vec() }],
        // a Connect advertising an empty window (the endpoint may never write on that flow, everything else is unchanged)
        "connect0" => vec![RawMsg::Connect { id, rwnd: 0, port: 9, host: b"evil".to_vec() }],
        "ack0" => vec![RawMsg::Ack { id, n: 0 }],
        "ack1" => vec![RawMsg::Ack { id, n: 1 }],
        "ackbig" => vec![RawMsg::Ack { id, n: 0x7fff_fff0 }],
        // the largest value the field can carry: added to any non-zero credit it exceeds 32 bits
        "ackmax" => vec![RawMsg::Ack { id, n: u32::MAX }],
        "reset" => vec![RawMsg::Reset { id }],
        "finish" => vec![RawMsg::Finish { id }],
        "push1" => vec![RawMsg::Push { id, len: 1 }],
        "pushburst" => vec![RawMsg::Push { id, len: 2 }; rwnd as usize + 1],
        "bind1" => vec![RawMsg::Bind { id, dgram: false, port: 7, host: b"bh".to_vec() }],
        "bind3" => vec![RawMsg::Bind { id, dgram: true, port: 7, host: b"bh".to_vec() }],
        "datagram" => vec![RawMsg::Datagram { id, port: 5, host: b"dh".to_vec(), data: vec![1, 2, 3] }],
        _ => unreachable!(),
    }
}

const BY_FRAMES: u32 = 2;

pub fn build(c: &C10Case) -> Case {
    let mut o0 = OptsSpec { rwnd: c.rwnd, thr: 1, stream_buf: 16, dgram_buf: 64, bind_buf: if c.binds_enabled { 16 } else { 0 }, retries: 1 };
    o0.thr = 1;
    let keep = |w: Vec<WOp>, r: Vec<ROp>| EndScript { w, r };
    let mut by0w = vec![WOp::Park(1)];
    by0w.extend(vec![WOp::Write(3); BY_FRAMES as usize]);
    let streams = vec![
        // s0: bystander, A writes after the wake
        StreamSpec { side: 0, port: 1, pad: vec![], delay: 0, park: None, cancel: None, ends: [keep(by0w, vec![]), EndScript::default()] },
        // s1: bystander, the peer writes (PushFor), A reads
        StreamSpec { side: 0, port: 1, pad: vec![], delay: 0, park: None, cancel: None, ends: [keep(vec![], vec![ROp::Read(64); BY_FRAMES as usize]), EndScript::default()] },
        // s2: target, established, application holds it, reader idle
        StreamSpec { side: 0, port: 1, pad: vec![], delay: 0, park: None, cancel: None, ends: [keep(vec![], vec![]), EndScript::default()] },
        // s3: half-closed by A
        StreamSpec { side: 0, port: 1, pad: vec![], delay: 0, park: None, cancel: None, ends: [keep(vec![WOp::Shutdown], vec![]), EndScript::default()] },
        // s4: stale: opened and dropped
        StreamSpec { side: 0, port: 1, pad: vec![], delay: 0, park: None, cancel: None, ends: [keep(vec![WOp::Drop], vec![]), EndScript::default()] },
        // s5: requested, never answered by the peer's policy
        StreamSpec { side: 0, port: 1, pad: vec![], delay: 0, park: None, cancel: None, ends: [EndScript::default(), EndScript::default()] },
        // s6: late local open after the sequence
        StreamSpec { side: 0, port: 1, pad: vec![], delay: 0, park: Some(2), cancel: None, ends: [keep(vec![WOp::Write(1)], vec![]), EndScript::default()] },
    ];
    let mut events = vec![RawEvent { when: Trigger::Quiescent, what: What::Wake(1) }];
    // the peer's pushes for bystander s1 interleave with the sequence
    let mut msgs: Vec<RawMsg> = vec![];
    let seq_msgs: Vec<Vec<RawMsg>> = c.seq.iter().map(|s| sym_msgs(*s, c.rwnd)).collect();
    let mut by = 0u32;
    for m in seq_msgs {
        if by < BY_FRAMES {
            msgs.push(RawMsg::PushFor { id: ID_BY1, stream: 1, off: by * 2, len: 2 });
            by += 1;
        }
        msgs.extend(m);
    }
    while by < BY_FRAMES {
        msgs.push(RawMsg::PushFor { id: ID_BY1, stream: 1, off: by * 2, len: 2 });
        by += 1;
    }
    for m in msgs {
        let prev = events.len() as u32 - 1;
        events.push(RawEvent { when: Trigger::AfterEvent(prev), what: What::Inject { from: 1, msg: m } });
    }
    // afterwards, at quiescence: liveness probes
    events.push(RawEvent { when: Trigger::Quiescent, what: What::Inject { from: 1, msg: RawMsg::Connect { id: ID_PROBE, rwnd: 1, port: 2, host: b"probe".to_vec() } } });
    events.push(RawEvent { when: Trigger::Quiescent, what: What::Wake(2) });
    Case {
        opts: [o0, OptsSpec::default()],
        rng: [vec![ID_BY0, ID_BY1, ID_TARGET, ID_HALF, ID_STALE, ID_REQ, ID_BINDREQ, ID_LATE], vec![]],
        streams,
        binds: vec![BindSpec { side: 0, dgram: false, host: b"x".to_vec(), port: 3, delay: 0 }],
        bind_policy: [BindPolicy { answers: vec![BindAnswer::Hold; 64], batch: 1, order: vec![], enabled: c.binds_enabled, ping_first: false }, BindPolicy::default()],
        dg_readers: [DgReader::Eager, DgReader::None],
        raw: Some(RawPolicy { reject_first: 0, ack_connects: Some(64), ack_every: Some(1), answer_close: true, no_ack_streams: vec![5] }),
        events,
        schedule: c.schedule.clone(),
        sched_phase: 1,
        ..Case::default()
    }
}

#[derive(Clone, Copy, Debug, PartialEq, Eq)]
enum Slot {
    Absent,
    Requested,
    BindRequested,
    /// an overrun may or may not have closed the flow (eager reader): every later frame on it may or may not draw a Reset
    Uncertain,
    /// read_open, finish_sent_by_a, queued (frames not read by the idle application), reader idle
    Est(bool, bool, u32, bool),
}

pub fn run_c10(c: &C10Case) -> Outcome {
    let case = build(c);
    let run = run_case(&case);
    if !run.quiescent {
        return Outcome::inconclusive("step bound");
    }
    let a = Analysis::new(&case, &run);
    macro_rules! viol {
        ($sig:expr, $($arg:tt)*) => {
            return Outcome::violation($sig, format!("sequence {:?}: {} | tail: {}", c.seq.iter().map(|s| format!("{}@{}", OPS[*s as usize / IDS.len()], IDS[*s as usize % IDS.len()].0)).collect::<Vec<_>>(), format!($($arg)*), a.ctx(18)))
        };
    }
    // harness assumption: scripted ids
    let want_ids = [ID_BY0, ID_BY1, ID_TARGET, ID_HALF, ID_STALE, ID_REQ];
    for (i, id) in want_ids.iter().enumerate() {
        if a.streams[i].connects.first().map(|c| c.1) != Some(*id) {
            return Outcome::inconclusive(format!("harness: stream {i} did not get scripted id {id:x}"));
        }
    }
    let phase2 = run.events.iter().position(|e| matches!(&e.ev, Ev::App(AppEv::Note(n)) if n == "wake 1"));
    let Some(phase2) = phase2 else { return Outcome::inconclusive("setup never became quiescent") };
    // (1) no crash / exit on well-formed frames
    if let Some(r) = &run.task_exit[0] {
        viol!("c10-task-exited", "the connection task ended ({r:?}) although only well-formed frames were received");
    }
    // model of A's slot table at the start of phase 2
    let mut slots: BTreeMap<u32, Slot> = BTreeMap::new();
    slots.insert(ID_BY0, Slot::Est(true, false, 0, false));
    slots.insert(ID_BY1, Slot::Est(true, false, 0, false));
    slots.insert(ID_TARGET, Slot::Est(true, false, 0, true));
    slots.insert(ID_HALF, Slot::Est(true, true, 0, true));
    slots.insert(ID_REQ, Slot::Requested);
    slots.insert(ID_BINDREQ, Slot::BindRequested);
    let mut expect_reset: BTreeMap<u32, (u32, u32)> = BTreeMap::new(); // id -> (min, max) resets expected
    let mut bump = |id: u32, lo: u32, hi: u32, m: &mut BTreeMap<u32, (u32, u32)>| {
        let e = m.entry(id).or_insert((0, 0));
        e.0 += lo;
        e.1 += hi;
    };
    let mut touched_live = false;
    let mut expect_acks: Vec<u32> = vec![];
    let mut bind_shown = 0;
    for st in &run.events[phase2..] {
        if let Ev::Sent { side: 0, msg: WMsg::Frame(RFrame::Connect { id, .. }), .. } = &st.ev {
            // the endpoint's own later open
            slots.insert(*id, Slot::Requested);
            continue;
        }
        let Ev::Recv { side: 0, msg: WMsg::Frame(f) } = &st.ev else { continue };
        let id = f.id();
        if id == ID_BY0 || id == ID_BY1 {
            continue; // bystander traffic: credit Acks and data
        }
        let slot = *slots.get(&id).unwrap_or(&Slot::Absent);
        if slot != Slot::Absent {
            touched_live = true;
        }
        if slot == Slot::Uncertain && !matches!(f, RFrame::Bind { .. } | RFrame::Datagram { .. }) {
            if !matches!(f, RFrame::Reset { .. }) {
                bump(id, 0, 1, &mut expect_reset);
            }
            if matches!(f, RFrame::Reset { .. }) {
                slots.remove(&id);
            }
            if matches!(f, RFrame::Connect { .. }) {
                // accepted if the flow had been closed, rejected otherwise
                expect_acks.retain(|x| *x != id);
            }
            continue;
        }
        match f {
            RFrame::Connect { .. } => {
                if id == 0 || slot != Slot::Absent {
                    bump(id, 1, 1, &mut expect_reset);
                } else {
                    expect_acks.push(id);
                    // accepted by the application, which reads it eagerly
                    slots.insert(id, Slot::Est(true, false, 0, false));
                }
            }
            RFrame::Acknowledge { .. } => match slot {
                Slot::Est(..) => {}
                Slot::Requested => {
                    // established now; its application (if any) does not read
                    slots.insert(id, Slot::Est(true, false, 0, true));
                }
                Slot::BindRequested | Slot::Absent => bump(id, 1, 1, &mut expect_reset),
                Slot::Uncertain => {}
            },
            RFrame::Finish { .. } => match slot {
                Slot::Absent => bump(id, 1, 1, &mut expect_reset),
                Slot::BindRequested => {
                    slots.remove(&id);
                }
                Slot::Requested => {
                    slots.remove(&id);
                    bump(id, 1, 1, &mut expect_reset);
                }
                Slot::Est(_, fs, q, idle) => {
                    slots.insert(id, Slot::Est(false, fs, q, idle));
                }
                Slot::Uncertain => {}
            },
            RFrame::Reset { .. } => {
                // never a Reset in reply to a Reset
                slots.remove(&id);
            }
            RFrame::Push { .. } => match slot {
                Slot::Absent | Slot::Requested | Slot::BindRequested => bump(id, 1, 1, &mut expect_reset),
                Slot::Uncertain => {}
                Slot::Est(read_open, fs, q, idle) => {
                    if !read_open {
                        // Push after the peer's own Finish: the peer broke the protocol, either reaction is tolerated
                        bump(id, 0, 1, &mut expect_reset);
                    } else if !idle {
                        // the application reads at its own pace: an overrun may or may not happen
                        if q >= c.rwnd {
                            bump(id, 0, 1, &mut expect_reset);
                            slots.insert(id, Slot::Uncertain);
                        } else {
                            slots.insert(id, Slot::Est(read_open, fs, q + 1, idle));
                        }
                    } else if q >= c.rwnd {
                        // window overrun: the offending flow is closed; a Reset is due unless A already finished its side
                        slots.remove(&id);
                        if fs {
                            bump(id, 0, 1, &mut expect_reset);
                        } else {
                            bump(id, 1, 1, &mut expect_reset);
                        }
                    } else {
                        slots.insert(id, Slot::Est(read_open, fs, q + 1, idle));
                    }
                }
            },
            RFrame::Bind { .. } => {
                if c.binds_enabled {
                    bind_shown += 1;
                } else {
                    bump(id, 1, 1, &mut expect_reset);
                }
            }
            RFrame::Datagram { .. } => {}
        }
    }
    // (2)+(3) replies: Resets per id within the expected bounds; nothing for other ids
    let mut got_reset: BTreeMap<u32, u32> = BTreeMap::new();
    let mut got_ack_hs: Vec<u32> = vec![];
    for st in &run.events[phase2..] {
        if let Ev::Sent { side: 0, msg: WMsg::Frame(f), .. } = &st.ev {
            match f {
                RFrame::Reset { id } => *got_reset.entry(*id).or_default() += 1,
                RFrame::Acknowledge { id, n } if (expect_acks.contains(id) || *id == ID_PROBE) && !got_ack_hs.contains(id) => {
                    if *n != c.rwnd {
                        viol!("c10-handshake-window", "Connect({id:08x}) acknowledged with window {n}, the endpoint's rwnd is {}", c.rwnd);
                    }
                    got_ack_hs.push(*id);
                }
                _ => {}
            }
        }
    }
    for (id, n) in &got_reset {
        let (lo, hi) = expect_reset.get(id).copied().unwrap_or((0, 0));
        if *n > hi {
            let cls = IDS.iter().find(|x| x.1 == *id).map(|x| x.0).unwrap_or("other");
            viol!(format!("c10-unexpected-reset:{cls}"), "the endpoint sent {n} Reset frames on flow {id:08x} ({cls}); at most {hi} are called for by the frames it received (a Reset is never answered with a Reset, a flow not addressed is never reset)");
        }
        let _ = lo;
    }
    for (id, (lo, _)) in &expect_reset {
        let n = got_reset.get(id).copied().unwrap_or(0);
        if n < *lo {
            let cls = IDS.iter().find(|x| x.1 == *id).map(|x| x.0).unwrap_or("other");
            viol!(format!("c10-missing-reset:{cls}"), "the endpoint sent {n} Reset frames on flow {id:08x} ({cls}) but PROTOCOL.md requires {lo} (frames on unknown flows, Connect with id 0 or a live id, Bind while binds are disabled, window overrun)");
        }
    }
    for id in &expect_acks {
        if !got_ack_hs.contains(id) {
            viol!("c10-connect-not-acknowledged", "a well-formed Connect on the free id {id:08x} was not acknowledged");
        }
    }
    // still serving: probe Connect acknowledged, late local open established
    if !got_ack_hs.contains(&ID_PROBE) && slots.get(&ID_PROBE).is_none() {
        viol!("c10-stopped-serving", "after the sequence a fresh Connect({ID_PROBE:08x}) was not acknowledged");
    }
    if a.streams[6].open_ok_at.is_none() {
        viol!("c10-stopped-serving-local", "after the sequence a local new_stream_channel did not complete: {:?}", a.streams[6].open_err);
    }
    // (4) bystanders intact and complete
    if let Err((sig, msg)) = a.integrity() {
        viol!(format!("c10-bystander:{sig}"), "{msg}");
    }
    if a.streams[0].ends[0].nonempty_writes != BY_FRAMES as usize || !a.streams[0].ends[0].write_errs.is_empty() {
        viol!("c10-bystander-writes", "bystander stream 0 completed {} of {BY_FRAMES} writes (errors {:?})", a.streams[0].ends[0].nonempty_writes, a.streams[0].ends[0].write_errs);
    }
    if a.streams[1].ends[0].total_read() != (BY_FRAMES * 2) as usize || a.streams[1].ends[0].eof_at.is_some() {
        viol!("c10-bystander-reads", "bystander stream 1 read {} of {} bytes (eof: {})", a.streams[1].ends[0].total_read(), BY_FRAMES * 2, a.streams[1].ends[0].eof_at.is_some());
    }
    // the application saw exactly the Bind requests that were delivered
    let seen = run.app_events().filter(|(_, e)| matches!(e, AppEv::BindSeen { .. })).count();
    if c.binds_enabled && seen != bind_shown {
        viol!("c10-bind-not-shown", "{bind_shown} Bind frames received, {seen} shown to the application");
    }
    let mut cl: Vec<&'static str> = vec![];
    if touched_live {
        cl.push("touches-live-slot");
    }
    if c.binds_enabled {
        cl.push("binds-enabled");
    }
    Outcome::pass(touched_live, cl)
}

// invalid (non-frame) messages
#[derive(Clone, Debug, Hash, serde::Serialize, serde::Deserialize)]
pub struct InvalidCase {
    pub bytes: Vec<u8>,
    pub silent_peer: bool,
    pub text_as_binary: bool,
    pub schedule: Vec<u8>,
    /// the peer has stopped reading before it sends the invalid message: the endpoint's sink is not writable and frames of the
    /// bystander stream are waiting in its outbound queue
    #[serde(default)]
    pub stalled_sink: bool,
    /// the endpoint's application has stopped accepting streams and its accept queue (one slot) is full when the invalid message
    /// arrives, with a further Connect of the peer right behind it: the connection still has to end with the error and resolve
    /// everything (a Connect dispatched during the wind-down must not wait for room in the accept queue)
    #[serde(default)]
    pub full_accept_queue: bool,
}

pub fn run_invalid(c: &InvalidCase) -> Outcome {
    if vf_ref::frame::decode(&c.bytes).is_ok() {
        return Outcome::pass(false, vec!["actually-valid"]);
    }
    let mut case = build(&C10Case { seq: vec![], rwnd: 3, binds_enabled: true, schedule: c.schedule.clone() });
    // replace the phase-2 traffic by the invalid message
    case.events = vec![RawEvent { when: Trigger::Quiescent, what: What::Wake(1) }, RawEvent { when: Trigger::AfterEvent(0), what: What::Inject { from: 1, msg: RawMsg::Bytes(c.bytes.clone()) } }];
    if c.stalled_sink {
        case.events = vec![
            RawEvent { when: Trigger::Quiescent, what: What::Wedge { side: 0 } },
            RawEvent { when: Trigger::AfterEvent(0), what: What::Wake(1) },
            RawEvent { when: Trigger::AfterEvent(1), what: What::Inject { from: 1, msg: RawMsg::Bytes(c.bytes.clone()) } },
        ];
    }
    if c.full_accept_queue && !c.stalled_sink {
        case.opts[0].stream_buf = 1;
        case.acceptors[0] = AcceptPolicy::Never;
        case.events = vec![
            RawEvent { when: Trigger::Quiescent, what: What::Wake(1) },
            RawEvent { when: Trigger::AfterEvent(0), what: What::Inject { from: 1, msg: RawMsg::Connect { id: 0x7001, rwnd: 2, port: 9, host: b"fills-the-queue".to_vec() } } },
            RawEvent { when: Trigger::AfterEvent(1), what: What::Inject { from: 1, msg: RawMsg::Bytes(c.bytes.clone()) } },
            RawEvent { when: Trigger::AfterEvent(2), what: What::Inject { from: 1, msg: RawMsg::Connect { id: 0x7002, rwnd: 2, port: 9, host: b"behind-the-bad-one".to_vec() } } },
        ];
    }
    if c.silent_peer || c.stalled_sink {
        case.raw.as_mut().unwrap().answer_close = false;
    }
    let run = run_case(&case);
    if !run.quiescent {
        return Outcome::inconclusive("step bound");
    }
    let a = Analysis::new(&case, &run);
    match &run.task_exit[0] {
        None => return Outcome::violation(format!("c10-invalid-hang{}{}", if c.silent_peer { ":silent-peer" } else { "" }, if c.stalled_sink { ":stalled-sink" } else { "" }), format!("after the invalid message {:02x?} the connection task never finished; blocked: {:?}; tail: {}", c.bytes, run.blocked_tasks(), a.ctx(14))),
        Some(Ok(())) => return Outcome::violation("c10-invalid-no-error", format!("invalid message {:02x?} ended the connection without an error", c.bytes)),
        Some(Err(e)) => {
            if !e.contains("InvalidFrame") {
                return Outcome::violation("c10-invalid-wrong-error", format!("invalid message {:02x?}: task ended with {e}", c.bytes));
            }
        }
    }
    let stuck: Vec<String> = run.tasks.iter().filter(|t| !t.2 && !t.0.starts_with("mux")).map(|t| t.0.clone()).collect();
    // parked actors (late open s6, bystander writer waiting for wake 1 was released) are not operations
    let stuck: Vec<String> = stuck.into_iter().filter(|n| n != "open6").collect();
    if !stuck.is_empty() {
        return Outcome::violation("c10-invalid-pending-ops", format!("after the invalid message {:02x?} these operations never resolved: {stuck:?}; tail: {}", c.bytes, a.ctx(14)));
    }
    if c.full_accept_queue && !c.stalled_sink {
        return Outcome::pass(true, vec!["full-accept-queue-and-a-connect-behind-the-bad-message"]);
    }
    Outcome::pass(true, vec![if c.stalled_sink { "stalled-sink" } else if c.silent_peer { "silent-peer" } else { "peer-answers-close" }])
}

pub fn c10(ctx: &Ctx, rep: &mut Report) {
    rep.rule = "one real endpoint with two bystander streams in use, an established target flow (idle reader), a half-closed flow, a stale (closed) flow, a pending Connect and a pending Bind, against a harness-driven raw peer. \
                The peer sends sequences over the alphabet {Connect (window 2 | 0), Acknowledge(0|1|2^31-16|2^32-1), Reset, Finish, Push(1 frame | window+1 burst), Bind(1|3), Datagram} x flow id in {0, unknown, stale, target, half-closed, requested, bind-requested} (91 symbols): ALL sequences up to length 2 (quick) / 3 (thorough) are enumerated with binds enabled and disabled, \
                random sequences up to length 30 interleaved with bystander traffic by a generated schedule. Oracle: a reference model of the slot table gives the Reset frames PROTOCOL.md requires per received frame (exact counts per flow id; tolerated either way only for Push after the peer's own Finish and overrun of a flow the endpoint already finished); \
                the task never exits, a fresh Connect and a local open still work afterwards, bystanders complete with intact data. Second family: non-frame messages (bad version/opcode, short frames, bad bind type) must end the connection with InvalidFrame and resolve every pending operation, also when the peer stays silent. \
                Non-trivial = the sequence touches a live (non-absent) slot state. Distinct = distinct case value."
        .into();
    rep.assumptions = sim_assumptions();
    let t = ctx.tier;
    let maxlen = t.pick(2u32, 3u32);
    let per: u64 = (1..=maxlen).map(|l| NSYM.pow(l)).sum();
    let total = per * 2 * 2; // binds on/off x window 1/3
    ctx.enumerate(
        rep,
        "sequences-exhaustive",
        total,
        500,
        |i| {
            let binds_enabled = i % 2 == 0;
            let rwnd = if (i / 2) % 2 == 0 { 2 } else { 3 };
            let mut r = (i / 4) % per;
            let mut len = 1;
            loop {
                let n = NSYM.pow(len);
                if r < n {
                    break;
                }
                r -= n;
                len += 1;
            }
            let mut seq = vec![];
            for _ in 0..len {
                seq.push((r % NSYM) as u8);
                r /= NSYM;
            }
            C10Case { seq, rwnd, binds_enabled, schedule: vec![] }
        },
        run_c10,
    );
    ctx.prop(
        rep,
        "sequences-random",
        t.pick(150_000, 3_000_000),
        300,
        || {
            (prop::collection::vec(0u8..NSYM as u8, 1..=30), prop::sample::select(vec![2u32, 3, 5, 8, 12]), any::<bool>(), schedule(300)).prop_map(|(seq, rwnd, binds_enabled, schedule)| C10Case { seq, rwnd, binds_enabled, schedule })
        },
        run_c10,
    );
    // more well-formed Datagram frames in a row than the datagram buffer holds while the application is not taking any:
    // the surplus is dropped (C11) and the endpoint goes on serving everything else - streams in use, new Connects, frames on
    // unknown flows - and still ends the connection on an invalid message
    ctx.enumerate(
        rep,
        "datagram-flood",
        3 * 2 * 2,
        4,
        |i| {
            let (buf, extra) = [(1usize, 3u32), (8, 5), (512, 40)][(i % 3) as usize];
            let reader = if (i / 3) % 2 == 0 { DgReader::None } else { DgReader::AfterWake(9) };
            let invalid_after = (i / 6) % 2 == 1;
            let mut events = vec![];
            let push = |events: &mut Vec<RawEvent>, when: Trigger, msg: RawMsg| events.push(RawEvent { when, what: What::Inject { from: 1, msg } });
            for k in 0..buf as u32 + extra {
                push(&mut events, Trigger::FromStep(8), RawMsg::Datagram { id: k % 5, port: 5, host: b"dh".to_vec(), data: vec![k as u8; (k % 4) as usize] });
            }
            // then, at quiescence: data for the stream in use, a frame on an unknown flow, a new Connect, a local open
            push(&mut events, Trigger::Quiescent, RawMsg::PushDir { id: ID_BY0, stream: 0, dir: 1, off: 0, len: 3 });
            push(&mut events, Trigger::Quiescent, RawMsg::Push { id: ID_UNKNOWN, len: 1 });
            push(&mut events, Trigger::Quiescent, RawMsg::Connect { id: ID_PROBE, rwnd: 1, port: 2, host: b"probe".to_vec() });
            events.push(RawEvent { when: Trigger::Quiescent, what: What::Wake(2) });
            if invalid_after {
                push(&mut events, Trigger::Quiescent, RawMsg::Bytes(vec![0x7f, 1, 2, 3, 4]));
            }
            Case {
                opts: [OptsSpec { rwnd: 4, thr: 1, stream_buf: 16, dgram_buf: buf, bind_buf: 0, retries: 1 }, OptsSpec::default()],
                rng: [vec![ID_BY0, ID_LATE], vec![]],
                streams: vec![
                    StreamSpec { side: 0, port: 1, pad: vec![], delay: 0, park: None, cancel: None, ends: [EndScript { w: vec![WOp::Write(2)], r: vec![ROp::Read(64), ROp::Read(64)] }, EndScript::default()] },
                    StreamSpec { side: 0, port: 1, pad: vec![], delay: 0, park: Some(2), cancel: None, ends: [EndScript { w: vec![WOp::Write(1)], r: vec![ROp::Read(8)] }, EndScript::default()] },
                ],
                dg_readers: [reader, DgReader::None],
                raw: Some(RawPolicy { reject_first: 0, ack_connects: Some(64), ack_every: Some(1), answer_close: true, no_ack_streams: vec![] }),
                events,
                ..Case::default()
            }
        },
        |case| {
            let run = run_case(case);
            if !run.quiescent {
                return Outcome::inconclusive("step bound");
            }
            let a = Analysis::new(case, &run);
            let invalid_after = case.events.iter().any(|e| matches!(&e.what, What::Inject { msg: RawMsg::Bytes(_), .. }));
            let n_dg = case.events.iter().filter(|e| matches!(&e.what, What::Inject { msg: RawMsg::Datagram { .. }, .. })).count();
            let sent = |pred: &dyn Fn(&RFrame) -> bool| run.events.iter().any(|e| matches!(&e.ev, Ev::Sent { side: 0, msg: WMsg::Frame(f), .. } if pred(f)));
            macro_rules! v {
                ($sig:expr, $($arg:tt)*) => { return Outcome::violation($sig, format!("after {n_dg} Datagram frames in a row into a datagram buffer of {} that the application does not drain: {} | tail: {}", case.opts[0].dgram_buf, format!($($arg)*), a.ctx(14))) };
            }
            if a.streams[0].ends[0].total_read() != 3 {
                v!("c10-flood:bystander-data-not-delivered", "3 bytes pushed on the established stream afterwards, its reader got {}", a.streams[0].ends[0].total_read());
            }
            if !sent(&|f| matches!(f, RFrame::Reset { id } if *id == ID_UNKNOWN)) {
                v!("c10-flood:missing-reset", "a Push on an unknown flow was not answered with Reset");
            }
            if !sent(&|f| matches!(f, RFrame::Acknowledge { id, .. } if *id == ID_PROBE)) {
                v!("c10-flood:not-serving", "a new Connect was not acknowledged: the endpoint stopped serving");
            }
            if a.streams[1].open_ok_at.is_none() && !invalid_after {
                v!("c10-flood:local-open-stuck", "a local stream request did not complete ({:?})", a.streams[1].open_err);
            }
            let exit = run.events.iter().find_map(|e| if let Ev::TaskExit { side: 0, result } = &e.ev { Some(result.clone()) } else { None });
            match (invalid_after, exit) {
                (false, Some(r)) => v!("c10-task-exited", "the connection task ended with {r:?} although every frame was well-formed"),
                (true, None) => v!("c10-flood:invalid-message-not-noticed", "an invalid message after the burst did not end the connection"),
                (true, Some(Ok(()))) => v!("c10-invalid-message-not-an-error", "the connection ended without an error after an invalid message"),
                _ => {}
            }
            if invalid_after {
                let stuck = a.unfinished(|_| false);
                let stuck: Vec<String> = stuck.into_iter().filter(|n| !n.starts_with("dgread")).collect();
                if !stuck.is_empty() {
                    v!("c10-flood:pending-after-invalid", "operations still pending after the connection ended: {stuck:?}");
                }
            }
            Outcome::pass(true, vec!["datagram-flood"])
        },
    );
    // the peer's (valid) answer to a request whose local caller has given up meanwhile: a flow in the state "requested, nobody
    // waiting" - the endpoint must go on serving whatever the answer is
    ctx.enumerate(rep, "answer-to-abandoned-request", super::conn::CANCELLED_REQUEST_CASES, 6, super::conn::cancelled_request_case, super::conn::run_cancelled_request);
    ctx.prop(
        rep,
        "invalid-messages",
        t.pick(40_000, 600_000),
        100,
        || {
            let bytes = prop_oneof![
                2 => Just(vec![]),
                3 => prop::collection::vec(any::<u8>(), 1..5),
                3 => (prop::sample::select(vec![0x17u8, 0x87, 0xf0, 0x77, 0x78, 0x7f, 0x0f]), prop::collection::vec(any::<u8>(), 4..12)).prop_map(|(b, mut v)| { v.insert(0, b); v }),
                2 => (prop::sample::select(vec![0u8, 2, 4, 255]), any::<[u8; 4]>()).prop_map(|(t, id)| { let mut v = vec![0x75]; v.extend(id); v.push(t); v.extend([0, 1, 65]); v }),
                2 => (0u8..7, prop::collection::vec(any::<u8>(), 4..8)).prop_map(|(op, mut v)| { v.insert(0, 0x70 | op); v.truncate(5 + (op as usize % 3)); v }),
            ];
            (bytes, any::<bool>(), prop::bool::weighted(0.3), schedule(40), prop::bool::weighted(0.3)).prop_map(|(bytes, silent_peer, stalled_sink, schedule, full_accept_queue)| InvalidCase { bytes, silent_peer, text_as_binary: false, schedule, stalled_sink, full_accept_queue })
        },
        run_invalid,
    );
}
