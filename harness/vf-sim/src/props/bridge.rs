//! C13 – the stream-to-socket bridge (CopyBidirectional) against a scripted local side.
use super::gens::*;
use super::streams::sim_assumptions;
use crate::engine::*;
use crate::oracle::*;
use crate::run::*;
use crate::world::*;
use proptest::prelude::*;
use vf_common::{Ctx, Outcome, Report};
use vf_ref::frame::RFrame;

fn lr() -> impl Strategy<Value = LR> {
    prop_oneof![
        // 8192 = a full BufReader buffer, what a busy socket hands to the bridge on every fill_buf
        6 => prop::sample::select(vec![1u32, 2, 3, 7, 100, 3000, 8192, 8192, 16_384, 20_000]).prop_map(LR::Chunk),
        2 => (1u8..=3).prop_map(LR::PendingUntil),
    ]
}
fn read_script() -> impl Strategy<Value = Vec<LR>> {
    // an error is reported once; what the local side would say if it were polled again afterwards is part of the script
    let ending = prop_oneof![
        5 => Just(vec![LR::Eof]),
        1 => Just(vec![LR::Err]),
        1 => Just(vec![LR::Err, LR::Eof]),
        1 => Just(vec![LR::Err, LR::Err]),
        1 => Just(vec![LR::Err, LR::Chunk(3), LR::Eof]),
        2 => Just(vec![LR::PendingForever]),
    ];
    (prop::collection::vec(lr(), 0..8), ending).prop_map(|(mut v, end)| {
        v.extend(end);
        v
    })
}
fn write_script() -> impl Strategy<Value = Vec<LW>> {
    prop_oneof![
        3 => Just(vec![]),
        5 => prop::collection::vec(prop_oneof![5 => prop::sample::select(vec![1u32, 2, 5, 64]).prop_map(LW::AcceptUpTo), 2 => (1u8..=3).prop_map(LW::PendingUntil)], 0..8),
        2 => (prop::collection::vec(prop::sample::select(vec![1u32, 3, 64]).prop_map(LW::AcceptUpTo), 0..4), any::<bool>()).prop_map(|(mut v, again)| { v.push(LW::Err); if again { v.push(LW::Err); } v }),
    ]
}

pub fn c13_case() -> impl Strategy<Value = Case> {
    let sh = Shape { max_streams: 1, max_wops: 8, allow_empty: false, allow_drop: true, complete: false, small_windows: true, max_sched: 300 };
    (
        (opts(true), opts(true), cap(), cap()),
        0usize..2,       // opener side
        0u8..2,          // which end is bridged
        end_script(sh),  // the peer end's script
        read_script(),
        write_script(),
        prop_oneof![6 => Just(None), 1 => (1u8..3).prop_map(Some)],
        prop_oneof![6 => Just(LS::Ok), 1 => Just(LS::Err), 1 => (1u8..=3).prop_map(LS::PendingUntil)],
        schedule(300),
        (prop::collection::vec(0u8..3, 0..3), prop::bool::weighted(0.35), prop_oneof![5 => Just(None), 2 => (1u8..4, 1u8..=3).prop_map(Some)], prop::bool::weighted(0.4), prop_oneof![1 => Just(0u8), 3 => 0u8..12], prop_oneof![4 => Just(0u8), 1 => 1u8..4, 1 => Just(200u8)]),
    )
        .prop_map(|((o0, o1, c0, c1), side, bend, peer, read, write, flush_err_at, shutdown, schedule, (extra_parks, plain, flush_pending, vectored, err_kind, pre_read))| {
            let mut peer = peer;
            // the peer may start reading late (credit starvation for the bridge)
            for (k, p) in extra_parks.iter().enumerate() {
                if *p > 0 && k < peer.r.len() {
                    peer.r.insert(k, ROp::Park(*p));
                }
            }
            let mut ends = [EndScript::default(), EndScript::default()];
            ends[1 - bend as usize] = peer;
            let events = (1u8..=3).map(|n| RawEvent { when: Trigger::Quiescent, what: What::Wake(n) }).collect();
            Case {
                opts: [o0, o1],
                cap: [c0, c1],
                streams: vec![StreamSpec { side, port: 22, pad: vec![], delay: 0, park: None, cancel: None, ends }],
                bridges: vec![BridgeSpec { stream: 0, end: bend, read, write, flush_err_at, shutdown, plain, flush_pending, vectored, err_kind, pre_read }],
                events,
                schedule,
                ..Case::default()
            }
        })
}

pub fn run_c13(case: &Case) -> Outcome {
    let run = run_case(case);
    if !run.quiescent {
        return Outcome::inconclusive("step bound");
    }
    let a = Analysis::new(case, &run);
    macro_rules! viol {
        ($sig:expr, $($arg:tt)*) => {
            return Outcome::violation($sig, format!("{} | bridge {} | tail: {}", format!($($arg)*), { let mut d = format!("{:?}", case.bridges[0]); if d.len() > 400 { d.truncate(400); d.push_str(" ...") } d }, a.ctx(16)))
        };
    }
    let b = &case.bridges[0];
    let bend = b.end as usize;
    let pend = 1 - bend;
    let s = &a.streams[0];
    if s.open_ok_at.is_none() || s.accepted_at.is_none() {
        return Outcome::inconclusive("stream not established");
    }
    // relayed bytes intact in both directions, credit discipline on the wire
    if let Err((sig, msg)) = a.integrity().and_then(|_| a.credit().map(|_| ())) {
        viol!(format!("c13-{sig}"), "{msg}");
    }
    let done = run.app_events().find_map(|(i, e)| if let AppEv::BridgeDone { result, .. } = e { Some((i, result.clone())) } else { None });
    let local_err = run.app_events().find_map(|(_, e)| if let AppEv::LocalErr { op, .. } = e { Some(op.clone()) } else { None });
    let local_eof = run.app_events().any(|(_, e)| matches!(e, AppEv::LocalEof { .. }));
    let local_shutdown = run.app_events().any(|(_, e)| matches!(e, AppEv::LocalShutdown { .. }));
    let peer = &s.ends[pend];
    let me = &s.ends[bend];
    let id = s.flow_id.unwrap();
    let bside = side_of_end(&case.streams[0], bend);
    let peer_aborted = peer.dropped_at.is_some() && peer.shutdown_at.is_none();
    let peer_let_go = peer.dropped_at.is_some();
    // (6) an error of a local operation ends the bridge with that error, without further external events
    if let Some(op) = &local_err {
        match &done {
            None => viol!(format!("c13-error-not-propagated:{op}"), "the local {op} operation failed but the bridge future never completed (it is pending with no wake-up source)"),
            Some((_, Ok(c))) => viol!("c13-error-swallowed", "the local {op} operation failed but the bridge completed successfully with {c:?}"),
            Some((_, Err(_))) => {}
        }
    }
    // local EOF => Finish towards the peer (unless the flow was already closed) and the peer sees EOF after all bytes
    if local_eof && local_err.is_none() && !peer_let_go {
        let fin = run.events.iter().any(|e| matches!(&e.ev, Ev::Sent { side, msg: WMsg::Frame(RFrame::Finish { id: f }), .. } if *side == bside && *f == id));
        if !fin {
            viol!("c13-no-finish-on-local-eof", "the local side reached EOF but no Finish was sent on flow {id:08x}");
        }
    }
    // peer finished cleanly and everything it wrote was accepted locally => the local side is shut down
    if peer.shutdown_at.is_some() && local_err.is_none() && !peer_aborted {
        let w = peer.written_before(peer.shutdown_at.unwrap());
        let local_write_blocked = b.write.iter().any(|x| matches!(x, LW::PendingUntil(_))) && me.total_read() < w;
        if me.total_read() == w && !local_shutdown && !matches!(b.shutdown, LS::PendingUntil(_)) && !local_write_blocked {
            viol!("c13-no-local-shutdown", "the peer shut down after {w} bytes, all of them were written to the local side, but poll_shutdown was never called on it");
        }
        if me.total_read() < w && !local_write_blocked && done.is_none() && local_err.is_none() {
            viol!("c13-peer-data-not-relayed", "the peer wrote {w} bytes before its shutdown but only {} reached the local side although it accepts data", me.total_read());
        }
    }
    // half-close keeps the other direction flowing: after local EOF, later peer data still arrives locally (covered by the clause above);
    // after the peer's Finish, later local chunks still reach the peer:
    let total_local: usize = b.read.iter().map(|x| if let LR::Chunk(n) = x { (*n).max(1) as usize } else { 0 }).sum();
    let read_blocked_forever = b.read.iter().any(|x| matches!(x, LR::PendingForever));
    if local_eof && local_err.is_none() && !peer_let_go && done.as_ref().is_none_or(|d| d.1.is_ok()) {
        if me.total_written() != total_local {
            viol!("c13-local-data-not-relayed", "the local side produced {total_local} bytes before EOF, the bridge took {}", me.total_written());
        }
    }
    // liveness of local -> peer: at quiescence (all harness wake-ups fired) the bridge may leave ready local data untaken only if
    // it has no credit, the direction is closed, or it has ended; otherwise it is parked without a wake-up source
    {
        let ready_total: usize = b.read.iter().take_while(|x| !matches!(x, LR::PendingForever | LR::Eof | LR::Err)).map(|x| if let LR::Chunk(n) = x { (*n).max(1) as usize } else { 0 }).sum();
        let pushes = run.events.iter().filter(|e| matches!(&e.ev, Ev::Sent { side, msg: WMsg::Frame(RFrame::Push { id: p, .. }), .. } if *side == bside && *p == id)).count() as i64;
        let acked: i64 = run.events.iter().map(|e| if let Ev::Recv { side, msg: WMsg::Frame(RFrame::Acknowledge { id: p, n }) } = &e.ev { if *side == bside && *p == id && pushes > 0 { *n as i64 } else { 0 } } else { 0 }).sum();
        // the handshake Acknowledge (when the bridged side opened the stream) carries the window, not returned credit
        let handshake = if case.streams[0].side == bside { case.opts[1 - bside].rwnd as i64 } else { 0 };
        let window = case.opts[1 - bside].rwnd as i64;
        let credit = window - pushes + (acked - handshake).max(0);
        let reset_seen = run.events.iter().any(|e| matches!(&e.ev, Ev::Recv { side, msg: WMsg::Frame(RFrame::Reset { id: p }) } if *side == bside && *p == id));
        if a.healthy && done.is_none() && local_err.is_none() && !local_eof && !peer_let_go && !reset_seen && me.total_written() < ready_total && credit > 0 {
            viol!(
                "c13-ready-local-data-not-taken",
                "the local side has {} bytes ready that the bridge never took ({} of {ready_total} taken), the stream is open, {credit} units of send credit are available and the bridge future is pending with no wake-up source",
                ready_total - me.total_written(),
                me.total_written()
            );
        }
    }
    // liveness of peer -> local: at quiescence every byte of the peer that reached the bridged endpoint has been written to the
    // local side, unless the local side refuses data (pending / failed write), the bridge ended, or the flow was torn down
    {
        let arrived: usize = run.events.iter().map(|e| if let Ev::Recv { side, msg: WMsg::Frame(RFrame::Push { id: p, data }) } = &e.ev { if *side == bside && *p == id { data.len() } else { 0 } } else { 0 }).sum();
        let local_write_may_block = b.write.iter().any(|x| matches!(x, LW::PendingUntil(_) | LW::Err));
        let reset_any = run.events.iter().any(|e| matches!(&e.ev, Ev::Recv { msg: WMsg::Frame(RFrame::Reset { id: p }), .. } | Ev::Sent { msg: WMsg::Frame(RFrame::Reset { id: p }), .. } if *p == id));
        if a.healthy && done.is_none() && local_err.is_none() && !local_write_may_block && !reset_any && !peer_let_go && me.total_read() < arrived {
            viol!(
                "c13-peer-data-stuck-in-bridge",
                "{arrived} bytes of the peer reached the bridged endpoint but only {} were written to the local side, which accepts data; the bridge future is pending and nothing will flush the rest",
                me.total_read()
            );
        }
    }
    // a buffering local side: what the bridge wrote to it is only out once a flush (or the shutdown) has completed. The bridge flushes
    // the local writer whenever a poll finds the local read pending at its first attempt; so if the last thing that happened on the
    // local side is such a poll and bytes are still unflushed, nothing will ever flush them (no wake-up source is left at quiescence)
    if done.is_none() && local_err.is_none() {
        let last = run.app_events().filter_map(|(_, e)| if let AppEv::Note(n) = e { n.strip_prefix("lstate ").map(str::to_string) } else { None }).last();
        if let Some(l) = last {
            if l.contains("after=read-pending") && l.contains("first-of-poll=1") {
                viol!("c13-local-writes-not-flushed", "bytes the bridge wrote to the local side are still held back by it ({l}): the last poll of the bridge found the local read pending at its first attempt and went to sleep without a completed flush of the local writer, and nothing is left to wake it");
            }
        }
    }
    // bytes the application read from the stream by hand before it handed the stream to the bridge: not relayed by the bridge
    let pre = run.app_events().find_map(|(_, e)| if let AppEv::Note(n) = e { n.strip_prefix("pre-read ").and_then(|x| x.parse::<usize>().ok()) } else { None }).unwrap_or(0);
    // (5) both directions ended => the future returns the two true byte counts
    let both_ended = local_eof && peer.shutdown_at.is_some() && local_shutdown && local_err.is_none() && !peer_let_go && me.total_read() == peer.total_written();
    if both_ended {
        match &done {
            None => viol!("c13-not-completed", "both directions have ended (local EOF, peer Finish, local shutdown done) but the bridge future is still pending"),
            Some((_, Err(e))) => viol!("c13-spurious-error", "both directions ended cleanly but the bridge returned {e}"),
            Some((_, Ok((r, w)))) => {
                if *r + pre != me.total_read() || *w != me.total_written() {
                    viol!("c13-wrong-counts", "bridge returned ({r}, {w}); {} bytes went from the stream to the local side and {} from the local side to the stream", me.total_read() - pre, me.total_written());
                }
            }
        }
    }
    if let Some((_, Ok((r, w)))) = &done {
        if *r + pre != me.total_read() || *w != me.total_written() {
            viol!("c13-wrong-counts", "bridge returned ({r}, {w}); true counts are ({}, {})", me.total_read() - pre, me.total_written());
        }
        if !(local_eof || peer_let_go) {
            viol!("c13-completed-early", "the bridge completed successfully although the local side never reached EOF");
        }
    }
    // peer abort => the bridge ends with an error (BrokenPipe) once it tries to write, or completes; it must not swallow local errors (above)
    let mut cl: Vec<&'static str> = vec![];
    let has_pending = b.read.iter().any(|x| matches!(x, LR::PendingUntil(_) | LR::PendingForever)) || b.write.iter().any(|x| matches!(x, LW::PendingUntil(_)));
    let partial = b.write.iter().any(|x| matches!(x, LW::AcceptUpTo(n) if *n < 64));
    let starved = me.blocked || run.app_events().any(|(_, e)| matches!(e, AppEv::Note(n) if n.starts_with("wake")));
    if has_pending && partial {
        cl.push("pending-and-partial-writes");
    }
    if local_err.is_some() {
        cl.push("local-error");
    }
    if peer_aborted {
        cl.push("peer-abort");
    }
    if both_ended {
        cl.push("clean-completion");
    }
    if read_blocked_forever {
        cl.push("local-read-never-ready");
    }
    let _ = starved;
    Outcome::pass((has_pending && partial) || local_err.is_some() || peer_aborted, cl)
}

/// directed family: a local side with 1 MiB, 16 MiB or 64 MiB + 64 KiB ready in buffer-sized chunks without a Pending point, then
/// EOF; both constructors; a peer that only reads (nothing it does wakes the bridge again) or that also writes and half-closes
pub const BURST: [usize; 3] = [(1 << 20) + 8192, 16 << 20, (64 << 20) + (64 << 10)];
pub const BURST_CASES: u64 = 12;
pub fn burst_case(i: u64) -> Case {
    let total = BURST[(i % 3) as usize];
    let plain = (i / 3) % 2 == 1;
    let quiet_peer = i / 6 == 0;
    let mut read = vec![LR::Chunk(8192); total / 8192];
    read.push(LR::Eof);
    let mut ends = [EndScript::default(), EndScript::default()];
    ends[1] = EndScript { w: if quiet_peer { vec![] } else { vec![WOp::Write(5), WOp::Shutdown] }, r: vec![ROp::ToEof(1 << 20)] };
    Case {
        opts: [OptsSpec { rwnd: 8, thr: 4, ..OptsSpec::default() }, OptsSpec { rwnd: 8, thr: 2, ..OptsSpec::default() }],
        streams: vec![StreamSpec { side: 0, port: 22, pad: vec![], delay: 0, park: None, cancel: None, ends }],
        bridges: vec![BridgeSpec { stream: 0, end: 0, read, write: vec![], flush_err_at: None, shutdown: LS::Ok, plain, flush_pending: None, vectored: false, err_kind: 0, pre_read: 0 }],
        events: (1u8..=3).map(|n| RawEvent { when: Trigger::Quiescent, what: What::Wake(n) }).collect(),
        step_bound: 2_000_000,
        ..Case::default()
    }
}

pub fn c13(ctx: &Ctx, rep: &mut Report) {
    rep.rule = "MuxStream::into_copy_bidirectional_with_buf (and, in a third of the cases, the default into_copy_bidirectional) over a scripted local AsyncBufRead+AsyncWrite: read half = chunks (1..20000 bytes; a directed family with 1 MiB / 16 MiB / 64 MiB ready at once), Pending until a harness event, Pending for ever, EOF or error at any position; write half = partial accepts, Pending points, error; flush/shutdown errors or delays; the local side counts as BUFFERING (what the bridge wrote is only out once a flush or the shutdown has completed: a poll of the bridge that finds the local read pending at its first attempt must not go to sleep on unflushed bytes); every scripted failure carries one of 12 generated io::ErrorKinds (NotConnected, ConnectionReset, BrokenPipe, TimedOut, ...); in a third of the cases the application first reads from the stream by hand (one poll_read of 1-3 or 200 bytes, typically the beginning of a frame) and converts it into the bridge afterwards; \
                the peer end is a real application (data, shutdown, drop, late reader = credit starvation) on a second real endpoint, with generated options, link back-pressure and schedule. Oracle: content function in both directions (exactly the bytes, in order), C03 window rule for the bridge's Push frames, Finish on local EOF, local shutdown after the peer's Finish, \
                true byte counts on completion, and after any failed local operation the future must be complete at quiescence with an error. Non-trivial = the script has a Pending point and a partial write, or an error, or a peer abort. Distinct = distinct case value."
        .into();
    rep.assumptions = sim_assumptions();
    ctx.prop(rep, "bridge", ctx.tier.pick(60_000, 2_000_000), 300, || super::gens::with_keepalive(c13_case()), run_c13);
    // a local side that has a very large amount of data ready without a single Pending point (a fast producer): 1 MiB, 16 MiB and
    // 64 MiB + 64 KiB in buffer-sized chunks, then EOF; both constructors; the peer reads to end-of-stream and half-closes
    ctx.enumerate(rep, "large-ready-burst", BURST_CASES, 2, burst_case,
        |case| {
            let mut o = run_c13(case);
            o.classes.push("large-ready-burst");
            o.nontrivial = true;
            o
        },
    );
}
