//! C07 opening streams, C06 abort / flow-id release, C15 bind requests, C11 datagrams.
use super::gens::*;
use super::streams::sim_assumptions;
use crate::engine::*;
use crate::oracle::*;
use crate::run::*;
use crate::world::*;
use proptest::prelude::*;
use std::collections::{BTreeMap, BTreeSet};
use vf_common::{Ctx, Outcome, Report};
use vf_ref::frame::RFrame;

fn inconclusive(run: &RunResult) -> Outcome {
    Outcome::inconclusive(format!("step bound reached; last events: {}", run.tail(12)))
}

macro_rules! viol {
    ($a:expr, $sig:expr, $($arg:tt)*) => {
        return Outcome::violation($sig, format!("{} | tail: {}", format!($($arg)*), $a.ctx(16)))
    };
}

// =================================================================== C07

/// wire facts about one opener's Connect attempts
fn connect_attempts(a: &Analysis<'_>, i: usize) -> (Vec<u32>, usize) {
    let ids: Vec<u32> = a.streams[i].connects.iter().map(|c| c.1).collect();
    let side = a.case.streams[i].side;
    // Resets received by the opener for those ids after the corresponding connect
    let mut resets = 0;
    for (k, (cidx, id)) in a.streams[i].connects.iter().enumerate() {
        let end = a.streams[i].connects.get(k + 1).map(|c| c.0).unwrap_or(a.run.events.len());
        if a.run.events[*cidx..end].iter().any(|e| matches!(&e.ev, Ev::Recv { side: s, msg: WMsg::Frame(RFrame::Reset { id: r }) } if *s == side && r == id)) {
            resets += 1;
        }
    }
    (ids, resets)
}

pub fn run_c07(case: &Case) -> Outcome {
    let run = run_case(case);
    if !run.quiescent {
        return inconclusive(&run);
    }
    let a = Analysis::new(case, &run);
    if a.conn_end_at.is_some() {
        viol!(a, "c07-connection-ended", "the connection ended during stream opening");
    }
    if let Err((sig, msg)) = a.integrity().and_then(|_| a.credit().map(|_| ())).and_then(|_| a.end_of_stream()) {
        viol!(a, sig, "{msg}");
    }
    let raw = case.raw.is_some();
    let mut forced = false;
    let mut concurrent = 0;
    // accepted streams per tag
    let mut accepted: BTreeMap<usize, Vec<(Vec<u8>, u16)>> = BTreeMap::new();
    let mut unknown_accepts = 0;
    for (_, e) in run.app_events() {
        if let AppEv::Accepted { stream, host, port, .. } = e {
            match stream {
                Some(i) => accepted.entry(*i).or_default().push((host.clone(), *port)),
                None => unknown_accepts += 1,
            }
        }
    }
    for (i, s) in a.streams.iter().enumerate() {
        let spec = &case.streams[i];
        if raw && spec.side == 1 {
            continue;
        }
        let retries = case.opts[spec.side].retries;
        let (ids, resets) = connect_attempts(&a, i);
        // never id 0
        if ids.contains(&0) {
            viol!(a, "c07-connect-id-zero", "stream {i}: side {} proposed flow id 0", spec.side);
        }
        if ids.len() > retries {
            viol!(a, "c07-too-many-attempts", "stream {i}: {} Connect frames sent with max_flow_id_retries = {retries}", ids.len());
        }
        if ids.len() > 1 || resets > 0 {
            forced = true;
        }
        let acc = accepted.get(&i).cloned().unwrap_or_default();
        if s.open_ok_at.is_some() {
            if !raw {
                if acc.len() != 1 {
                    viol!(a, "c07-accept-count", "stream {i}: one successful request but {} streams were accepted for it", acc.len());
                }
                let want = (tag_host(i, &spec.pad), spec.port);
                if acc[0] != want {
                    viol!(a, "c07-target-mismatch", "stream {i}: requested {:?}:{} but the accepting application sees {:?}:{}", want.0, want.1, acc[0].0, acc[0].1);
                }
            }
            if resets != ids.len() - 1 {
                viol!(a, "c07-retry-accounting", "stream {i}: established after {} Connects but {} of them were rejected", ids.len(), resets);
            }
        } else if let Some(err) = &s.open_err {
            if err != "FlowIdRejected" {
                viol!(a, "c07-wrong-open-error", "stream {i}: open failed with {err} on a healthy connection");
            }
            if ids.len() != retries || resets != retries {
                viol!(a, "c07-gave-up-early", "stream {i}: FlowIdRejected after {} Connects / {} rejections, max_flow_id_retries = {retries}", ids.len(), resets);
            }
            if !raw && !acc.is_empty() {
                viol!(a, "c07-half-established", "stream {i}: the request failed but the peer application accepted {} stream(s) for it", acc.len());
            }
        } else {
            viol!(a, "c07-open-stuck", "stream {i}: the request neither succeeded nor failed at quiescence (blocked: {:?})", run.blocked_tasks());
        }
        if s.connects.len() > 0 {
            // another open in flight at the same time?
            let (c0, end) = (s.connects[0].0, s.open_ok_at.unwrap_or(run.events.len()));
            for (j, t) in a.streams.iter().enumerate() {
                if j != i && t.connects.first().is_some_and(|c| c.0 < end && t.open_ok_at.unwrap_or(run.events.len()) > c0) {
                    concurrent += 1;
                }
            }
        }
    }
    // wire: a Connect never carries an id the sender currently uses for a stream both applications hold
    for (idx, st) in run.events.iter().enumerate() {
        if let Ev::Sent { side, msg: WMsg::Frame(RFrame::Connect { id, .. }), .. } = &st.ev {
            if raw && *side == 1 {
                continue;
            }
            for (j, t) in a.streams.iter().enumerate() {
                let est = t.open_ok_at.max(t.accepted_at);
                if t.flow_id == Some(*id) && est.is_some_and(|e| e < idx) && t.ends.iter().all(|e| e.dropped_at.is_none_or(|d| d > idx)) && t.connects.last().is_some_and(|c| c.0 < idx) {
                    // was it reset in between?
                    let reset = run.events[..idx].iter().any(|e| matches!(&e.ev, Ev::Sent { msg: WMsg::Frame(RFrame::Reset { id: r }), .. } if r == id));
                    if !reset {
                        viol!(a, "c07-connect-id-in-use", "side {side} proposed flow id {id:08x} while it uses that id for live stream {j}");
                    }
                }
            }
        }
    }
    // a Connect with id 0 or a live id (from a raw peer or a colliding real peer) is answered with Reset
    for (idx, st) in run.events.iter().enumerate() {
        if let Ev::Recv { side, msg: WMsg::Frame(RFrame::Connect { id, .. }) } = &st.ev {
            if raw && *side == 1 {
                continue;
            }
            if *id == 0 {
                let answered = run.events[idx..].iter().any(|e| matches!(&e.ev, Ev::Sent { side: s, msg: WMsg::Frame(RFrame::Reset { id: 0 }), .. } if s == side));
                let acked = run.events[idx..].iter().any(|e| matches!(&e.ev, Ev::Sent { side: s, msg: WMsg::Frame(RFrame::Acknowledge { id: 0, .. }), .. } if s == side));
                if !answered || acked {
                    viol!(a, "c07-zero-id-accepted", "side {side} received Connect with flow id 0 and did not reject it with Reset");
                }
                forced = true;
            }
        }
    }
    if unknown_accepts > 0 && !raw {
        viol!(a, "c07-unknown-accept", "{unknown_accepts} streams accepted that nobody requested");
    }
    // pending bind requests are flows in use: a colliding Connect of the peer must leave them undisturbed
    let mut bind_collision = false;
    for (k, b) in case.binds.iter().enumerate() {
        let sent = run.events.iter().enumerate().find_map(|(i, e)| if let Ev::Sent { side, msg: WMsg::Frame(RFrame::Bind { id, host, .. }), .. } = &e.ev { if *side == b.side && parse_bind_tag(host) == Some(k) { Some((i, *id)) } else { None } } else { None });
        let Some((sent_at, id)) = sent else { continue };
        let answer = run.app_events().find_map(|(_, e)| if let AppEv::BindSeen { host, answer, .. } = e { if parse_bind_tag(host) == Some(k) { Some(answer.clone()) } else { None } } else { None });
        let resolved = run.events.iter().enumerate().find_map(|(i, e)| if let Ev::App(AppEv::BindResolved { idx, result, .. }) = &e.ev { if *idx == k { Some((i, result.clone())) } else { None } } else { None });
        let until = resolved.as_ref().map(|r| r.0).unwrap_or(run.events.len());
        let hit = run.events[sent_at..until].iter().any(|e| matches!(&e.ev, Ev::Recv { side, msg: WMsg::Frame(RFrame::Connect { id: c, .. }) } if *side == b.side && *c == id));
        bind_collision |= hit;
        match (&resolved, answer.as_deref()) {
            (Some((_, Err(e))), _) => viol!(a, "c07-pending-bind-disturbed", "bind request {k} (flow {id:08x}) failed with {e} on a live connection{}", if hit { " after the peer proposed its flow id in a Connect" } else { "" }),
            (Some((_, Ok(false))), Some("Accept" | "Hold")) | (Some((_, Ok(false))), None) => viol!(a, "c07-pending-bind-disturbed", "bind request {k} (flow {id:08x}) resolved false although the peer application's decision was {answer:?}{}", if hit { "; the peer proposed its flow id in a Connect meanwhile" } else { "" }),
            (Some((_, Ok(true))), ans) if ans != Some("Accept") => viol!(a, "c07-pending-bind-disturbed", "bind request {k} (flow {id:08x}) resolved true although the peer application's decision was {ans:?}"),
            (None, Some("Accept" | "Reject")) => viol!(a, "c07-pending-bind-disturbed", "bind request {k} (flow {id:08x}) never resolved although the peer application answered {answer:?}"),
            _ => {}
        }
    }
    if bind_collision {
        forced = true;
    }
    let mut cl = vec![];
    if bind_collision {
        cl.push("connect-on-id-of-pending-bind");
    }
    if forced {
        cl.push("forced-collision-or-rejection");
    }
    if concurrent > 0 {
        cl.push("concurrent-opens");
    }
    if raw {
        cl.push("raw-peer");
    }
    Outcome::pass(forced || concurrent > 0, cl)
}

fn small_ids() -> impl Strategy<Value = Vec<u32>> {
    prop::collection::vec(prop_oneof![6 => 0u32..4, 1 => Just(0u32), 1 => any::<u32>()], 0..10)
}

fn c07_real() -> impl Strategy<Value = Case> {
    let sh = Shape { max_streams: 5, max_wops: 3, allow_empty: false, allow_drop: false, complete: true, small_windows: true, max_sched: 300 };
    // 0-2 bind requests share the id scripts: a pending bind request is a flow in use, so a peer Connect on its id must be
    // rejected without disturbing it
    let binds = prop::collection::vec((0usize..2, any::<bool>(), 0u8..3), 0..=2);
    let answer = prop_oneof![2 => Just(BindAnswer::Hold), 2 => Just(BindAnswer::Accept), 1 => Just(BindAnswer::Reject)];
    (opts(true), opts(true), 1usize..=4, 1usize..=4, small_ids(), small_ids(), prop::collection::vec((stream_spec(sh), prop::collection::vec(any::<u8>(), 0..300)), 1..=5), (schedule(300), binds, prop::collection::vec(answer, 2))).prop_map(
        |(mut o0, mut o1, r0, r1, ids0, ids1, streams, (schedule, binds, answers))| {
            o0.retries = r0;
            o1.retries = r1;
            o0.bind_buf = 4;
            o1.bind_buf = 4;
            let binds: Vec<BindSpec> = binds.into_iter().map(|(side, dgram, delay)| BindSpec { side, dgram, host: b"h".to_vec(), port: 7, delay }).collect();
            let bp = BindPolicy { answers, batch: 1, order: vec![], enabled: true, ping_first: false };
            let streams = streams
                .into_iter()
                .map(|(mut s, pad)| {
                    if pad.len() % 3 == 0 {
                        s.pad = pad; // long arbitrary hosts
                    }
                    s.delay %= 2;
                    s
                })
                .collect();
            Case { opts: [o0, o1], rng: [ids0, ids1], streams, schedule, binds, bind_policy: [bp.clone(), bp], ..Case::default() }
        },
    )
}

/// Streams whose target host is an entry of `vf_common::host_dictionary()` as it stands (see `VERBATIM_MARK`).
pub fn meaningful_host_case(i: u64) -> Case {
    let dict = vf_common::host_dictionary();
    let k = (i as usize) % dict.len();
    let side = (i as usize / dict.len()) % 2;
    let k2 = (k + 37) % dict.len();
    let mk = |side: usize, port: u16, host: &[u8]| StreamSpec {
        side,
        port,
        pad: [VERBATIM_MARK, host].concat(),
        delay: 0,
        park: None,
        cancel: None,
        ends: [EndScript { w: vec![WOp::Write(5), WOp::Shutdown], r: vec![ROp::ToEof(64)] }, EndScript { w: vec![WOp::Write(3), WOp::Shutdown], r: vec![ROp::ToEof(64)] }],
    };
    let mut streams = vec![mk(side, 443, &dict[k])];
    if dict[k2] != dict[k] {
        streams.push(mk(1 - side, 80, &dict[k2]));
    }
    streams.push(StreamSpec { side, port: 8080, pad: dict[k].clone(), delay: 0, park: None, cancel: None, ends: [EndScript { w: vec![WOp::Write(2), WOp::Shutdown], r: vec![ROp::ToEof(64)] }, EndScript { w: vec![WOp::Shutdown], r: vec![ROp::ToEof(64)] }] });
    Case { streams, ..Case::default() }
}

/// initial credit equals the window the other side advertised: nobody reads, both ends write window+3 frames
pub fn run_c07_credit(case: &Case) -> Outcome {
    let run = run_case(case);
    if !run.quiescent {
        return inconclusive(&run);
    }
    let a = Analysis::new(case, &run);
    for (i, s) in a.streams.iter().enumerate() {
        if s.open_ok_at.is_none() {
            viol!(a, "c07-open-failed", "stream {i} not established: {:?}", s.open_err);
        }
        for end in 0..2 {
            let peer_side = side_of_end(&case.streams[i], 1 - end);
            let want = case.opts[peer_side].rwnd as usize;
            let got = s.ends[end].nonempty_writes;
            if got != want {
                viol!(a, "c07-initial-credit", "stream {i} end {end}: {got} writes completed against a non-reading peer that advertised a window of {want}");
            }
        }
    }
    Outcome::pass(case.opts[0].rwnd != case.opts[1].rwnd, vec!["initial-credit"])
}

fn c07_raw() -> impl Strategy<Value = Case> {
    // one real endpoint A; raw peer rejects the first k Connects, then acknowledges; also sends Connects with id 0 / live ids
    (opts(true), 1usize..=4, 0u8..=5, small_ids(), prop::collection::vec(prop_oneof![Just(0u32), 1u32..4, any::<u32>()], 0..4), schedule(100)).prop_map(|(mut o0, retries, k, ids, inj, schedule)| {
        o0.retries = retries;
        let streams = vec![StreamSpec {
            side: 0,
            port: 443,
            pad: b"example".to_vec(),
            delay: 0,
            park: None, cancel: None,
            ends: [EndScript { w: vec![WOp::Write(3)], r: vec![] }, EndScript::default()],
        }];
        let events = inj
            .into_iter()
            .enumerate()
            .map(|(n, id)| RawEvent { when: Trigger::FromStep(4 + 3 * n as u32), what: What::Inject { from: 1, msg: RawMsg::Connect { id, rwnd: 2, port: 1, host: b"x".to_vec() } } })
            .collect();
        Case {
            opts: [o0, OptsSpec::default()],
            rng: [ids, vec![]],
            streams,
            raw: Some(RawPolicy { reject_first: k, ack_connects: Some(3), ack_every: Some(1), answer_close: true, no_ack_streams: vec![] }),
            events,
            schedule,
            ..Case::default()
        }
    })
}

pub fn run_c07_raw(case: &Case) -> Outcome {
    let o = run_c07(case);
    if !matches!(o.verdict, vf_common::Verdict::Pass) {
        return o;
    }
    // exact retry arithmetic
    let run = run_case(case);
    let a = Analysis::new(case, &run);
    let k = case.raw.as_ref().unwrap().reject_first as usize;
    let retries = case.opts[0].retries;
    // Connects injected by the raw peer do not count: only A's
    let sent = a.streams[0].connects.len();
    let want = (k + 1).min(retries);
    if sent != want {
        viol!(a, "c07-retry-count", "peer rejected the first {k} Connects, max_flow_id_retries = {retries}: expected {want} Connect frames, saw {sent}");
    }
    let ok = a.streams[0].open_ok_at.is_some();
    if ok != (k < retries) {
        viol!(a, "c07-retry-result", "peer rejected the first {k} Connects, max_flow_id_retries = {retries}: request {}", if ok { "succeeded" } else { "failed" });
    }
    // every injected Connect on id 0 or on A's live id must be reset; others acknowledged with A's window
    for (idx, st) in run.events.iter().enumerate() {
        if let Ev::Recv { side: 0, msg: WMsg::Frame(RFrame::Connect { id, .. }) } = &st.ev {
            let live_before: BTreeSet<u32> = a.streams[0].connects.iter().filter(|c| c.0 < idx).map(|c| c.1).collect();
            let reply = run.events[idx..].iter().find_map(|e| match &e.ev {
                Ev::Sent { side: 0, msg: WMsg::Frame(RFrame::Reset { id: r }), .. } if r == id => Some("reset"),
                Ev::Sent { side: 0, msg: WMsg::Frame(RFrame::Acknowledge { id: r, .. }), .. } if r == id => Some("ack"),
                _ => None,
            });
            if *id == 0 && reply != Some("reset") {
                viol!(a, "c07-zero-id-accepted", "Connect with id 0 answered with {reply:?}");
            }
            let _ = live_before;
        }
    }
    let mut o = o;
    o.nontrivial = true;
    o.classes.push(if k >= retries { "all-attempts-rejected" } else if k > 0 { "some-attempts-rejected" } else { "no-rejection" });
    o
}


/// A request whose caller gave up (future dropped, as a caller with a timeout does) after its Connect / Bind went out: the id is
/// still in use until the peer has answered - a peer Connect on it must be refused -, the peer's answer (a perfectly valid
/// Acknowledge / Finish / Reset) must not disturb anything else, and the id is free again afterwards.
pub const CANCELLED_REQUEST_CASES: u64 = 2 * 3 * 2;
pub fn cancelled_request_case(i: u64) -> Case {
            let bind = i % 2 == 1;
            let answer = (i / 2) % 3; // the peer's late answer to the abandoned request: 0 Acknowledge/Finish (accept), 1 Reset, 2 none
            let late_open = (i / 6) % 2 == 1;
            let id = 0x21u32;
            let mut events = vec![RawEvent { when: Trigger::Quiescent, what: What::Wake(5) }];
            let inject = |events: &mut Vec<RawEvent>, msg: RawMsg| events.push(RawEvent { when: Trigger::Quiescent, what: What::Inject { from: 1, msg } });
            // the collision: the peer proposes the id of the abandoned request
            inject(&mut events, RawMsg::Connect { id, rwnd: 4, port: 9, host: b"evil".to_vec() });
            match (answer, bind) {
                (0, false) => inject(&mut events, RawMsg::Ack { id, n: 4 }),
                (0, true) => inject(&mut events, RawMsg::Finish { id }),
                (1, _) => inject(&mut events, RawMsg::Reset { id }),
                _ => {}
            }
            if answer != 2 {
                // once the peer has answered, nobody holds the id any more
                inject(&mut events, RawMsg::Connect { id, rwnd: 4, port: 9, host: b"probe".to_vec() });
            }
            if late_open {
                events.push(RawEvent { when: Trigger::Quiescent, what: What::Wake(2) });
            }
            let mut streams = vec![];
            let mut binds = vec![];
            if bind {
                binds.push(BindSpec { side: 0, dgram: false, host: b"x".to_vec(), port: 3, delay: 0 });
            } else {
                streams.push(StreamSpec { side: 0, port: 1, pad: vec![], delay: 0, park: None, cancel: Some(5), ends: [EndScript::default(), EndScript::default()] });
            }
            // a later local request (fresh id from the seeded generator) must still work
            streams.push(StreamSpec { side: 0, port: 1, pad: vec![], delay: 0, park: Some(2), cancel: None, ends: [EndScript { w: vec![WOp::Write(1)], r: vec![] }, EndScript::default()] });
            Case {
                opts: [OptsSpec { retries: 1, ..OptsSpec::default() }, OptsSpec::default()],
                rng: [vec![id], vec![]],
                streams,
                binds,
                bind_cancel: if bind { Some(5) } else { None },
                raw: Some(RawPolicy { reject_first: 0, ack_connects: Some(4), ack_every: Some(1), answer_close: true, no_ack_streams: if bind { vec![] } else { vec![0] } }),
                events,
                ..Case::default()
            }
        }

pub fn run_cancelled_request(case: &Case) -> Outcome {
            let run = run_case(case);
            if !run.quiescent {
                return inconclusive(&run);
            }
            let a = Analysis::new(case, &run);
            let id = 0x21u32;
            let bind = !case.binds.is_empty();
            // the abandoned request must have used the scripted id
            let used = run.events.iter().any(|e| matches!(&e.ev, Ev::Sent { side: 0, msg: WMsg::Frame(RFrame::Connect { id: i, .. } | RFrame::Bind { id: i, .. }), .. } if *i == id));
            if !used {
                return Outcome::inconclusive("harness: the request did not go out with the scripted id");
            }
            let connects: Vec<usize> = run.events.iter().enumerate().filter(|(_, e)| matches!(&e.ev, Ev::Recv { side: 0, msg: WMsg::Frame(RFrame::Connect { id: i, .. }) } if *i == id)).map(|x| x.0).collect();
            let answer_to = |p: usize, until: usize| {
                run.events[p..until].iter().find_map(|e| match &e.ev {
                    Ev::Sent { side: 0, msg: WMsg::Frame(RFrame::Reset { id: r }), .. } if *r == id => Some("reset"),
                    Ev::Sent { side: 0, msg: WMsg::Frame(RFrame::Acknowledge { id: r, .. }), .. } if *r == id => Some("ack"),
                    _ => None,
                })
            };
            let what = if bind { "bind request" } else { "stream request" };
            let Some(&c0) = connects.first() else { return Outcome::inconclusive("collision Connect not delivered") };
            let next = connects.get(1).copied().unwrap_or(run.events.len());
            match answer_to(c0, next) {
                Some("reset") => {}
                other => viol!(a, format!("c07-abandoned-request-id-taken:{}", if bind { "bind" } else { "stream" }), "the caller of a {what} on flow {id:08x} gave up before the peer answered; the request is still outstanding on the wire, yet a peer Connect on that id was answered with {other:?} instead of Reset"),
            }
            let accepted_evil = run.app_events().any(|(_, e)| matches!(e, AppEv::Accepted { host, .. } if host == b"evil"));
            if accepted_evil {
                viol!(a, "c07-abandoned-request-id-taken:accepted", "a stream was handed to the accepting application for a Connect on the id of an outstanding {what}");
            }
            if let Some(&c1) = connects.get(1) {
                if answer_to(c1, run.events.len()) != Some("ack") {
                    viol!(a, format!("c07-abandoned-request-slot-leak:{}", if bind { "bind" } else { "stream" }), "the peer answered the abandoned {what} on flow {id:08x}; afterwards nobody holds the id, but a new Connect on it was not acknowledged");
                }
            }
            // the later local request works
            let late = a.streams.len() - 1;
            if case.streams[late].park.is_some() && case.events.iter().any(|e| matches!(e.what, What::Wake(2))) && a.streams[late].open_ok_at.is_none() {
                viol!(a, "c07-open-stuck", "a later stream request did not complete: {:?}", a.streams[late].open_err);
            }
            if run.events.iter().any(|e| matches!(&e.ev, Ev::TaskExit { side: 0, .. })) {
                viol!(a, "c07-connection-ended", "the connection task ended");
            }
            Outcome::pass(true, vec![if bind { "cancelled-bind-request" } else { "cancelled-stream-request" }])
        }

pub fn c07(ctx: &Ctx, rep: &mut Report) {
    rep.rule = "concurrent opens from both sides with arbitrary host bytes (0..300) and ports (and a directed family in which every entry of a dictionary of 130 hosts that mean something to some layer - IP literals in every notation, bracketed IPv6 literals, names with ports, letter case, trailing dots, control characters - is requested verbatim from either side), max_flow_id_retries 1..4, scripted id sequences over {0,1,2,3} (collisions with live flows - established streams, pending stream requests and pending bind requests -, with the peer's simultaneous choice, id 0); \
                a raw peer that rejects the first k Connects and injects Connects with id 0 / live ids; a non-reading-peer family for the initial credit (all 64 pairs of windows 1..64, and windows 300/1000/4097/10000/65535/65536/65537/70000 advertised by the opener or by the acceptor). Oracle: one request = one accepted stream with exactly the requested host/port, \
                no Connect with id 0 or a live id, Reset for id 0 / in-use ids, exactly min(k+1,retries) attempts and FlowIdRejected iff k >= retries, initial credit == advertised window. \
                Non-trivial = a forced collision/rejection occurred or >= 2 opens were in flight at once. Distinct = distinct case value."
        .into();
    rep.assumptions = sim_assumptions();
    let t = ctx.tier;
    ctx.prop(rep, "real-peers", t.pick(40_000, 1_500_000), 300, || with_keepalive(c07_real()), run_c07);
    ctx.prop(rep, "raw-rejections", t.pick(20_000, 500_000), 300, || with_keepalive(c07_raw()), run_c07_raw);
    // target hosts that mean something to some layer, requested VERBATIM (no stream tag in front): every entry of the dictionary from
    // either side, together with a second such stream opened by the other side and an ordinary tagged one
    ctx.enumerate(rep, "meaningful-hosts", 2 * vf_common::host_dictionary().len() as u64, 64, meaningful_host_case, |c| {
        let mut o = run_c07(c);
        o.nontrivial = true;
        o.classes.push("meaningful-host-verbatim");
        o
    });
    // an accepting application that is busy while more streams are requested than its accept queue holds (stream_buffer_size):
    // every request that succeeds must still end up as exactly one accepted stream once the application gets to it
    ctx.prop(
        rep,
        "slow-acceptor",
        t.pick(6_000, 150_000),
        100,
        || {
            let sh = Shape { max_streams: 1, max_wops: 2, allow_empty: false, allow_drop: false, complete: true, small_windows: true, max_sched: 200 };
            (opts(true), opts(true), prop::sample::select(vec![1usize, 2, 3, 16]), prop::collection::vec((stream_spec(sh), 0usize..4), 2..=24), any::<bool>(), schedule(200)).prop_map(|(mut o0, mut o1, buf, streams, both, schedule)| {
                o0.stream_buf = buf;
                o1.stream_buf = buf;
                let streams: Vec<StreamSpec> = streams
                    .into_iter()
                    .map(|(mut s, k)| {
                        s.side = if both { k % 2 } else { 0 };
                        s.delay %= 3;
                        s
                    })
                    .collect();
                Case {
                    opts: [o0, o1],
                    streams,
                    acceptors: [AcceptPolicy::AfterWake(1), AcceptPolicy::AfterWake(1)],
                    events: vec![RawEvent { when: Trigger::Quiescent, what: What::Wake(1) }],
                    schedule,
                    ..Case::default()
                }
            })
        },
        |case| {
            let mut o = run_c07(case);
            let n = [0, 1].map(|sd| case.streams.iter().filter(|s| s.side == sd).count());
            if n[0].max(n[1]) > case.opts[0].stream_buf {
                o.nontrivial = true;
                o.classes.push("more-requests-than-the-accept-queue-holds");
            }
            o
        },
    );
    // a request whose caller gave up (future dropped, as a caller with a timeout does) after its Connect / Bind went out: the id
    // is still in use until the peer has answered - a peer Connect on it must be refused - and free again afterwards
    ctx.enumerate(rep, "cancelled-request", CANCELLED_REQUEST_CASES, 6, cancelled_request_case, run_cancelled_request);
    ctx.enumerate(
        rep,
        "initial-credit",
        64 * 2,
        20,
        |i| {
            let (wa, wb, side) = (WINDOWS[(i % 8) as usize], WINDOWS[((i / 8) % 8) as usize], (i / 64) as usize);
            let w = |n: u32| vec![WOp::Write(1); n as usize + 3];
            Case {
                opts: [OptsSpec { rwnd: wa, thr: 1, ..OptsSpec::default() }, OptsSpec { rwnd: wb, thr: 64, ..OptsSpec::default() }],
                streams: vec![StreamSpec { side, port: 1, pad: vec![], delay: 0, park: None, cancel: None, ends: [EndScript { w: w(wa.max(wb)), r: vec![] }, EndScript { w: w(wa.max(wb)), r: vec![] }] }],
                ..Case::default()
            }
        },
        run_c07_credit,
    );
    // windows at and above the 16-bit boundary (the window field is 32 bits wide): same oracle, one writing end
    const BIGW: [u32; 8] = [300, 1000, 4097, 10_000, 65_535, 65_536, 65_537, 70_000];
    ctx.enumerate(
        rep,
        "initial-credit-large-window",
        (BIGW.len() * 4) as u64,
        4,
        |i| {
            let (w, side, writer_end) = (BIGW[(i % 8) as usize], ((i / 8) % 2) as usize, (i / 16) as usize);
            // the end that does not write advertises w (in the Connect if it opened the stream, in the Acknowledge otherwise),
            // the writing end a small window; w + 3 one-byte writes, nobody reads
            let reader_side = if writer_end == 0 { 1 - side } else { side };
            let mut opts = [OptsSpec { rwnd: 2, thr: 1, ..OptsSpec::default() }, OptsSpec { rwnd: 2, thr: 1, ..OptsSpec::default() }];
            opts[reader_side] = OptsSpec { rwnd: w, thr: 64, ..OptsSpec::default() };
            let mut ends = [EndScript { w: vec![], r: vec![] }, EndScript { w: vec![], r: vec![] }];
            ends[writer_end].w = vec![WOp::Write(1); w as usize + 3];
            Case { opts, streams: vec![StreamSpec { side, port: 1, pad: vec![], delay: 0, park: None, cancel: None, ends }], step_bound: 2_000_000, ..Case::default() }
        },
        |case| {
            let run = run_case(case);
            if !run.quiescent {
                return inconclusive(&run);
            }
            let a = Analysis::new(case, &run);
            let s = &a.streams[0];
            if s.open_ok_at.is_none() {
                viol!(a, "c07-open-failed", "stream not established: {:?}", s.open_err);
            }
            let writer_end = if case.streams[0].ends[0].w.is_empty() { 1 } else { 0 };
            let peer_side = side_of_end(&case.streams[0], 1 - writer_end);
            let want = case.opts[peer_side].rwnd as usize;
            let got = s.ends[writer_end].nonempty_writes;
            if got != want {
                viol!(a, "c07-initial-credit", "end {writer_end}: {got} writes completed against a non-reading peer that advertised a window of {want}");
            }
            // and a window that was advertised must be honoured: no Reset for frames within it (C03), nothing lost (C02/C05)
            if let Err((sig, msg)) = a.integrity().and_then(|_| a.credit().map(|_| ())).and_then(|_| a.end_of_stream()) {
                viol!(a, sig, "{msg}");
            }
            Outcome::pass(true, vec!["initial-credit-large-window"])
        },
    );
}

// =================================================================== C06

#[derive(Clone, Debug, Hash, PartialEq, Eq, serde::Serialize, serde::Deserialize)]
pub struct CloseScript {
    /// ops of the opener end / acceptor end before letting go
    pub w: [Vec<WOp>; 2],
    pub r: [Vec<ROp>; 2],
    /// which half performs the final Drop (false: writer task, true: reader task) per end
    pub drop_by_reader: [bool; 2],
}

fn close_end(allow_block: bool) -> impl Strategy<Value = (Vec<WOp>, Vec<ROp>, bool)> {
    // (vectored writes take their own path to the credit and closed-flag checks)
    let w = prop::collection::vec(prop_oneof![4 => (1u32..4).prop_map(WOp::Write), 2 => (1u32..3, 0u32..3, 1u32..3).prop_map(|(a, b, c)| WOp::WriteV(vec![a, b, c])), 1 => Just(WOp::Yield), 1 => Just(WOp::Shutdown)], 0..=4);
    let r = prop::collection::vec(prop_oneof![3 => Just(ROp::Read(64)), 1 => Just(ROp::Fill(1)), 1 => Just(ROp::Yield), if allow_block { 2 } else { 0 } => Just(ROp::ToEof(64))], 0..4);
    (w, r, any::<bool>())
}

/// rounds of open/close cycles over a tiny id set, separated by quiescence; bystanders on ids >= 100
fn c06_case() -> impl Strategy<Value = Case> {
    let round = prop::collection::vec((0usize..2, close_end(false), close_end(false)), 1..=3);
    (opts(false), opts(false), cap(), cap(), prop::collection::vec(round, 2..=8), 0usize..=2, schedule(400), any::<u64>()).prop_map(|(mut o0, mut o1, c0, c1, rounds, nby, schedule, seed)| {
        // at most 4 writes per end and windows >= 4: no end of a cycle stream can block on credit for ever
        // (a writer whose peer finished-and-dropped is never told; that is C04's "absent reader delays only itself")
        o0.rwnd = o0.rwnd.max(4);
        o1.rwnd = o1.rwnd.max(4);
        let mut streams = vec![];
        let mut events = vec![];
        let mut ids: [Vec<u32>; 2] = [vec![], vec![]];
        // bystanders: opened at once, exchange a chunk per round, never dropped
        let nrounds = rounds.len();
        for b in 0..nby {
            let side = b % 2;
            ids[side].push(100 + b as u32);
            let mut w = vec![];
            let mut r = vec![];
            for k in 0..nrounds {
                w.push(WOp::Write(2));
                w.push(WOp::Park(k as u8 + 1));
                r.push(ROp::Read(64));
            }
            streams.push(StreamSpec { side, port: 1, pad: vec![], delay: 0, park: None, cancel: None, ends: [EndScript { w: w.clone(), r: r.clone() }, EndScript { w, r }] });
        }
        let mut x = seed | 1;
        let mut next = || {
            x ^= x << 13;
            x ^= x >> 7;
            x ^= x << 17;
            x
        };
        for (k, round) in rounds.into_iter().enumerate() {
            let mut nth = [0u32; 2];
            for (side, e0, e1) in round {
                // one scripted draw per open (sometimes preceded by a 0, which must be skipped). Ids are unique within a round and
                // per side (no collisions, no stale frames in flight); the same id comes back two rounds later, after quiescent points.
                if next() % 4 == 0 {
                    ids[side].push(0);
                }
                ids[side].push(1 + (k as u32 % 2) * 8 + side as u32 * 4 + nth[side]);
                nth[side] += 1;
                let mk = |e: (Vec<WOp>, Vec<ROp>, bool)| {
                    let (mut w, mut r, by_reader) = e;
                    if by_reader {
                        r.push(ROp::Drop);
                        w.retain(|o| !matches!(o, WOp::Drop));
                    } else {
                        w.push(WOp::Drop);
                    }
                    EndScript { w, r }
                };
                streams.push(StreamSpec { side, port: 2, pad: vec![], delay: 0, park: if k == 0 { None } else { Some(k as u8) }, cancel: None, ends: [mk(e0), mk(e1)] });
            }
            if k > 0 {
                events.push(RawEvent { when: Trigger::Quiescent, what: What::Wake(k as u8) });
            }
        }
        // last wake releases the bystanders' final park
        events.push(RawEvent { when: Trigger::Quiescent, what: What::Wake(nrounds as u8) });
        Case { opts: [o0, o1], cap: [c0, c1], rng: ids, streams, events, schedule, ..Case::default() }
    })
}

pub fn run_c06(case: &Case) -> Outcome {
    let run = run_case(case);
    if !run.quiescent {
        return inconclusive(&run);
    }
    let a = Analysis::new(case, &run);
    if a.conn_end_at.is_some() {
        viol!(a, "c06-connection-ended", "the connection ended");
    }
    // Replay the id scripts against the Connect frames on the wire (in wire order) with a model of which ids each
    // endpoint must / must not hold. Only unambiguous facts are asserted: an id is *definitely free* once both
    // applications dropped every stream that used it and a quiescent point has passed since; it is *definitely held*
    // by a side whose application still holds an established (or requested) stream on it that was not reset.
    let qpoints: Vec<usize> = run.events.iter().enumerate().filter(|(_, e)| matches!(&e.ev, Ev::App(AppEv::Note(n)) if n.starts_with("wake "))).map(|x| x.0).collect();
    let mut script: [std::collections::VecDeque<u32>; 2] = [case.rng[0].iter().copied().collect(), case.rng[1].iter().copied().collect()];
    let mut reuse = 0;
    let mut abort_with_data = false;
    let mut all_connects: Vec<(usize, usize, u32)> = vec![];
    for (i, s) in a.streams.iter().enumerate() {
        for (cidx, id) in &s.connects {
            all_connects.push((*cidx, i, *id));
        }
        if s.open_ok_at.is_none() && s.open_err.is_none() {
            viol!(a, "c06-open-stuck", "stream {i}: request never completed (blocked tasks: {:?})", run.blocked_tasks());
        }
    }
    all_connects.sort();
    // streams (other than `me`) that used `id` before event t
    let users = |id: u32, t: usize, me: usize| -> Vec<usize> {
        a.streams.iter().enumerate().filter(|(j, s)| *j != me && s.connects.iter().any(|c| c.0 < t && c.1 == id)).map(|x| x.0).collect()
    };
    let definitely_free = |id: u32, t: usize, me: usize| -> bool {
        users(id, t, me).iter().all(|j| {
            let s = &a.streams[*j];
            let gone = |e: &EndInfo| e.dropped_at;
            match (s.open_ok_at, s.open_err.as_ref()) {
                (Some(_), _) => match (gone(&s.ends[0]), gone(&s.ends[1])) {
                    (Some(d0), Some(d1)) => qpoints.iter().any(|q| *q > d0.max(d1) && *q < t),
                    _ => false,
                },
                (None, Some(_)) => qpoints.iter().any(|q| *q < t && s.connects.iter().all(|c| c.0 < *q)),
                _ => false,
            }
        })
    };
    let definitely_held = |side: Side, id: u32, t: usize, me: usize| -> bool {
        users(id, t, me).iter().any(|j| {
            let s = &a.streams[*j];
            let end = if case.streams[*j].side == side { 0 } else { 1 };
            let present = if end == 0 { s.flow_id == Some(id) || s.open_ok_at.is_none_or(|o| o > t) && s.connects.last().is_some_and(|c| c.1 == id && c.0 < t) } else { s.flow_id == Some(id) && s.accepted_at.is_some_and(|x| x < t) };
            let let_go = s.ends[end].dropped_at.is_some_and(|d| d < t) || s.open_err.is_some();
            let reset_seen = run.events[..t].iter().any(|e| match &e.ev {
                Ev::Recv { side: s2, msg: WMsg::Frame(RFrame::Reset { id: r }) } | Ev::Sent { side: s2, msg: WMsg::Frame(RFrame::Reset { id: r }), .. } => *s2 == side && *r == id,
                _ => false,
            });
            present && !let_go && !reset_seen
        })
    };
    // How an endpoint turns random draws into a proposal is not specified (redraw on zero / on a collision, probe the next id, ...),
    // so the script is only used while the number of draws consumed so far is certain: as long as every draw of that side was a
    // non-zero id that was definitely free - any selection rule that prefers the drawn value when it is usable consumes exactly
    // one draw per request then. After the first zero, held or ambiguous draw the alignment is unknown and no expectation about
    // the *choice* is made any more; what is proposed is still checked against the model (never an id the application holds).
    let mut aligned = [true, true];
    for (cidx, i, id) in &all_connects {
        let spec = &case.streams[*i];
        let side = spec.side;
        if definitely_held(side, *id, *cidx, *i) {
            viol!(a, "c06-premature-reuse", "stream {i}: side {side} proposed flow id {id:08x} although its application still holds a live stream with that id");
        }
        if !users(*id, *cidx, *i).is_empty() && definitely_free(*id, *cidx, *i) {
            reuse += 1;
        }
        if aligned[side] {
            match script[side].pop_front() {
                None => aligned[side] = false,
                Some(d) => {
                    if d != 0 && definitely_free(d, *cidx, *i) {
                        if d != *id {
                            viol!(
                                a,
                                "c06-slot-leak-local",
                                "stream {i}: side {side} drew flow id {d:08x} (every earlier draw was used as drawn), which both applications let go of before the last quiescent point, but proposed {id:08x} instead: its flow table still holds a slot for {d:08x}"
                            );
                        }
                    } else {
                        // zero, held or ambiguous: how many draws this request consumes depends on the selection rule
                        aligned[side] = false;
                    }
                }
            }
        }
        // peer side: if the id is definitely free there as well, the Connect must be acknowledged, not reset
        if definitely_free(*id, *cidx, *i) && !users(*id, *cidx, *i).is_empty() {
            let s = &a.streams[*i];
            let next = s.connects.iter().find(|c| c.0 > *cidx).map(|c| c.0).unwrap_or(run.events.len());
            let rejected = run.events[*cidx..next].iter().any(|e| matches!(&e.ev, Ev::Sent { side: s2, msg: WMsg::Frame(RFrame::Reset { id: r }), .. } if *s2 == 1 - side && r == id)) && s.flow_id != Some(*id);
            // a simultaneous Connect with the same id from the peer is a legitimate reason
            let round_start = qpoints.iter().copied().filter(|q| *q < *cidx).max().unwrap_or(0);
            let collision = all_connects.iter().any(|(c2, j, id2)| j != i && id2 == id && case.streams[*j].side != side && *c2 > round_start);
            if rejected && !collision {
                viol!(
                    a,
                    "c06-slot-leak-peer",
                    "stream {i}: Connect({id:08x}) was rejected by side {} although both applications let go of the previous stream with that id before the last quiescent point",
                    1 - side
                );
            }
        }
    }
    // a Connect rejected for a legitimate reason (id still held by a blocked application end) shifts the id script and may
    // put stale frames of a reused id in flight within a round: such executions are outside the property's precondition
    let desync = a.streams.iter().any(|s| s.connects.len() > 1 || s.open_err.is_some());
    if desync {
        return Outcome::pass(false, vec!["desync-skipped"]);
    }
    // the same holds when an endpoint's id selection (which is its own business) lands on an id whose previous stream has not
    // been let go of by both applications before a quiescent point: frames or handles of the old generation may still be around
    let early_reuse = all_connects.iter().any(|(cidx, i, id)| !users(*id, *cidx, *i).is_empty() && !definitely_free(*id, *cidx, *i));
    if early_reuse {
        return Outcome::pass(false, vec!["reuse-before-both-let-go-skipped"]);
    }
    if let Err((sig, msg)) = a.integrity().and_then(|_| a.credit().map(|_| ())).and_then(|_| a.end_of_stream()) {
        viol!(a, sig, "{msg}");
    }
    for s in a.streams.iter() {
        for end in 0..2 {
            if let (Some(d), None) = (s.ends[end].dropped_at, s.ends[end].shutdown_at) {
                if s.ends[1 - end].written_before(d) > s.ends[end].reads.iter().take_while(|(i, _)| *i < d).last().map(|x| x.1).unwrap_or(0) {
                    abort_with_data = true;
                }
            }
        }
    }
    // bystanders complete all their rounds
    for (i, spec) in case.streams.iter().enumerate() {
        if spec.port == 1 {
            let want: usize = spec.ends[0].w.iter().map(|o| if let WOp::Write(n) = o { *n as usize } else { 0 }).sum();
            for end in 0..2 {
                if a.streams[i].ends[end].total_written() != want || a.streams[i].ends[end].total_read() != want {
                    viol!(a, "c06-bystander-disturbed", "bystander stream {i} end {end}: wrote {} read {} of {want} bytes", a.streams[i].ends[end].total_written(), a.streams[i].ends[end].total_read());
                }
            }
        }
    }
    let mut cl = vec![];
    if reuse > 0 {
        cl.push("id-reused-after-close");
    }
    if abort_with_data {
        cl.push("abort-with-data-in-flight");
    }
    if case.streams.iter().any(|s| s.port == 1) {
        cl.push("bystanders");
    }
    Outcome::pass(reuse > 0 || abort_with_data, cl)
}

/// raw-peer release probe: after every close order on a flow, a raw Connect on the same id must be acknowledged
fn c06_raw_case() -> impl Strategy<Value = Case> {
    (opts(true), close_end(false), 0usize..6, schedule(60)).prop_map(|(o0, e, how, schedule)| {
        let (mut w, mut r, by_reader) = e;
        if by_reader {
            r.push(ROp::Drop);
        } else {
            w.push(WOp::Drop);
        }
        let id = 0x42u32;
        let mut events = vec![RawEvent { when: Trigger::FromStep(0), what: What::Inject { from: 1, msg: RawMsg::Connect { id, rwnd: 3, port: 5, host: b"s0.".to_vec() } } }];
        // peer-side close behaviour before/after A lets go
        let extra = match how {
            0 => vec![],
            1 => vec![RawMsg::Finish { id }],
            2 => vec![RawMsg::Reset { id }],
            3 => vec![RawMsg::Push { id, len: 2 }, RawMsg::Finish { id }],
            4 => vec![RawMsg::Finish { id }, RawMsg::Finish { id }],
            _ => vec![RawMsg::Push { id, len: 1 }],
        };
        for (k, m) in extra.into_iter().enumerate() {
            events.push(RawEvent { when: Trigger::FromStep(6 + 2 * k as u32), what: What::Inject { from: 1, msg: m } });
        }
        // probe at quiescence: same id again
        events.push(RawEvent { when: Trigger::Quiescent, what: What::Inject { from: 1, msg: RawMsg::Connect { id, rwnd: 3, port: 6, host: b"probe".to_vec() } } });
        Case {
            opts: [o0, OptsSpec::default()],
            streams: vec![StreamSpec { side: 1, port: 5, pad: vec![], delay: 0, park: None, cancel: None, ends: [EndScript::default(), EndScript { w, r }] }],
            raw: Some(RawPolicy { reject_first: 0, ack_connects: None, ack_every: Some(1), answer_close: true, no_ack_streams: vec![] }),
            events,
            schedule,
            ..Case::default()
        }
    })
}

pub fn run_c06_raw(case: &Case) -> Outcome {
    let run = run_case(case);
    if !run.quiescent {
        return inconclusive(&run);
    }
    let a = Analysis::new(case, &run);
    let id = 0x42u32;
    let dropped = a.streams[0].ends[1].dropped_at.is_some();
    // find the probe Connect (second Connect with this id received by A)
    let connects: Vec<usize> = run.events.iter().enumerate().filter(|(_, e)| matches!(&e.ev, Ev::Recv { side: 0, msg: WMsg::Frame(RFrame::Connect { id: i, .. }) } if *i == id)).map(|x| x.0).collect();
    if connects.len() < 2 {
        return Outcome::inconclusive("probe not delivered");
    }
    let p = connects[1];
    let reply = run.events[p..].iter().find_map(|e| match &e.ev {
        Ev::Sent { side: 0, msg: WMsg::Frame(RFrame::Reset { id: r }), .. } if *r == id => Some("reset"),
        Ev::Sent { side: 0, msg: WMsg::Frame(RFrame::Acknowledge { id: r, .. }), .. } if *r == id => Some("ack"),
        _ => None,
    });
    if dropped {
        if reply != Some("ack") {
            viol!(a, "c06-slot-leak-raw", "A's application dropped its stream on flow {id:08x}; at quiescence a new Connect on that id was answered with {reply:?} instead of Acknowledge");
        }
        // the probe stream is accepted as a fresh stream
        let accepted = run.app_events().filter(|(_, e)| matches!(e, AppEv::Accepted { .. })).count();
        if accepted != 2 {
            viol!(a, "c06-probe-not-accepted", "{accepted} streams accepted, expected the original and the probe");
        }
    }
    Outcome::pass(dropped, vec![if dropped { "dropped-then-probed" } else { "held" }])
}

/// Stale-handle family (raw peer). The stream on flow id X ends on the wire in one of several ways while A's application
/// still HOLDS its handle; then X is used again for a new stream (the peer opens it - PROTOCOL.md: a stream is closed once
/// either end sent Reset or both sent Finish, so the peer may reuse the id - or A's own generator draws it). If the new
/// stream gets established, whatever the application later does with the OLD handle (drop, shutdown, write) must not touch it:
/// "all other streams on the connection keep their data and state", "nothing of the old stream leaks into it".
#[derive(Clone, Debug, Hash, PartialEq, Eq, serde::Serialize, serde::Deserialize)]
pub struct StaleCase {
    pub case: Case,
    /// how the old stream ended: 0 peer Reset, 1 both Finish, 2 peer Finish only (live), 3 A Finish only (live), 4 A reset it for overrunning the window, 5 nothing (live)
    pub how: u8,
    /// what the application does with the old handle afterwards: 0 drop, 1 shutdown + drop, 2 write + drop
    pub action: u8,
    /// the new stream is opened by A itself (scripted flow id) instead of by the peer
    pub local_open: bool,
}
const STALE_HOW: [&str; 6] = ["peer-reset", "both-finished", "peer-finished-only", "local-finished-only", "overrun-reset", "live"];
const STALE_ACT: [&str; 3] = ["drop", "shutdown-drop", "write-drop"];

fn c06_stale_case() -> impl Strategy<Value = StaleCase> {
    stale_case_of(vec![0, 1, 2, 3, 4, 5])
}
/// The part of the stale-handle family in which the OLD stream did not end by a Reset (it was finished by both ends, by one end, or
/// is still live): used by C02 and C05 as well - a second stream on the id of a stream whose handle the application still holds must
/// either be refused or deliver its bytes intact and reach its own, proper end-of-stream whatever happens to the old handle.
pub fn finished_handle_case() -> impl Strategy<Value = StaleCase> {
    stale_case_of(vec![1, 2, 3, 5])
}
fn stale_case_of(hows: Vec<u8>) -> impl Strategy<Value = StaleCase> {
    (opts(true), prop::sample::select(hows), 0u8..3, any::<bool>(), any::<bool>(), schedule(80)).prop_map(|(mut o0, how, action, local_open, old_reads, schedule)| {
        o0.rwnd = o0.rwnd.clamp(3, 8);
        let id = 0x42u32;
        // old stream, A's end (acceptor end of stream 0)
        let mut w = vec![WOp::Write(2)];
        if how == 1 || how == 3 {
            w.push(WOp::Shutdown);
        }
        w.push(WOp::Park(1));
        match action {
            0 => {}
            1 => w.push(WOp::Shutdown),
            _ => w.push(WOp::Write(1)),
        }
        w.push(WOp::Drop);
        let r = if old_reads && how != 4 { vec![ROp::Read(8)] } else { vec![] };
        let mut events = vec![RawEvent { when: Trigger::FromStep(0), what: What::Inject { from: 1, msg: RawMsg::Connect { id, rwnd: 4, port: 5, host: b"s0.".to_vec() } } }];
        let ending: Vec<RawMsg> = match how {
            0 => vec![RawMsg::PushDir { id, stream: 0, dir: 0, off: 0, len: 2 }, RawMsg::Reset { id }],
            1 | 2 => vec![RawMsg::PushDir { id, stream: 0, dir: 0, off: 0, len: 2 }, RawMsg::Finish { id }],
            4 => (0..o0.rwnd + 1).map(|k| RawMsg::PushDir { id, stream: 0, dir: 0, off: k, len: 1 }).collect(),
            _ => vec![],
        };
        for (k, m) in ending.into_iter().enumerate() {
            events.push(RawEvent { when: Trigger::FromStep(6 + 2 * k as u32), what: What::Inject { from: 1, msg: m } });
        }
        // second generation on the same id, at quiescence
        let new_end = EndScript { w: vec![WOp::Write(3), WOp::Park(2), WOp::Write(2), WOp::Shutdown], r: vec![ROp::ToEof(16)] };
        let (new_spec, rng0, pdir) = if local_open {
            events.push(RawEvent { when: Trigger::Quiescent, what: What::Wake(3) });
            (StreamSpec { side: 0, port: 6, pad: vec![], delay: 0, park: Some(3), cancel: None, ends: [new_end, EndScript::default()] }, vec![id], 1u8)
        } else {
            events.push(RawEvent { when: Trigger::Quiescent, what: What::Inject { from: 1, msg: RawMsg::Connect { id, rwnd: 4, port: 6, host: b"s1.".to_vec() } } });
            (StreamSpec { side: 1, port: 6, pad: vec![], delay: 0, park: None, cancel: None, ends: [EndScript::default(), new_end] }, vec![], 0u8)
        };
        events.push(RawEvent { when: Trigger::Quiescent, what: What::Wake(1) });
        events.push(RawEvent { when: Trigger::Quiescent, what: What::Inject { from: 1, msg: RawMsg::PushDir { id, stream: 1, dir: pdir, off: 0, len: 4 } } });
        events.push(RawEvent { when: Trigger::Quiescent, what: What::Wake(2) });
        events.push(RawEvent { when: Trigger::Quiescent, what: What::Inject { from: 1, msg: RawMsg::Finish { id } } });
        let case = Case {
            opts: [o0, OptsSpec::default()],
            rng: [rng0, vec![]],
            streams: vec![StreamSpec { side: 1, port: 5, pad: vec![], delay: 0, park: None, cancel: None, ends: [EndScript::default(), EndScript { w, r }] }, new_spec],
            raw: Some(RawPolicy { reject_first: 0, ack_connects: Some(4), ack_every: Some(1), answer_close: true, no_ack_streams: vec![] }),
            events,
            schedule,
            ..Case::default()
        };
        StaleCase { case, how, action, local_open }
    })
}

pub fn run_c06_stale(sc: &StaleCase) -> Outcome {
    let case = &sc.case;
    let run = run_case(case);
    if !run.quiescent {
        return inconclusive(&run);
    }
    let a = Analysis::new(case, &run);
    let id = 0x42u32;
    let tagname = format!("{}:{}:{}", STALE_HOW[sc.how as usize], STALE_ACT[sc.action as usize], if sc.local_open { "local-open" } else { "peer-open" });
    let is = |e: &Ev, side: usize, sent: bool, pred: &dyn Fn(&RFrame) -> bool| match e {
        Ev::Sent { side: s, msg: WMsg::Frame(f), .. } if sent && *s == side => pred(f),
        Ev::Recv { side: s, msg: WMsg::Frame(f) } if !sent && *s == side => pred(f),
        _ => false,
    };
    // p = the Connect of the second generation (received by A, or sent by A)
    let connects: Vec<usize> = run
        .events
        .iter()
        .enumerate()
        .filter(|(_, e)| is(&e.ev, 0, false, &|f| matches!(f, RFrame::Connect { id: i, .. } if *i == id)) || is(&e.ev, 0, true, &|f| matches!(f, RFrame::Connect { id: i, .. } if *i == id)))
        .map(|x| x.0)
        .collect();
    if connects.len() < 2 {
        // A did not propose the scripted id (how draws become proposals is unspecified) or the probe was not delivered
        return Outcome::pass(false, vec!["second-generation-not-on-this-id"]);
    }
    let p = connects[1];
    let before = &run.events[..p];
    let peer_reset = before.iter().any(|e| is(&e.ev, 0, false, &|f| matches!(f, RFrame::Reset { id: i } if *i == id)));
    let own_reset = before.iter().any(|e| is(&e.ev, 0, true, &|f| matches!(f, RFrame::Reset { id: i } if *i == id)));
    let peer_fin = before.iter().any(|e| is(&e.ev, 0, false, &|f| matches!(f, RFrame::Finish { id: i } if *i == id)));
    let own_fin = before.iter().any(|e| is(&e.ev, 0, true, &|f| matches!(f, RFrame::Finish { id: i } if *i == id)));
    let closed_on_wire = peer_reset || own_reset || (peer_fin && own_fin);
    let old_held = a.streams[0].ends[1].dropped_at.is_none_or(|d| d > p);
    if !old_held {
        return Outcome::inconclusive("harness: the old handle was dropped before the second generation started");
    }
    let established = if sc.local_open {
        a.streams[1].open_ok_at.is_some()
    } else {
        let reply = run.events[p..].iter().find_map(|e| {
            if is(&e.ev, 0, true, &|f| matches!(f, RFrame::Reset { id: i } if *i == id)) {
                Some(false)
            } else if is(&e.ev, 0, true, &|f| matches!(f, RFrame::Acknowledge { id: i, .. } if *i == id)) {
                Some(true)
            } else {
                None
            }
        });
        match reply {
            None => viol!(a, format!("c06-stale:no-answer:{tagname}"), "the Connect that reuses flow {id:08x} was neither acknowledged nor reset"),
            Some(x) => x,
        }
    };
    if !closed_on_wire {
        // the old stream is alive: its id is in use
        if established {
            viol!(a, format!("c06-live-flow-replaced:{tagname}"), "flow {id:08x} was still open (no Reset, not finished by both ends) and held by A's application, yet a second stream was established on the same id");
        }
        return Outcome::pass(false, vec!["live-id-refused"]);
    }
    if !established {
        // allowed: an endpoint may refuse an id (PROTOCOL.md "MAY reject"), e.g. while its application holds the old handle
        return Outcome::pass(false, vec!["closed-id-refused-while-handle-held"]);
    }
    // the new stream must live its whole scripted life, unaffected by the old handle
    let e = if sc.local_open { 0 } else { 1 };
    let ne = &a.streams[1].ends[e];
    let sig = format!("c06-stale-handle-kills-new-stream:{tagname}");
    let after = &run.events[p + 1..];
    let resets_after = after.iter().filter(|e| is(&e.ev, 0, true, &|f| matches!(f, RFrame::Reset { id: i } if *i == id))).count();
    if resets_after > 0 {
        viol!(a, sig, "a new stream was established on flow {id:08x} (the old one had ended on the wire: {}); after the application used/dropped its handle of the OLD stream, A sent Reset for the id, i.e. aborted the new stream", STALE_HOW[sc.how as usize]);
    }
    if !ne.read_errs.is_empty() || !ne.write_errs.is_empty() {
        viol!(a, sig, "operations on the new stream failed: reads {:?} writes {:?}", ne.read_errs, ne.write_errs);
    }
    if ne.total_read() != 4 || ne.eof_at.is_none() {
        viol!(a, sig, "the new stream's reader got {} of 4 bytes, eof={:?}", ne.total_read(), ne.eof_at);
    }
    let fin_recv = after.iter().position(|e| is(&e.ev, 0, false, &|f| matches!(f, RFrame::Finish { id: i } if *i == id))).map(|i| i + p + 1);
    if let (Some(eof), Some(fr)) = (ne.eof_at, fin_recv) {
        if eof < fr {
            viol!(a, sig, "the new stream's reader saw end-of-stream (event {eof}) before the peer's Finish arrived (event {fr})");
        }
    }
    if ne.total_written() != 5 || ne.shutdown_at.is_none() {
        viol!(a, sig, "the new stream's writer completed {} of 5 bytes, shutdown={:?}", ne.total_written(), ne.shutdown_at);
    }
    let pushes_after = after.iter().filter(|e| is(&e.ev, 0, true, &|f| matches!(f, RFrame::Push { id: i, .. } if *i == id))).count();
    let fins_after: Vec<usize> = after.iter().enumerate().filter(|(_, e)| is(&e.ev, 0, true, &|f| matches!(f, RFrame::Finish { id: i } if *i == id))).map(|x| x.0 + p + 1).collect();
    if pushes_after != 2 {
        viol!(a, sig, "{pushes_after} Push frames on flow {id:08x} after the second Connect, the new stream wrote exactly 2");
    }
    if fins_after.len() != 1 || ne.shutdown_at.is_some_and(|s| fins_after[0] < s.saturating_sub(1) && false) {
        viol!(a, sig, "{} Finish frames sent on flow {id:08x} after the second Connect, expected exactly the new stream's own", fins_after.len());
    }
    if let Err((s2, msg)) = a.integrity() {
        viol!(a, format!("{sig}:{s2}"), "{msg}");
    }
    Outcome::pass(true, vec!["new-stream-on-reused-id-survived-old-handle"])
}

/// The other order of the stale-handle history: the NEWER stream on the reused id is aborted (dropped without shutdown) while the
/// application still holds the handle of the old one. The abort must be signalled to the peer (Reset) like any other, and once the old
/// handle is gone as well the id must be free again.
pub const NEWER_FIRST_CASES: u64 = 3 * 2;
pub fn newer_first_case(i: u64) -> StaleCase {
    let how = [0u8, 1, 4][(i % 3) as usize];
    let local_open = (i / 3) % 2 == 1;
    let o0 = OptsSpec { rwnd: 4, thr: 2, ..OptsSpec::default() };
    let id = 0x42u32;
    let mut w = vec![WOp::Write(2)];
    if how == 1 {
        w.push(WOp::Shutdown);
    }
    w.push(WOp::Park(2));
    w.push(WOp::Drop);
    let mut events = vec![RawEvent { when: Trigger::FromStep(0), what: What::Inject { from: 1, msg: RawMsg::Connect { id, rwnd: 4, port: 5, host: b"s0.".to_vec() } } }];
    let ending: Vec<RawMsg> = match how {
        0 => vec![RawMsg::PushDir { id, stream: 0, dir: 0, off: 0, len: 2 }, RawMsg::Reset { id }],
        1 => vec![RawMsg::PushDir { id, stream: 0, dir: 0, off: 0, len: 2 }, RawMsg::Finish { id }],
        _ => (0..o0.rwnd + 1).map(|k| RawMsg::PushDir { id, stream: 0, dir: 0, off: k, len: 1 }).collect(),
    };
    for (k, m) in ending.into_iter().enumerate() {
        events.push(RawEvent { when: Trigger::FromStep(6 + 2 * k as u32), what: What::Inject { from: 1, msg: m } });
    }
    let new_end = EndScript { w: vec![WOp::Write(3), WOp::Park(1), WOp::Drop], r: vec![] };
    let (new_spec, rng0) = if local_open {
        events.push(RawEvent { when: Trigger::Quiescent, what: What::Wake(3) });
        (StreamSpec { side: 0, port: 6, pad: vec![], delay: 0, park: Some(3), cancel: None, ends: [new_end, EndScript::default()] }, vec![id])
    } else {
        events.push(RawEvent { when: Trigger::Quiescent, what: What::Inject { from: 1, msg: RawMsg::Connect { id, rwnd: 4, port: 6, host: b"s1.".to_vec() } } });
        (StreamSpec { side: 1, port: 6, pad: vec![], delay: 0, park: None, cancel: None, ends: [EndScript::default(), new_end] }, vec![])
    };
    events.push(RawEvent { when: Trigger::Quiescent, what: What::Wake(1) }); // the newer stream is aborted
    events.push(RawEvent { when: Trigger::Quiescent, what: What::Wake(2) }); // then the old handle is dropped
    events.push(RawEvent { when: Trigger::Quiescent, what: What::Inject { from: 1, msg: RawMsg::Connect { id, rwnd: 4, port: 7, host: b"probe".to_vec() } } });
    let case = Case {
        opts: [o0, OptsSpec::default()],
        rng: [rng0, vec![]],
        streams: vec![StreamSpec { side: 1, port: 5, pad: vec![], delay: 0, park: None, cancel: None, ends: [EndScript::default(), EndScript { w, r: vec![] }] }, new_spec],
        raw: Some(RawPolicy { reject_first: 0, ack_connects: Some(4), ack_every: Some(1), answer_close: true, no_ack_streams: vec![] }),
        events,
        ..Case::default()
    };
    StaleCase { case, how, action: 0, local_open }
}
pub fn run_c06_newer_first(sc: &StaleCase) -> Outcome {
    let case = &sc.case;
    let run = run_case(case);
    if !run.quiescent {
        return inconclusive(&run);
    }
    let a = Analysis::new(case, &run);
    let id = 0x42u32;
    let tagname = format!("{}:{}", STALE_HOW[sc.how as usize], if sc.local_open { "local-open" } else { "peer-open" });
    let sent = |e: &Ev, pred: &dyn Fn(&RFrame) -> bool| matches!(e, Ev::Sent { side: 0, msg: WMsg::Frame(f), .. } if pred(f));
    let recv = |e: &Ev, pred: &dyn Fn(&RFrame) -> bool| matches!(e, Ev::Recv { side: 0, msg: WMsg::Frame(f) } if pred(f));
    let is_connect = |f: &RFrame| matches!(f, RFrame::Connect { id: i, .. } if *i == id);
    let connects: Vec<usize> = run.events.iter().enumerate().filter(|(_, e)| sent(&e.ev, &is_connect) || recv(&e.ev, &is_connect)).map(|x| x.0).collect();
    // the Connect of the second generation: sent by A itself (scripted id; A is free to draw another one) or the peer's second one
    let second = if sc.local_open { run.events.iter().position(|e| sent(&e.ev, &is_connect)) } else { connects.get(1).copied().filter(|_| connects.len() >= 3) };
    let Some(p) = second else {
        return Outcome::pass(false, vec!["second-generation-not-on-this-id"]);
    };
    let established = if sc.local_open {
        a.streams[1].open_ok_at.is_some()
    } else {
        run.events[p..].iter().find_map(|e| if sent(&e.ev, &|f| matches!(f, RFrame::Reset { id: i } if *i == id)) { Some(false) } else if sent(&e.ev, &|f| matches!(f, RFrame::Acknowledge { id: i, .. } if *i == id)) { Some(true) } else { None }).unwrap_or(false)
    };
    if !established {
        return Outcome::pass(false, vec!["closed-id-refused-while-handle-held"]);
    }
    let e = if sc.local_open { 0 } else { 1 };
    let Some(dropped_new) = a.streams[1].ends[e].dropped_at else {
        return Outcome::inconclusive("harness: the newer stream was never dropped");
    };
    if a.streams[0].ends[1].dropped_at.is_some_and(|d| d < dropped_new) {
        return Outcome::inconclusive("harness: the old handle was dropped first");
    }
    // the abort of the newer stream reaches the peer
    // (while the old handle is still held: the system is quiescent again when Wake(2) fires, which is when the old handle goes)
    let until = run.events.iter().position(|e| matches!(&e.ev, Ev::App(AppEv::Note(n)) if n == "wake 2")).unwrap_or(run.events.len()).max(dropped_new);
    if !run.events[dropped_new..until].iter().any(|e| sent(&e.ev, &|f| matches!(f, RFrame::Reset { id: i } if *i == id))) {
        viol!(a, format!("c06-abort-not-signalled:stale-handle-held:{tagname}"), "a stream on flow {id:08x} (an id used before by a stream that ended on the wire - {} - and whose handle the application still holds) was dropped without shutdown, but no Reset was sent: the peer is never told about the abort", STALE_HOW[sc.how as usize]);
    }
    // once the old handle is gone as well, the id is free: the probe Connect is acknowledged
    let probe = *connects.last().unwrap();
    let answer = run.events[probe..].iter().find_map(|e| if sent(&e.ev, &|f| matches!(f, RFrame::Reset { id: i } if *i == id)) { Some(false) } else if sent(&e.ev, &|f| matches!(f, RFrame::Acknowledge { id: i, .. } if *i == id)) { Some(true) } else { None });
    if probe > dropped_new && answer != Some(true) && !sc.local_open {
        viol!(a, format!("c06-slot-leak-after-stale-handle:{tagname}"), "both applications have let go of every stream that used flow {id:08x}, yet a new Connect on it was answered {answer:?}");
    }
    Outcome::pass(true, vec!["newer-stream-aborted-before-the-stale-handle"])
}

/// One end finishes its direction (shutdown) and drops the stream while the other direction is still open; the other end then goes on
/// writing. It cannot be told by a Finish or a Reset of its own accord - the flow is simply gone at the peer -, but its first Push on the
/// vanished flow must be answered with a Reset, so that its writes fail with BrokenPipe from then on instead of succeeding into the
/// void until the window is used up and then blocking for ever.
pub const FINISHED_THEN_DROPPED_CASES: u64 = 2 * 2 * 2;
pub fn finished_then_dropped_case(i: u64) -> Case {
    let side = (i % 2) as usize; // who opens
    let leaver_end = ((i / 2) % 2) as usize; // which end finishes and drops
    let wrote = i / 4 == 1;
    let mut leaver_w = vec![];
    if wrote {
        leaver_w.push(WOp::Write(3));
    }
    leaver_w.push(WOp::Shutdown);
    leaver_w.push(WOp::Drop);
    let stayer = EndScript { w: vec![WOp::Park(1), WOp::Write(1), WOp::Park(2), WOp::Write(1), WOp::Park(3), WOp::Write(1)], r: vec![ROp::ToEof(16)] };
    let mut ends = [EndScript::default(), EndScript::default()];
    ends[leaver_end] = EndScript { w: leaver_w, r: vec![] };
    ends[1 - leaver_end] = stayer;
    Case {
        opts: [OptsSpec { rwnd: 8, thr: 2, ..OptsSpec::default() }, OptsSpec { rwnd: 8, thr: 2, ..OptsSpec::default() }],
        streams: vec![StreamSpec { side, port: 4, pad: vec![], delay: 0, park: None, cancel: None, ends }],
        events: (1u8..=3).map(|n| RawEvent { when: Trigger::Quiescent, what: What::Wake(n) }).collect(),
        ..Case::default()
    }
}
pub fn run_finished_then_dropped(case: &Case) -> Outcome {
    let run = run_case(case);
    if !run.quiescent {
        return inconclusive(&run);
    }
    let a = Analysis::new(case, &run);
    if a.conn_end_at.is_some() {
        viol!(a, "c06-connection-ended", "the connection ended");
    }
    let stayer_end = if case.streams[0].ends[0].w.contains(&WOp::Drop) { 1 } else { 0 };
    let st = &a.streams[0].ends[stayer_end];
    if st.eof_at.is_none() {
        viol!(a, "c05-eof-not-delivered", "the end that stays never saw the end-of-stream of the end that finished and dropped");
    }
    // three writes, each after a quiescent point: the first may still succeed (nobody has told this end yet); its Push is answered
    // with a Reset, so the third one at the latest has to fail
    let ok = st.nonempty_writes;
    if st.write_errs.is_empty() {
        viol!(a, "c06-writes-succeed-after-the-peer-let-go", "the peer finished its direction and dropped the stream (its flow is gone); {ok} later writes of this end, each made after the system had come to rest, all succeeded: nobody tells this end that nobody is listening (no Reset for its Push on the vanished flow)");
    }
    if st.write_errs.iter().any(|e| e.1 != "BrokenPipe") {
        viol!(a, "c06-wrong-write-error", "writes after the peer let go failed with {:?}", st.write_errs);
    }
    Outcome::pass(true, vec!["peer-finished-then-dropped"])
}

pub fn c06(ctx: &Ctx, rep: &mut Report) {
    rep.rule = "rounds (2-8) of open/close cycles separated by quiescence, every order of write/shutdown/drop/read on the two ends, flow ids scripted from {0,1,2,3} so that a freed id is proposed again at once, 0-2 bystander streams (ids >= 100) exchanging data in every round; \
                oracle: C02/C03/C05 oracles on everything, bystanders complete, and a model of which ids each endpoint must still hold, replayed against the Connect frames on the wire: a freed id must be chosen again by its owner (no leaked local slot) and acknowledged by the peer (no leaked peer slot). \
                Raw-peer family: after each close order a raw Connect on the same id must be acknowledged. Stale-handle family: the id of a stream that ended on the wire (peer Reset / both Finish / own Reset after an overrun / still live) is used again - by the peer or by the endpoint's own scripted generator - while the application holds the old handle; a live id must be refused, and if the new stream is established it must run its whole script unaffected by the old handle being dropped, shut down or written to. The other order as a directed family: the NEWER stream on the reused id is aborted while the old handle is still held - the peer must be told at once (Reset) and the id must be free once both are gone. Burst family: 2..300 streams aborted in the same instant must each be reset and reach end-of-stream at the peer. Non-trivial = an id was reused after a close, or a drop happened with data in flight in the other direction. Distinct = distinct case value."
        .into();
    rep.assumptions = sim_assumptions();
    rep.assumptions.push("cycle family: ids are reused only after both applications let go of the old stream (the precondition of the id-release sentence); reuse while one application still holds the handle of a stream that ended on the wire is generated by the stale-handle family".into());
    let t = ctx.tier;
    ctx.prop(rep, "cycles", t.pick(25_000, 800_000), 300, || with_keepalive(c06_case()), run_c06);
    ctx.prop(rep, "raw-probe", t.pick(20_000, 400_000), 200, c06_raw_case, run_c06_raw);
    // the id of a stream that ended on the wire is used again while the application still holds the old handle
    ctx.prop(rep, "stale-handle", t.pick(20_000, 400_000), 0, c06_stale_case, run_c06_stale);
    ctx.enumerate(rep, "stale-handle-newer-first", NEWER_FIRST_CASES, 3, newer_first_case, run_c06_newer_first);
    ctx.enumerate(rep, "finished-then-dropped", FINISHED_THEN_DROPPED_CASES, 8, finished_then_dropped_case, run_finished_then_dropped);
    // a stream whose requester gave up around the moment the peer's Acknowledge arrived is dropped un-collected: like every stream
    // dropped without shutdown it must be aborted on the wire (Reset) and its id released (family shared with C07 / C10)
    ctx.enumerate(rep, "abandoned-request", CANCELLED_REQUEST_CASES, 6, cancelled_request_case, run_cancelled_request);
    // many streams aborted in the same instant (the owner of N streams goes away): every one of them must be reset on the
    // wire and reach end-of-stream at the peer, whatever N is
    const BURST: [usize; 6] = [2, 33, 34, 65, 130, 300];
    ctx.enumerate(
        rep,
        "burst-abort",
        (BURST.len() * 2) as u64,
        4,
        |i| {
            let (n, side) = (BURST[(i % 6) as usize], (i / 6) as usize);
            let streams = (0..n)
                .map(|_| StreamSpec {
                    side,
                    port: 9,
                    pad: vec![],
                    delay: 0,
                    park: None, cancel: None,
                    ends: [EndScript { w: vec![WOp::Write(1), WOp::Park(1), WOp::Drop], r: vec![] }, EndScript { w: vec![], r: vec![ROp::ToEof(64)] }],
                })
                .collect();
            let o = OptsSpec { rwnd: 2, thr: 1, stream_buf: 512, ..OptsSpec::default() };
            Case { opts: [o.clone(), o], streams, events: vec![RawEvent { when: Trigger::Quiescent, what: What::Wake(1) }], step_bound: 3_000_000, ..Case::default() }
        },
        |case| {
            let run = run_case(case);
            if !run.quiescent {
                return inconclusive(&run);
            }
            let a = Analysis::new(case, &run);
            if let Err((sig, msg)) = a.integrity().and_then(|_| a.end_of_stream()) {
                viol!(a, format!("burst:{sig}"), "{} streams aborted at once: {msg}", case.streams.len());
            }
            let side = case.streams[0].side;
            let ids: BTreeSet<u32> = a.streams.iter().filter_map(|s| s.flow_id).collect();
            let reset: BTreeSet<u32> = run.events.iter().filter_map(|e| if let Ev::Sent { side: s, msg: WMsg::Frame(RFrame::Reset { id }), .. } = &e.ev { if *s == side { Some(*id) } else { None } } else { None }).collect();
            let missing: Vec<String> = ids.difference(&reset).map(|i| format!("{i:08x}")).collect();
            if ids.len() != case.streams.len() || !missing.is_empty() {
                viol!(a, "c06-abort-without-reset", "{} streams established and aborted in the same instant, but no Reset was transmitted for {} of them ({:?} ...)", case.streams.len(), missing.len(), &missing[..missing.len().min(4)]);
            }
            let stuck = a.unfinished(perpetual);
            if !stuck.is_empty() {
                viol!(a, "c06-burst-abort-stuck", "{} tasks never finished after the burst of aborts: {:?} ...", stuck.len(), &stuck[..stuck.len().min(4)]);
            }
            Outcome::pass(case.streams.len() > 32, vec!["burst-abort"])
        },
    );
}

// =================================================================== C15

fn c15_case() -> impl Strategy<Value = Case> {
    let bind = (0usize..2, any::<bool>(), prop::collection::vec(any::<u8>(), 0..300), any::<u16>(), 0u8..3);
    let answer = prop_oneof![3 => Just(BindAnswer::Accept), 2 => Just(BindAnswer::Reject), 2 => Just(BindAnswer::DropIt), 1 => Just(BindAnswer::Hold)];
    let policy = (prop::collection::vec(answer, 0..7), 1u8..=4, prop::collection::vec(any::<u8>(), 0..4), prop::bool::weighted(0.8), prop::bool::weighted(0.3)).prop_map(|(answers, batch, order, enabled, ping_first)| BindPolicy { answers, batch, order, enabled, ping_first });
    let sh = Shape { max_streams: 2, max_wops: 3, allow_empty: false, allow_drop: false, complete: true, small_windows: true, max_sched: 200 };
    (
        opts(true),
        opts(true),
        prop::collection::vec(bind, 1..=6),
        policy.clone(),
        policy,
        prop::collection::vec(stream_spec(sh), 0..=2),
        0usize..3,
        prop_oneof![3 => Just(None), 1 => (0u32..120, 0usize..4).prop_map(Some)],
        schedule(300),
        (1usize..=4, any::<bool>(), cap(), cap()),
    )
        .prop_map(|(mut o0, mut o1, binds, p0, p1, streams, ndg, end, schedule, (bbuf, small_ids, c0, c1))| {
            let binds: Vec<BindSpec> = binds.into_iter().map(|(side, dgram, mut host, port, delay)| {
                if host.len() % 4 != 0 {
                    host.truncate(6);
                }
                BindSpec { side, dgram, host, port, delay }
            }).collect();
            o0.bind_buf = if p0.enabled { bbuf.max(p0.batch as usize) } else { 0 };
            o1.bind_buf = if p1.enabled { bbuf.max(p1.batch as usize) } else { 0 };
            o0.dgram_buf = 8;
            o1.dgram_buf = 8;
            let dgrams = (0..ndg).map(|k| DgSpec { side: k % 2, flow_id: k as u32, host_len: 6, port: 9, data_len: 4, delay: 1 }).collect();
            let events = match end {
                None => vec![],
                Some((step, kind)) => vec![RawEvent {
                    when: Trigger::FromStep(step),
                    what: match kind {
                        0 => What::Inject { from: 1, msg: RawMsg::Close },
                        1 => What::CutSource { side: 0, err: true },
                        2 => What::DropMux { side: 1 },
                        _ => What::Inject { from: 0, msg: RawMsg::Close },
                    },
                }],
            };
            // half of the cases draw all flow ids of both sides from the same short list, so that a stream request of one side
            // proposes the id of a bind request the other side still has pending (a colliding Connect must be rejected
            // without disturbing the request) and ids are reused after requests are resolved
            let rng = if small_ids {
                o0.retries = 12;
                o1.retries = 12;
                [(1..=12).collect(), (1..=12).collect()]
            } else {
                [vec![], vec![]]
            };
            Case { opts: [o0, o1], cap: [c0, c1], binds, bind_policy: [p0, p1], streams, dgrams, dg_readers: [DgReader::Eager, DgReader::Eager], events, schedule, rng, ..Case::default() }
        })
}

pub fn run_c15(case: &Case) -> Outcome {
    let run = run_case(case);
    if !run.quiescent {
        return inconclusive(&run);
    }
    let a = Analysis::new(case, &run);
    let ended = a.conn_end_at.is_some();
    let mut out_of_order = false;
    let mut raced = false;
    // wire: Bind frames by tag
    let mut wire: BTreeMap<usize, (u32, u8, u16, Vec<u8>, usize)> = BTreeMap::new();
    for (idx, st) in run.events.iter().enumerate() {
        if let Ev::Sent { side, msg: WMsg::Frame(RFrame::Bind { id, btype, port, host }), .. } = &st.ev {
            if let Some(k) = parse_bind_tag(host) {
                if k < case.binds.len() && case.binds[k].side == *side {
                    if wire.insert(k, (*id, *btype, *port, host.clone(), idx)).is_some() {
                        viol!(a, "c15-bind-sent-twice", "bind request {k} was put on the wire twice");
                    }
                }
            }
        }
    }
    // what the responder application saw
    let mut seen: BTreeMap<usize, (u32, u8, Vec<u8>, u16, String, usize)> = BTreeMap::new();
    let mut seen_order = vec![];
    for (idx, st) in run.events.iter().enumerate() {
        if let Ev::App(AppEv::BindSeen { side, flow_id, btype, host, port, answer }) = &st.ev {
            let Some(k) = parse_bind_tag(host).filter(|k| *k < case.binds.len()) else {
                viol!(a, "c15-unknown-request-shown", "side {side} was shown a bind request nobody made: host {host:?}");
            };
            if case.binds[k].side == *side {
                viol!(a, "c15-request-shown-to-requester", "request {k} was shown to its own side");
            }
            if seen.insert(k, (*flow_id, *btype, host.clone(), *port, answer.clone(), idx)).is_some() {
                viol!(a, "c15-request-shown-twice", "request {k} was shown to the responder twice");
            }
            seen_order.push(k);
        }
    }
    let mut resolved: BTreeMap<usize, Vec<(Result<bool, String>, usize)>> = BTreeMap::new();
    for (idx, st) in run.events.iter().enumerate() {
        if let Ev::App(AppEv::BindResolved { idx: k, result, .. }) = &st.ev {
            resolved.entry(*k).or_default().push((result.clone(), idx));
        }
    }
    for (k, b) in case.binds.iter().enumerate() {
        let want_host = bind_host(k, &b.host);
        let res = resolved.get(&k).cloned().unwrap_or_default();
        if res.len() > 1 {
            viol!(a, "c15-resolved-twice", "request {k} resolved {} times", res.len());
        }
        if let Some((id, bt, port, host, _)) = wire.get(&k) {
            if *bt != if b.dgram { 3 } else { 1 } || *port != b.port || *host != want_host {
                viol!(a, "c15-wire-fields", "request {k}: Bind frame carries type {bt} port {port} host {host:?}; requested type {} port {} host {want_host:?}", if b.dgram { 3 } else { 1 }, b.port);
            }
            if *id == 0 {
                viol!(a, "c15-bind-id-zero", "request {k} uses flow id 0");
            }
            if let Some((sid, sbt, shost, sport, _, _)) = seen.get(&k) {
                if sid != id || sbt != bt || *shost != want_host || *sport != b.port {
                    viol!(a, "c15-shown-fields", "request {k}: responder application sees (id {sid:08x}, type {sbt}, host {shost:?}, port {sport}); requested (id {id:08x}, type {bt}, host {want_host:?}, port {})", b.port);
                }
            }
        }
        let answer = seen.get(&k).map(|s| s.4.as_str());
        let responder_enabled = case.bind_policy[1 - b.side].enabled;
        match res.first() {
            None if run.app_events().any(|(_, e)| matches!(e, AppEv::MuxDropped { side } if *side == b.side)) => {
                // the requesting future was cancelled together with its Multiplexor handle
            }
            None => {
                // unresolved: only legitimate while the responder holds it (or has not been shown it because an earlier batch is incomplete) and the connection lives
                let pending_ok = !ended && responder_enabled && (answer == Some("Hold") || answer.is_none());
                if !pending_ok {
                    viol!(a, "c15-never-resolved", "request {k} never resolved (answer {answer:?}, connection ended: {ended}); blocked tasks {:?}", run.blocked_tasks());
                }
            }
            Some((Ok(true), ridx)) => {
                if answer != Some("Accept") {
                    viol!(a, "c15-true-without-accept", "request {k} resolved true but the peer application's decision was {answer:?} (enabled: {responder_enabled})");
                }
                if seen.get(&k).is_some_and(|s| s.5 > *ridx) {
                    viol!(a, "c15-true-before-decision", "request {k} resolved true before the peer application decided");
                }
            }
            Some((Ok(false), _)) => {
                if answer == Some("Accept") && !ended {
                    viol!(a, "c15-false-despite-accept", "request {k} resolved false although the peer application accepted it and the connection is alive");
                }
                if answer == Some("Hold") && !ended {
                    viol!(a, "c15-false-while-held", "request {k} resolved false while the peer application still holds it undecided");
                }
                if answer.is_none() && responder_enabled && !ended {
                    viol!(a, "c15-false-without-decision", "request {k} resolved false although the peer accepts bind requests, its application was never shown this request (so it neither rejected nor dropped it) and the connection is alive");
                }
                if answer == Some("Accept") && ended {
                    raced = true;
                }
            }
            Some((Err(e), _)) => {
                if !ended || e != "Closed" {
                    viol!(a, "c15-error-result", "request {k} failed with {e} (connection ended: {ended})");
                }
                raced = true;
            }
        }
    }
    // answered out of order with >= 2 outstanding?
    let order_on_wire: Vec<usize> = {
        let mut v: Vec<(usize, usize)> = wire.iter().map(|(k, w)| (w.4, *k)).collect();
        v.sort();
        v.into_iter().map(|x| x.1).collect()
    };
    for side in 0..2 {
        let asked: Vec<usize> = order_on_wire.iter().copied().filter(|k| case.binds[*k].side == side).collect();
        let answered: Vec<usize> = seen_order.iter().copied().filter(|k| case.binds[*k].side == side).collect();
        let asked_f: Vec<usize> = asked.iter().copied().filter(|k| answered.contains(k)).collect();
        if asked_f != answered && answered.len() >= 2 {
            out_of_order = true;
        }
    }
    if !ended {
        if let Err((sig, msg)) = a.integrity() {
            viol!(a, sig, "{msg}");
        }
    }
    let mut cl = vec![];
    if out_of_order {
        cl.push("answered-out-of-order");
    }
    if raced {
        cl.push("answer-raced-with-teardown");
    }
    if ended {
        cl.push("connection-ended");
    }
    if case.bind_policy.iter().any(|p| !p.enabled) {
        cl.push("binds-disabled-on-a-side");
    }
    // a Connect of the peer that proposed the flow id of a bind request still pending at that moment
    let mut collided = false;
    for (k, w) in &wire {
        let end_idx = resolved.get(k).and_then(|r| r.first()).map(|r| r.1).unwrap_or(usize::MAX);
        let side = case.binds[*k].side;
        if run.events.iter().enumerate().any(|(i, e)| i > w.4 && i < end_idx && matches!(&e.ev, Ev::Recv { side: s, msg: WMsg::Frame(RFrame::Connect { id, .. }) } if *s == side && *id == w.0)) {
            collided = true;
        }
    }
    if collided {
        cl.push("connect-collides-with-pending-bind");
    }
    Outcome::pass(out_of_order || raced || collided, cl)
}

/// reuse probe: the id of a resolved bind is proposed again by the next open
pub fn run_c15_reuse(case: &Case) -> Outcome {
    let run = run_case(case);
    if !run.quiescent {
        return inconclusive(&run);
    }
    let a = Analysis::new(case, &run);
    let bind_id = run.events.iter().find_map(|e| if let Ev::Sent { side: 0, msg: WMsg::Frame(RFrame::Bind { id, .. }), .. } = &e.ev { Some(*id) } else { None });
    if bind_id != Some(7) {
        viol!(a, "c15-harness", "bind did not use the scripted id: {bind_id:?}");
    }
    let resolved = run.app_events().any(|(_, e)| matches!(e, AppEv::BindResolved { .. }));
    if !resolved {
        viol!(a, "c15-never-resolved", "bind never resolved");
    }
    let cid = a.streams[0].connects.first().map(|c| c.1);
    if cid != Some(7) {
        viol!(a, "c15-id-not-released", "after the bind request on flow id 7 was resolved the endpoint still considers the id in use: the next open proposed {cid:?}");
    }
    if a.streams[0].open_ok_at.is_none() {
        viol!(a, "c15-reuse-open-failed", "open on the reused id failed: {:?}", a.streams[0].open_err);
    }
    Outcome::pass(true, vec!["reuse-probe"])
}

pub fn c15(ctx: &Ctx, rep: &mut Report) {
    rep.rule = "1-6 concurrent bind requests from either side (both types, hosts 0..300 bytes, all ports; a directed family requests every entry of the dictionary of meaningful hosts verbatim), responder policies {accept, reject, drop, hold} answered in batches in a generated permutation, binds disabled on a side, interleaved stream and datagram traffic (in half of the cases all flow ids of both sides come from one short list, so stream requests collide with pending bind requests), optional connection end at a generated step; \
                oracle: each request resolves at most once and (unless legitimately held) exactly once, true iff the peer application accepted that very request (matched by host tag and flow id on the wire), false for reject/drop/disabled, false or Closed after connection end; the responder sees exactly the requested type/host/port/flow id; \
                reuse probe: the id is proposed again by the next open. Non-trivial = >= 2 requests answered out of order, an answer racing with teardown, or a peer Connect on the id of a pending request. Distinct = distinct case value."
        .into();
    rep.assumptions = sim_assumptions();
    rep.assumptions.push("the responder drops a BindRequest only as the 'drop' answer; after reply() the request object is kept until the responder ends (BindRequest::drop always sends a Reset, documented behaviour)".into());
    let t = ctx.tier;
    ctx.prop(rep, "binds", t.pick(40_000, 1_200_000), 300, || with_keepalive(c15_case()), run_c15);
    // bind hosts that mean something to some layer, requested VERBATIM: the responder must be shown exactly these octets. Every
    // dictionary entry as a stream bind and as a datagram bind, accepted or rejected, next to an ordinary request and a stream
    ctx.enumerate(rep, "meaningful-hosts", 2 * vf_common::host_dictionary().len() as u64, 64, |i| {
        let dict = vf_common::host_dictionary();
        let k = (i as usize) % dict.len();
        let dgram = (i as usize / dict.len()) % 2 == 1;
        let side = k % 2;
        let k2 = (k + 53) % dict.len();
        let mut binds = vec![BindSpec { side, dgram, host: [VERBATIM_MARK, &dict[k][..]].concat(), port: 8080, delay: 0 }, BindSpec { side, dgram: !dgram, host: dict[k].clone(), port: 81, delay: 1 }];
        if dict[k2] != dict[k] {
            binds.push(BindSpec { side: 1 - side, dgram, host: [VERBATIM_MARK, &dict[k2][..]].concat(), port: 53, delay: 0 });
        }
        let bp = BindPolicy { answers: vec![if k % 3 == 0 { BindAnswer::Reject } else { BindAnswer::Accept }, BindAnswer::Accept, BindAnswer::Accept], batch: 1, order: vec![], enabled: true, ping_first: k % 5 == 0 };
        let mut o = OptsSpec::default();
        o.bind_buf = 4;
        Case { opts: [o.clone(), o], binds, bind_policy: [bp.clone(), bp], ..Case::default() }
    }, |c| {
        let mut o = run_c15(c);
        o.nontrivial = true;
        o.classes.push("meaningful-host-verbatim");
        o
    });
    // a bind request on the flow id of an EARLIER stream of the requester that the requester finished and dropped (its slot is gone, no
    // Reset was sent) while the responder's application still holds its half-closed end: ids are chosen from the requester's own
    // table only, the responder must show the request to its application and the answer must be the application's
    ctx.enumerate(rep, "id-of-a-half-closed-stream", 2 * 2 * 3, 12, |i| {
        let side = (i % 2) as usize;
        let dgram = (i / 2) % 2 == 1;
        let answer = [BindAnswer::Accept, BindAnswer::Reject, BindAnswer::DropIt][(i / 4) as usize % 3].clone();
        let mut o = OptsSpec::default();
        o.bind_buf = 4;
        let mut rng = [vec![], vec![]];
        rng[side] = vec![9, 9, 10];
        let old = StreamSpec { side, port: 7, pad: vec![], delay: 0, park: None, cancel: None, ends: [EndScript { w: vec![WOp::Write(2), WOp::Shutdown, WOp::Drop], r: vec![] }, EndScript { w: vec![WOp::Park(9)], r: vec![ROp::ToEof(16)] }] };
        let bp = BindPolicy { answers: vec![answer, BindAnswer::Accept], batch: 1, order: vec![], enabled: true, ping_first: false };
        Case { opts: [o.clone(), o], rng, streams: vec![old], binds: vec![BindSpec { side, dgram, host: b"again".to_vec(), port: 99, delay: 150 }, BindSpec { side, dgram: !dgram, host: b"next".to_vec(), port: 98, delay: 200 }], bind_policy: [bp.clone(), bp], ..Case::default() }
    }, |c| {
        let run = run_case(c);
        // the family is only meaningful if the bind request did reuse the stream's id
        let stream_id = run.events.iter().find_map(|e| if let Ev::Sent { msg: WMsg::Frame(RFrame::Connect { id, .. }), .. } = &e.ev { Some(*id) } else { None });
        let bind_ids: Vec<u32> = run.events.iter().filter_map(|e| if let Ev::Sent { msg: WMsg::Frame(RFrame::Bind { id, .. }), .. } = &e.ev { Some(*id) } else { None }).collect();
        let mut o = run_c15(c);
        if matches!(o.verdict, vf_common::Verdict::Pass) {
            if stream_id.is_some() && bind_ids.first() == stream_id.as_ref() {
                o.nontrivial = true;
                o.classes.push("bind-on-the-id-of-a-half-closed-stream");
            } else {
                o.classes.push("id-not-reused");
            }
        }
        o
    });
    // the connection ends (keepalive expiry) while the endpoint's own bind queue is full, its receive loop is parked on a further request
    // and yet another one is unread: its OWN pending bind request must still resolve (false or Closed) - shared with C08
    ctx.enumerate(rep, "bind-queue-full-at-connection-end", super::teardown::BIND_QUEUE_FULL_CASES, 4, super::teardown::bind_queue_full_case, super::teardown::run_bind_queue_full);
    // a harness-driven peer: other well-formed frames on the id of a pending bind request (a late credit frame of an earlier stream
    // with that id, a stray Push or Connect) arrive before the peer's actual answer; only the answer - Finish = accepted, Reset =
    // refused - decides the request, and other requests are untouched
    const STRAY: [&str; 6] = ["none", "ack1", "ack0", "connect", "ack1-ack1", "datagram"];
    ctx.enumerate(
        rep,
        "stray-frames-before-the-answer",
        (STRAY.len() * 2 * 2) as u64,
        10,
        |i| {
            let stray = (i % 6) as usize;
            let accept = (i / 6) % 2 == 0;
            let dgram = i / 12 == 1;
            let id = 7u32;
            let mut events = vec![];
            let inject = |events: &mut Vec<RawEvent>, msg: RawMsg| events.push(RawEvent { when: Trigger::Quiescent, what: What::Inject { from: 1, msg } });
            match STRAY[stray] {
                "ack1" => inject(&mut events, RawMsg::Ack { id, n: 1 }),
                "ack0" => inject(&mut events, RawMsg::Ack { id, n: 0 }),
                "connect" => inject(&mut events, RawMsg::Connect { id, rwnd: 3, port: 1, host: b"x".to_vec() }),
                "ack1-ack1" => {
                    inject(&mut events, RawMsg::Ack { id, n: 1 });
                    inject(&mut events, RawMsg::Ack { id, n: 1 });
                }
                "datagram" => inject(&mut events, RawMsg::Datagram { id, port: 5, host: b"d".to_vec(), data: vec![1] }),
                _ => {}
            }
            inject(&mut events, if accept { RawMsg::Finish { id } } else { RawMsg::Reset { id } });
            Case {
                opts: [OptsSpec::default(), OptsSpec::default()],
                rng: [vec![id], vec![]],
                binds: vec![BindSpec { side: 0, dgram, host: b"h".to_vec(), port: 1, delay: 0 }],
                dg_readers: [DgReader::Eager, DgReader::None],
                raw: Some(RawPolicy { reject_first: 0, ack_connects: None, ack_every: Some(1), answer_close: true, no_ack_streams: vec![] }),
                events,
                ..Case::default()
            }
        },
        |case| {
            let run = run_case(case);
            if !run.quiescent {
                return inconclusive(&run);
            }
            let a = Analysis::new(case, &run);
            let id = 7u32;
            if !run.events.iter().any(|e| matches!(&e.ev, Ev::Sent { side: 0, msg: WMsg::Frame(RFrame::Bind { id: i, .. }), .. } if *i == id)) {
                return Outcome::inconclusive("harness: the bind request did not use the scripted id");
            }
            let accept = case.events.iter().any(|e| matches!(&e.what, What::Inject { msg: RawMsg::Finish { .. }, .. }));
            let results: Vec<Result<bool, String>> = run.app_events().filter_map(|(_, e)| if let AppEv::BindResolved { result, .. } = e { Some(result.clone()) } else { None }).collect();
            let stray: Vec<String> = case.events.iter().filter_map(|e| if let What::Inject { msg, .. } = &e.what { Some(format!("{msg:?}")) } else { None }).collect();
            match results.as_slice() {
                [] => viol!(a, "c15-never-resolved", "frames from the peer: {stray:?}: the bind request never resolved"),
                [Ok(b)] if *b == accept => {}
                [r] => viol!(a, "c15-decided-by-a-stray-frame", "frames from the peer on the flow of the pending bind request: {stray:?}: the request resolved {r:?}, the peer's answer was {}", if accept { "Finish (accepted)" } else { "Reset (refused)" }),
                more => viol!(a, "c15-resolved-twice", "resolved {} times: {more:?}", more.len()),
            }
            if run.events.iter().any(|e| matches!(&e.ev, Ev::TaskExit { side: 0, .. })) {
                viol!(a, "c15-connection-ended", "the connection task ended");
            }
            Outcome::pass(stray.len() > 1, vec!["stray-frames-before-the-answer"])
        },
    );
    ctx.enumerate(
        rep,
        "reuse-probe",
        4 * 2,
        4,
        |i| {
            let ans = [BindAnswer::Accept, BindAnswer::Reject, BindAnswer::DropIt, BindAnswer::Accept][(i % 4) as usize].clone();
            let enabled = i < 4 || i % 4 != 3;
            let mut o1 = OptsSpec::default();
            o1.bind_buf = if enabled { 2 } else { 0 };
            Case {
                opts: [OptsSpec::default(), o1],
                rng: [vec![7, 7, 7, 7], vec![]],
                binds: vec![BindSpec { side: 0, dgram: i >= 4, host: b"h".to_vec(), port: 1, delay: 0 }],
                bind_policy: [BindPolicy::default(), BindPolicy { answers: vec![ans], batch: 1, order: vec![], enabled, ping_first: false }],
                streams: vec![StreamSpec { side: 0, port: 3, pad: vec![], delay: 0, park: Some(1), cancel: None, ends: [EndScript { w: vec![WOp::Write(2), WOp::Shutdown], r: vec![ROp::ToEof(8)] }, EndScript { w: vec![WOp::Shutdown], r: vec![ROp::ToEof(8)] }] }],
                events: vec![RawEvent { when: Trigger::Quiescent, what: What::Wake(1) }],
                ..Case::default()
            }
        },
        run_c15_reuse,
    );
}

// =================================================================== C11

fn c11_case() -> impl Strategy<Value = Case> {
    let dg = (
        0usize..2,
        prop_oneof![1 => Just(0u32), 4 => 0u32..8, 1 => any::<u32>()],
        prop_oneof![3 => prop::sample::select(vec![0u16, 1, 2, 254, 255, 256, 300]), 3 => 0u16..=300, 3 => 3u16..20, 2 => (0u16..200).prop_map(|k| DG_DICT as u16 + k)],
        prop_oneof![prop::sample::select(vec![0u16, 1, 53, 65535]), any::<u16>()],
        prop_oneof![6 => prop::sample::select(vec![0u32, 1, 2, 3, 4, 5]), 2 => Just(100u32), 1 => Just(1500u32), 1 => Just(65_535u32)],
        0u8..2,
    );
    let reader = prop_oneof![3 => Just(DgReader::Eager), 2 => Just(DgReader::AfterWake(1)), 2 => (0u8..4).prop_map(|k| DgReader::Intermittent(k, 1))];
    let sh = Shape { max_streams: 2, max_wops: 4, allow_empty: true, allow_drop: false, complete: true, small_windows: true, max_sched: 200 };
    (opts(true), opts(true), cap(), cap(), prop::collection::vec(dg, 1..=24), reader.clone(), reader, prop::collection::vec(stream_spec(sh), 0..=2), schedule(300)).prop_map(|(o0, o1, c0, c1, dgs, r0, r1, streams, schedule)| {
        let dgrams = dgs.into_iter().map(|(side, flow_id, host_len, port, data_len, delay)| DgSpec { side, flow_id, host_len, port, data_len, delay }).collect();
        Case {
            opts: [o0, o1],
            cap: [c0, c1],
            dgrams,
            dg_readers: [r0, r1],
            streams,
            events: vec![RawEvent { when: Trigger::Quiescent, what: What::Wake(1) }],
            schedule,
            // the streams get small flow ids (disjoint per side) so that datagram flow ids 1..7 coincide with open streams:
            // datagrams share the id space but must never disturb a stream with the same id
            rng: [vec![1, 3, 5, 7], vec![2, 4, 6]],
            ..Case::default()
        }
    })
}

pub fn run_c11(case: &Case) -> Outcome {
    run_c11_with(case, true)
}
/// `streams_complete` = false: the stream scripts of the case are not of the "everybody reads to the end" kind (the open/close
/// cycles of C06 end some readers early by design), so the clause that every stream task must have finished is left to C06
pub fn run_c11_with(case: &Case, streams_complete: bool) -> Outcome {
    let run = run_case(case);
    if !run.quiescent {
        return inconclusive(&run);
    }
    let a = Analysis::new(case, &run);
    if let Some(c) = a.conn_end_at {
        viol!(a, "c11-connection-ended", "the connection ended at event {c} although only datagrams and well-formed stream traffic were exchanged: {}", fmt_ev(&run.events[c].ev));
    }
    // (the stream oracles apply to workloads whose streams are C11's own; the open/close cycles borrowed from C06 reuse flow ids under
    // that property's preconditions - how an endpoint turns random draws into ids is unspecified, and C06 itself sorts out the
    // executions in which an id comes back while a handle of its previous stream is still held -, so there only the datagram clauses
    // and "the connection stays up" are judged)
    if streams_complete {
        if let Err((sig, msg)) = a.integrity().and_then(|_| a.credit().map(|_| ())).and_then(|_| a.end_of_stream()) {
            viol!(a, format!("c11-streams:{sig}"), "{msg}");
        }
    }
    let stuck = a.unfinished(perpetual);
    if !stuck.is_empty() && streams_complete {
        viol!(a, "c11-streams-stalled", "stream tasks {stuck:?} did not finish next to datagram traffic");
    }
    let mut boundary = false;
    let mut overflow = false;
    for side in 0..2 {
        // accepted-and-sent list of `side`, in order
        let mut sent = vec![];
        for (_, e) in run.app_events() {
            if let AppEv::DgSent { side: s, idx, ok } = e {
                if *s != side {
                    continue;
                }
                let d = &case.dgrams[*idx];
                let hl = dg_host_len(d.host_len as usize);
                if hl > 255 {
                    if ok.as_ref().err().map(String::as_str) != Some("DatagramHostTooLong") {
                        viol!(a, "c11-long-host-accepted", "datagram {idx} with a {hl}-byte host returned {ok:?}");
                    }
                    boundary = true;
                } else {
                    if let Err(e) = ok {
                        viol!(a, "c11-send-refused", "datagram {idx} (host {} bytes, payload {} bytes) refused: {e}", hl, d.data_len);
                    }
                    sent.push((d.flow_id, dg_host(*idx, d.host_len as usize), d.port, dg_data(*idx, d.data_len as usize)));
                    if matches!(hl, 0 | 1 | 255) || d.data_len <= 3 || d.host_len as usize >= DG_DICT {
                        boundary = true;
                    }
                }
            }
        }
        // wire: exactly the accepted ones, in order
        let wire: Vec<_> = run
            .events
            .iter()
            .filter_map(|e| if let Ev::Sent { side: s, msg: WMsg::Frame(RFrame::Datagram { id, port, host, data }), .. } = &e.ev { if *s == side { Some((*id, host.clone(), *port, data.clone())) } else { None } } else { None })
            .collect();
        if wire != sent {
            viol!(a, "c11-wire-mismatch", "side {side}: {} datagrams accepted by send_datagram, {} Datagram frames on the wire (or fields/order differ)", sent.len(), wire.len());
        }
        let got: Vec<_> = run
            .app_events()
            .filter_map(|(_, e)| if let AppEv::DgRecv { side: s, flow_id, host, port, data } = e { if *s == 1 - side { Some((*flow_id, host.clone(), *port, data.clone())) } else { None } } else { None })
            .collect();
        // subsequence
        let mut j = 0;
        for g in &got {
            while j < sent.len() && sent[j] != *g {
                j += 1;
            }
            if j == sent.len() {
                viol!(a, "c11-not-a-subsequence", "side {} received datagram (flow {:08x}, host {} bytes, port {}, payload {} bytes) that is not the next of what side {side} sent: modified, duplicated or reordered", 1 - side, g.0, g.1.len(), g.2, g.3.len());
            }
            j += 1;
        }
        let capn = case.opts[1 - side].dgram_buf;
        let has_reader = !matches!(case.dg_readers[1 - side], DgReader::None);
        if has_reader {
            if sent.len() <= capn && got.len() != sent.len() {
                viol!(a, "c11-lost-without-overflow", "side {side} sent {} datagrams, the receiver's buffer holds {capn}, but only {} arrived", sent.len(), got.len());
            }
            if got.len() < sent.len().min(capn) {
                viol!(a, "c11-lost-too-many", "side {side} sent {} datagrams, buffer {capn}: only {} arrived", sent.len(), got.len());
            }
            if let DgReader::AfterWake(_) = case.dg_readers[1 - side] {
                // idle during the burst: exactly the first `capacity` arrive
                let want: Vec<_> = sent.iter().take(capn).cloned().collect();
                if got != want {
                    viol!(a, "c11-overflow-policy", "idle receiver with buffer {capn}: expected exactly the first {} datagrams, got {} (first differing kept/dropped)", want.len(), got.len());
                }
            }
            if sent.len() > capn {
                overflow = true;
            }
        }
    }
    let mut cl = vec![];
    if boundary {
        cl.push("boundary-field");
    }
    if overflow {
        cl.push("burst-exceeds-buffer");
    }
    if !case.streams.is_empty() {
        cl.push("with-stream-traffic");
        // a Datagram frame on the wire whose flow id is that of a stream opened on this connection
        let stream_ids: std::collections::HashSet<u32> = run.events.iter().filter_map(|e| if let Ev::Sent { msg: WMsg::Frame(RFrame::Connect { id, .. }), .. } = &e.ev { Some(*id) } else { None }).collect();
        if run.events.iter().any(|e| matches!(&e.ev, Ev::Sent { msg: WMsg::Frame(RFrame::Datagram { id, .. }), .. } if stream_ids.contains(id))) {
            cl.push("datagram-id-equals-stream-id");
            if overflow {
                cl.push("overflow-with-shared-id");
            }
        }
    }
    Outcome::pass(boundary || overflow, cl)
}

// ------------------------------------------------------------------ C11 soak: very many datagrams over one connection

/// transport of one real endpoint whose peer sends `n` Datagram frames, the next one only after the application has taken the previous
/// one out (so the receiver's buffer never holds more than one), and records what the endpoint sends
struct SoakWs {
    n: u64,
    produced: u64,
    taken: std::sync::Arc<std::sync::atomic::AtomicU64>,
    waker: std::sync::Arc<std::sync::Mutex<Option<std::task::Waker>>>,
    host_len: usize,
    sent_other: std::sync::Arc<std::sync::atomic::AtomicU64>,
    closed: bool,
}
fn soak_fields(k: u64, host_len: usize) -> (u32, Vec<u8>, u16, Vec<u8>) {
    let host: Vec<u8> = (0..host_len).map(|i| (vf_common::splitmix(k ^ ((i as u64) << 32)) >> 11) as u8).collect();
    ((k as u32).wrapping_mul(2_654_435_761), host, (k % 65_536) as u16, (k as u32).to_be_bytes()[..(k % 5) as usize].to_vec())
}
impl penguin_mux::ws::WebSocket for SoakWs {
    fn poll_ready_unpin(&mut self, _cx: &mut std::task::Context<'_>) -> std::task::Poll<Result<(), penguin_mux::Error>> {
        std::task::Poll::Ready(Ok(()))
    }
    fn start_send_unpin(&mut self, item: penguin_mux::ws::Message) -> Result<(), penguin_mux::Error> {
        if !matches!(item, penguin_mux::ws::Message::Close) {
            self.sent_other.fetch_add(1, std::sync::atomic::Ordering::SeqCst);
        }
        Ok(())
    }
    fn poll_flush_unpin(&mut self, _cx: &mut std::task::Context<'_>) -> std::task::Poll<Result<(), penguin_mux::Error>> {
        std::task::Poll::Ready(Ok(()))
    }
    fn poll_close_unpin(&mut self, _cx: &mut std::task::Context<'_>) -> std::task::Poll<Result<(), penguin_mux::Error>> {
        self.closed = true;
        std::task::Poll::Ready(Ok(()))
    }
    fn poll_next_unpin(&mut self, cx: &mut std::task::Context<'_>) -> std::task::Poll<Option<Result<penguin_mux::ws::Message, penguin_mux::Error>>> {
        if self.closed {
            return std::task::Poll::Ready(None);
        }
        if self.produced < self.n && self.produced == self.taken.load(std::sync::atomic::Ordering::SeqCst) {
            let (id, host, port, data) = soak_fields(self.produced, self.host_len);
            self.produced += 1;
            let f = penguin_mux::frame::Frame::new_datagram(id, &host, port, &data);
            return std::task::Poll::Ready(Some(Ok(penguin_mux::ws::Message::Binary(bytes::Bytes::from(Vec::from(&f))))));
        }
        *self.waker.lock().unwrap() = Some(cx.waker().clone());
        std::task::Poll::Pending
    }
}
/// (number of datagrams, host length): every single one must come out of `get_datagram` unchanged - the buffer is never full and the
/// connection stays up, so nothing may be lost however long the connection has been in use
fn run_soak(c: &(u64, usize)) -> Outcome {
    use rand::SeedableRng;
    use std::sync::atomic::Ordering as O;
    let (n, host_len) = *c;
    let rt = tokio::runtime::Builder::new_current_thread().enable_time().start_paused(true).build().expect("runtime");
    let taken = std::sync::Arc::new(std::sync::atomic::AtomicU64::new(0));
    let waker = std::sync::Arc::new(std::sync::Mutex::new(None::<std::task::Waker>));
    let sent_other = std::sync::Arc::new(std::sync::atomic::AtomicU64::new(0));
    let ws = SoakWs { n, produced: 0, taken: taken.clone(), waker: waker.clone(), host_len, sent_other: sent_other.clone(), closed: false };
    let r: Result<(), (String, String)> = rt.block_on(async {
        let (mux, taskdata) = penguin_mux::Multiplexor::new_detailed::<_, std::time::Instant>(ws, penguin_mux::config::Options::new().datagram_buffer_size(4), rand::rngs::SmallRng::seed_from_u64(3));
        let task = tokio::spawn(taskdata.into_task());
        for k in 0..n {
            let d = match tokio::time::timeout(std::time::Duration::from_secs(3600), mux.get_datagram()).await {
                Ok(Ok(d)) => d,
                Ok(Err(e)) => return Err(("c11-soak-connection-ended".to_string(), format!("get_datagram failed with {e:?} after {k} of {n} datagrams (task finished: {})", task.is_finished()))),
                Err(_) => return Err(("c11-lost-without-overflow:soak".to_string(), format!("datagram {k} of {n} (hosts of {host_len} bytes, sent one at a time: the receiver's buffer is empty) never came out of get_datagram: it was dropped although the buffer is not full and the connection is up"))),
            };
            let (id, host, port, data) = soak_fields(k, host_len);
            if d.flow_id != id || d.target_host.as_ref() != host.as_slice() || d.target_port != port || d.data.as_ref() != data.as_slice() {
                return Err(("c11-not-a-subsequence:soak".to_string(), format!("datagram {k} of {n} came out as (flow {:08x}, host {} bytes, port {}, payload {} bytes), sent as (flow {id:08x}, host {host_len} bytes, port {port}, payload {} bytes)", d.flow_id, d.target_host.len(), d.target_port, d.data.len(), data.len())));
            }
            taken.fetch_add(1, O::SeqCst);
            if let Some(w) = waker.lock().unwrap().take() {
                w.wake();
            }
        }
        if task.is_finished() {
            return Err(("c11-connection-ended".to_string(), format!("the connection task ended during a flow of {n} datagrams")));
        }
        drop(mux);
        let _ = tokio::time::timeout(std::time::Duration::from_secs(60), task).await;
        Ok(())
    });
    match r {
        Err((sig, msg)) => Outcome::violation(sig, msg),
        Ok(()) => Outcome::pass(true, vec!["soak-one-connection-many-datagrams"]),
    }
}

pub fn c11(ctx: &Ctx, rep: &mut Report) {
    rep.rule = "1-24 datagrams from either side over the full field domain (flow ids incl. 0 and the ids of the streams open on the same connection, host length 0..300 of arbitrary octets or an entry of a dictionary of 130 hosts that mean something to some layer - IP literals in every notation, bracketed IPv6 literals, names with ports, letter case, dots, control characters -, all ports, payload length {0..5,100,1500,65535}), datagram_buffer_size in {1,2,8,512}, receivers eager / idle during the burst / intermittent, 0-2 complete streams on the same connection; a soak family (1 - 2 million datagrams in the quick tier, 10 - 30 million in the thorough tier, one at a time over one connection on a real tokio runtime, hosts of 255 / 11 / 0 bytes: not one may be lost); a family in which the open/close cycles of C06 (every close order incl. aborts by either side, ids that come back) are followed by datagrams in both directions on the ids those streams used; \
                oracle: host > 255 refused with DatagramHostTooLong and nothing on the wire, received list is a subsequence of the sent list with all four fields equal, loss only on buffer overflow (idle receiver: exactly the first `capacity`), the connection never ends and streams complete with C02/C03/C05 oracles. \
                Non-trivial = a host or payload at a boundary (host 0/1/255/>255, payload 0-3) or a burst larger than the buffer. Distinct = distinct case value."
        .into();
    rep.assumptions = sim_assumptions();
    ctx.prop(rep, "datagrams", ctx.tier.pick(40_000, 1_200_000), 300, || with_keepalive(c11_case()), run_c11);
    // datagram flow ids are a space of their own: a datagram may carry the number of a stream that is open, that was finished, or that
    // either side aborted a moment ago (PROTOCOL.md). The open/close cycles of C06 (every close order, scripted ids that come back)
    // followed, at the final quiescent point, by datagrams in both directions on the ids those streams used: every one must arrive
    ctx.prop(rep, "ids-of-ended-streams", ctx.tier.pick(8_000, 300_000), 200, || {
        (c06_case(), prop::collection::vec((0usize..2, 1u32..17, 0u16..4, 0u32..5), 1..=6)).prop_map(|(mut c, dgs)| {
            let last_wake = c.events.iter().filter_map(|e| if let What::Wake(n) = e.what { Some(n) } else { None }).max().unwrap_or(1);
            c.dgrams = dgs.into_iter().map(|(side, flow_id, host_len, data_len)| DgSpec { side, flow_id, host_len: 4 + host_len, port: 53, data_len, delay: DG_PARK + last_wake }).collect();
            c.opts[0].dgram_buf = 8;
            c.opts[1].dgram_buf = 8;
            c.dg_readers = [DgReader::Eager, DgReader::Eager];
            c
        })
    }, |c| {
        let mut o = run_c11_with(c, false);
        if matches!(o.verdict, vf_common::Verdict::Pass) {
            o.nontrivial = true;
            o.classes.push("datagrams-on-ids-of-ended-streams");
        }
        o
    });
    // long use of one connection: hundreds of thousands (thorough: millions) of datagrams, one at a time, on a real tokio runtime
    {
        let sizes: Vec<(u64, usize)> = if matches!(ctx.tier, vf_common::Tier::Thorough) { vec![(10_000_000, 255), (20_000_000, 11), (30_000_000, 0), (300_000, 255)] } else { vec![(1_000_000, 255), (1_500_000, 11), (2_000_000, 0)] };
        let n = sizes.len() as u64;
        ctx.enumerate(rep, "soak", n, n, move |i| sizes[i as usize], run_soak);
    }
    // every host of the dictionary of hosts that mean something to some layer, as the whole target host of a datagram from either side
    ctx.enumerate(rep, "meaningful-hosts", vf_common::host_dictionary().len() as u64, 64, |i| {
        let n = vf_common::host_dictionary().len() as u64;
        let dgrams = (0..4u64).map(|j| DgSpec { side: ((i + j) % 2) as usize, flow_id: (j as u32) * 0x0101_0101, host_len: (DG_DICT as u64 + (i + 31 * j) % n) as u16, port: 53 + j as u16, data_len: j as u32 * 3, delay: 0 }).collect();
        let mut o = OptsSpec::default();
        o.dgram_buf = 8;
        Case { opts: [o.clone(), o], dgrams, dg_readers: [DgReader::Eager, DgReader::Eager], ..Case::default() }
    }, |c| {
        let mut o = run_c11(c);
        o.nontrivial = true;
        o.classes.push("meaningful-host-verbatim");
        o
    });
    // with keepalive configured (clock engine of C16, exact virtual time): a steady one-way datagram flow to a live peer
    ctx.enumerate(rep, "datagram-flow-with-keepalive", super::keepalive::DATAGRAM_FLOW_CASES, 6, super::keepalive::datagram_flow_case, super::keepalive::check_datagram_flow);
}
