//! C02 integrity, C03 credit accounting, C04 progress, C05 end-of-stream.
use super::gens::*;
use crate::engine::*;
use crate::oracle::*;
use crate::run::*;
use crate::world::*;
use proptest::prelude::*;
use vf_common::{Ctx, Outcome, Report};

fn inconclusive(run: &RunResult) -> Outcome {
    Outcome::inconclusive(format!("step bound {} reached; last events: {}", STEP_BOUND, run.tail(12)))
}

fn has_empty_write(case: &Case) -> bool {
    case.streams.iter().any(|s| s.ends.iter().any(|e| e.w.iter().any(|w| matches!(w, WOp::Write(0)) || matches!(w, WOp::WriteV(v) if v.iter().all(|x| *x == 0)))))
}

fn common_classes(case: &Case, a: &Analysis<'_>) -> (Vec<&'static str>, bool, bool, bool, usize) {
    let mut cl = vec![];
    let established = a.streams.iter().filter(|s| s.open_ok_at.is_some()).count();
    let blocked = a.streams.iter().any(|s| s.ends.iter().any(|e| e.blocked));
    let vectored = a.streams.iter().any(|s| s.ends.iter().any(|e| e.vectored_writes > 0));
    let delivered: usize = a.streams.iter().map(|s| s.ends[0].total_read() + s.ends[1].total_read()).sum();
    if established >= 2 {
        cl.push("multi-stream");
    }
    if blocked {
        cl.push("writer-blocked-on-credit");
    }
    if vectored {
        cl.push("vectored");
    }
    if case.cap.iter().any(|c| c.is_some()) {
        cl.push("link-backpressure");
    }
    if case.opts[0] != case.opts[1] {
        cl.push("asymmetric-options");
    }
    if has_empty_write(case) {
        cl.push("empty-write");
    }
    if !case.schedule.is_empty() {
        cl.push("generated-schedule");
    }
    (cl, established >= 2, blocked, vectored, delivered)
}

pub fn run_c02(case: &Case) -> Outcome {
    let run = run_case(case);
    if !run.quiescent {
        return inconclusive(&run);
    }
    let a = Analysis::new(case, &run);
    if let Err((sig, msg)) = a.integrity() {
        return Outcome::violation(sig, format!("{msg} | tail: {}", a.ctx(14)));
    }
    let (cl, multi, blocked, vectored, delivered) = common_classes(case, &a);
    Outcome::pass((multi || blocked || vectored) && delivered > 0, cl)
}

pub fn c02(ctx: &Ctx, rep: &mut Report) {
    rep.rule = "stream workload on two real Multiplexors in simnet (options per side, link capacity, 1-4 streams from either side, writer/reader scripts incl. vectored, empty and \
                window-exceeding bursts, generated schedule then fair run to quiescence), plus a family in which one end is driven by the CopyBidirectional bridge against a scripted local socket, plus a directed family of single writes of 64 KiB ± 1, 1 MiB ± a few, 3 MiB and 5 MiB (plain and vectored in five layouts); oracle: every byte read equals f(stream,direction,offset), reads never run ahead of completed writes, \
                equality at EOF after a clean shutdown. Non-trivial = (>=2 streams established, or a writer blocked on credit, or a vectored write) and >=1 byte delivered. Distinct = distinct case value."
        .into();
    rep.assumptions = sim_assumptions();
    let sh = Shape { max_streams: 4, max_wops: 8, allow_empty: true, allow_drop: true, complete: false, small_windows: true, max_sched: 400 };
    ctx.prop(rep, "integrity", ctx.tier.pick(80_000, 3_000_000), 300, || stream_workload(sh), run_c02);
    // a second stream on the flow id of a stream that both ends finished (or one end, or nobody) while the application still holds
    // the old handle: refused, or intact to its own end-of-stream whatever is done with the old handle (same cases as C06's
    // stale-handle family without the Reset-ended histories, which are that property's open finding)
    ctx.prop(rep, "integrity-id-reuse-held-handle", ctx.tier.pick(10_000, 300_000), 0, super::conn::finished_handle_case, super::conn::run_c06_stale);
    // sizes the random workloads do not reach: one write (plain or vectored in several layouts) around the u16 boundary and
    // around and above 1 MiB, followed by a small write, a shutdown, and a reader that reads to end-of-stream
    const BIG: [u32; 8] = [65_535, 65_536, 65_537, (1 << 20) - 5, 1 << 20, (1 << 20) + 1, 3 << 20, (5 << 20) + 7];
    ctx.enumerate(rep, "large-writes", (BIG.len() * 5 * 2) as u64, 6, |i| {
        let s = BIG[(i % 8) as usize];
        let flavour = (i / 8) % 5;
        let side = (i / 40) as usize;
        let big = match flavour {
            0 => WOp::Write(s),
            1 => WOp::WriteV(vec![s / 2, s - s / 2]),
            2 => WOp::WriteV(vec![1, s - 1]),
            3 => WOp::WriteV(vec![s / 3, s / 3, s - 2 * (s / 3)]),
            _ => {
                let mut v = vec![s / 40; 39];
                v.push(s - 39 * (s / 40));
                WOp::WriteV(v)
            }
        };
        Case {
            opts: [OptsSpec { rwnd: 4, thr: 2, ..OptsSpec::default() }, OptsSpec { rwnd: 3, thr: 1, ..OptsSpec::default() }],
            streams: vec![StreamSpec { side, port: 80, pad: vec![], delay: 0, park: None, cancel: None, ends: [EndScript { w: vec![WOp::Write(2), big, WOp::Write(3), WOp::Shutdown], r: vec![ROp::ToEof(65_536)] }, EndScript { w: vec![WOp::Write(1), WOp::Shutdown], r: vec![ROp::Read(7), ROp::ToEof(1 << 20)] }] }],
            ..Case::default()
        }
    }, run_c02);
    // the same workloads with the connection ending at a generated step (a Multiplexor dropped on either side, a Close from the peer):
    // what a reader gets stays a prefix of what was written - no hole, nothing twice - and after a clean shutdown that was completed
    // before a local drop the sequences are equal (C08 promises the flush)
    ctx.prop(
        rep,
        "integrity-connection-end",
        ctx.tier.pick(30_000, 1_000_000),
        200,
        || {
            (stream_workload(sh), 0u32..160, 0usize..3).prop_map(|(mut c, step, kind)| {
                let what = match kind {
                    0 => What::DropMux { side: 0 },
                    1 => What::DropMux { side: 1 },
                    _ => What::Inject { from: 1, msg: RawMsg::Close },
                };
                c.events.push(RawEvent { when: Trigger::FromStep(step), what });
                c
            })
        },
        |c| {
            let mut o = run_c02(c);
            if matches!(o.verdict, vf_common::Verdict::Pass) {
                // bytes whose Push frames REACHED the reading endpoint before its connection task finished belong to the stream: the reader
                // must get them before its end-of-stream ("reads to end-of-stream => the two byte sequences are equal" cannot be blamed
                // on the connection end for bytes that did arrive)
                let run = run_case(c);
                let a = Analysis::new(c, &run);
                if let Err((sig, msg)) = a.end_of_stream() {
                    if sig == "c05-delivered-data-lost" {
                        return Outcome::violation("c02-bytes-that-arrived-not-readable", format!("{msg} | tail: {}", a.ctx(14)));
                    }
                }
            }
            o.classes.push("connection-ended");
            o
        },
    );
    ctx.enumerate(rep, "large-window", LARGE_WINDOW_CASES, 4, large_window_case, |case| {
        let mut o = run_c02(case);
        o.classes.push("window-300-to-70000");
        o.nontrivial = true;
        o
    });
    // the other way applications move bytes through a stream: the CopyBidirectional bridge (every TCP entry point of the
    // client and the server's forwarder use it) between a scripted local side and a real peer application
    ctx.prop(rep, "bridged", ctx.tier.pick(30_000, 1_000_000), 300, || with_keepalive(super::bridge::c13_case()), |case| {
        let run = run_case(case);
        if !run.quiescent {
            return inconclusive(&run);
        }
        let a = Analysis::new(case, &run);
        if let Err((sig, msg)) = a.integrity() {
            return Outcome::violation(format!("bridged:{sig}"), format!("{msg} | bridge {:?} | tail: {}", case.bridges[0], a.ctx(14)));
        }
        let delivered: usize = a.streams.iter().map(|s| s.ends[0].total_read() + s.ends[1].total_read()).sum();
        Outcome::pass(delivered > 0, vec!["bridged-end"])
    });
}

pub fn run_c03(case: &Case) -> Outcome {
    let run = run_case(case);
    if !run.quiescent {
        return inconclusive(&run);
    }
    let a = Analysis::new(case, &run);
    match a.credit() {
        Err((sig, msg)) => Outcome::violation(sig, format!("{msg} | tail: {}", a.ctx(14))),
        Ok((zero_hits, _flows)) => {
            let (mut cl, ..) = common_classes(case, &a);
            if zero_hits > 0 {
                cl.push("sender-reached-zero-credit");
            }
            Outcome::pass(zero_hits > 0, cl)
        }
    }
}

pub fn c03(ctx: &Ctx, rep: &mut Report) {
    rep.rule = "stream workload weighted to windows 1-5 and asymmetric pairs (plus a family with one end driven by the CopyBidirectional bridge); black-box accounting on the wire per flow and direction: Push sent - credit received <= advertised window at every Push, \
                one Push per successful non-empty write, acknowledged frames <= frames the application pulled, no Reset on a flow both applications hold. Non-trivial = a sender reached zero credit. Distinct = distinct case value."
        .into();
    rep.assumptions = sim_assumptions();
    let sh = Shape { max_streams: 3, max_wops: 10, allow_empty: true, allow_drop: false, complete: false, small_windows: true, max_sched: 400 };
    ctx.prop(rep, "credit", ctx.tier.pick(80_000, 3_000_000), 300, || stream_workload(sh), run_c03);
    // the bridge takes credit through its own path (poll_write_us): same accounting on the wire
    ctx.prop(rep, "credit-bridged", ctx.tier.pick(30_000, 1_000_000), 300, || with_keepalive(super::bridge::c13_case()), |case| {
        let mut o = run_c03(case);
        o.classes.push("bridged-end");
        o
    });
    ctx.enumerate(rep, "credit-large-window", LARGE_WINDOW_CASES, 4, large_window_case, |case| {
        let mut o = run_c03(case);
        o.classes.push("window-300-to-70000");
        o.nontrivial = true;
        o
    });
    // writes of 64 KiB .. 3 MiB into a window of 4 with a reader that starts late: one frame and one unit of credit per write
    ctx.enumerate(rep, "credit-large-writes", LARGE_WRITE_LAG_CASES, 4, large_write_lag_case, |case| {
        let mut o = run_c03(case);
        o.classes.push("writes-64KiB-to-3MiB-lagging-reader");
        o.nontrivial = true;
        o
    });
    // ... also when the local side has megabytes ready at once (the bridge coalesces them into very large frames)
    ctx.enumerate(rep, "credit-bridged-burst", super::bridge::BURST_CASES, 2, super::bridge::burst_case, |case| {
        let mut o = run_c03(case);
        o.classes.push("bridged-large-burst");
        o.nontrivial = true;
        o
    });
}

// ---------------------------------------------------------------- C04

/// all writes complete, all bytes readable
fn progress_verdict(case: &Case, run: &RunResult, victim: Option<usize>) -> Result<(), (String, String)> {
    let a = Analysis::new(case, run);
    if a.conn_end_at.is_some() {
        return Err(("c04-connection-ended".into(), format!("the connection ended although nothing failed: {}", a.ctx(10))));
    }
    a.integrity()?;
    let stuck = a.unfinished(|n| perpetual(n) || victim.is_some_and(|v| n.starts_with(&format!("s{v}e"))));
    if !stuck.is_empty() {
        let which = &stuck[0];
        let what = if which.ends_with('w') { "writer" } else if which.ends_with('r') { "reader" } else { "operation" };
        return Err((
            format!("c04-stall:{what}"),
            format!(
                "quiescent (no runnable task, nothing in flight) with unfinished {stuck:?} although every receiving application keeps reading; options A={:?} B={:?}; tail: {}",
                case.opts[0],
                case.opts[1],
                a.ctx(16)
            ),
        ));
    }
    for (i, s) in a.streams.iter().enumerate() {
        if Some(i) == victim {
            continue;
        }
        if s.open_ok_at.is_none() {
            return Err(("c04-open-failed".into(), format!("stream {i} was not established: {:?}", s.open_err)));
        }
        for end in 0..2 {
            let w = s.ends[end].total_written();
            let r = s.ends[1 - end].total_read();
            let want: usize = case.streams[i].ends[end].w.iter().map(|o| match o { WOp::Write(n) => *n as usize, WOp::WriteV(v) => v.iter().map(|x| *x as usize).sum(), _ => 0 }).sum();
            if w != want || r != want {
                return Err(("c04-bytes-missing".into(), format!("stream {i} direction {end}: script writes {want} bytes, {w} accepted, {r} read by the peer")));
            }
        }
    }
    Ok(())
}

pub fn run_c04a(case: &Case) -> Outcome {
    let run = run_case(case);
    if !run.quiescent {
        return inconclusive(&run);
    }
    if let Err((sig, msg)) = progress_verdict(case, &run, None) {
        return Outcome::violation(sig, msg);
    }
    let a = Analysis::new(case, &run);
    let (mut cl, ..) = common_classes(case, &a);
    // non-trivial: a burst longer than the peer's window with differing (rwnd, thr) pairs
    let mut burst = false;
    for s in &case.streams {
        for end in 0..2 {
            let writes = s.ends[end].w.iter().filter(|o| matches!(o, WOp::Write(n) if *n > 0) || matches!(o, WOp::WriteV(v) if v.iter().any(|x| *x > 0))).count() as u32;
            let peer_side = if end == 0 { 1 - s.side } else { s.side };
            if writes > case.opts[peer_side].rwnd {
                burst = true;
            }
        }
    }
    let asym = (case.opts[0].rwnd, case.opts[0].thr) != (case.opts[1].rwnd, case.opts[1].thr);
    if burst {
        cl.push("burst-longer-than-window");
    }
    if case.opts.iter().any(|o| o.thr > o.rwnd) {
        cl.push("threshold-above-window");
    }
    Outcome::pass(burst && asym, cl)
}

/// the 64x64 matrix of (rwnd,thr) pairs: one stream, bursts both ways
fn matrix_case(i: u64) -> Case {
    let a = (i / 64) as usize;
    let b = (i % 64) as usize;
    let o = |k: usize| OptsSpec { rwnd: WINDOWS[k / 8], thr: WINDOWS[k % 8], stream_buf: 16, dgram_buf: 8, bind_buf: 0, retries: 3 };
    let (oa, ob) = (o(a), o(b));
    let burst = |peer: &OptsSpec, me: &OptsSpec| -> Vec<WOp> {
        let n = (peer.rwnd.max(me.rwnd) * 2 + 3).min(140) as usize;
        let mut v = vec![WOp::Write(1); n];
        v.push(WOp::Shutdown);
        v
    };
    Case {
        opts: [oa.clone(), ob.clone()],
        streams: vec![StreamSpec {
            side: 0,
            port: 80,
            pad: vec![],
            delay: 0,
            park: None, cancel: None,
            ends: [EndScript { w: burst(&ob, &oa), r: vec![ROp::ToEof(64)] }, EndScript { w: burst(&oa, &ob), r: vec![ROp::ToEof(1)] }],
        }],
        ..Case::default()
    }
}

pub fn run_c04b(case: &Case) -> Outcome {
    // stream 0 is the victim: its acceptor-end reader never reads (or reads once)
    let run = run_case(case);
    if !run.quiescent {
        return inconclusive(&run);
    }
    if let Err((sig, msg)) = progress_verdict(case, &run, Some(0)) {
        return Outcome::violation(format!("{sig}:bystander"), format!("(victim stream 0 has an absent reader) {msg}"));
    }
    let a = Analysis::new(case, &run);
    // everything else: datagrams sent and (buffer permitting) received, binds resolved
    let sent = run.app_events().filter(|(_, e)| matches!(e, AppEv::DgSent { ok: Ok(()), .. })).count();
    let recvd = run.app_events().filter(|(_, e)| matches!(e, AppEv::DgRecv { .. })).count();
    if sent != case.dgrams.len() || recvd != sent {
        return Outcome::violation("c04-datagrams-stalled", format!("{} datagrams, {sent} sent, {recvd} received while a stream reader is absent; tail: {}", case.dgrams.len(), a.ctx(12)));
    }
    let resolved = run.app_events().filter(|(_, e)| matches!(e, AppEv::BindResolved { .. })).count();
    if resolved != case.binds.len() {
        return Outcome::violation("c04-bind-stalled", format!("{} bind requests, {resolved} resolved", case.binds.len()));
    }
    let victim_blocked = a.streams[0].ends[0].blocked;
    let mut cl = vec!["victim"];
    if victim_blocked {
        cl.push("victim-writer-blocked");
    }
    if !case.dgrams.is_empty() {
        cl.push("datagrams");
    }
    if !case.binds.is_empty() {
        cl.push("bind");
    }
    Outcome::pass(victim_blocked && case.streams.len() > 1, cl)
}

fn victim_workload() -> impl Strategy<Value = Case> {
    let sh = Shape { max_streams: 3, max_wops: 8, allow_empty: true, allow_drop: false, complete: true, small_windows: true, max_sched: 300 };
    (opts(true), opts(true), cap(), cap(), prop::collection::vec(stream_spec(sh), 0..=3), 0usize..2, 0u32..3, prop::bool::ANY, 0usize..4, prop::bool::ANY, schedule(300)).prop_map(
        |(o0, o1, c0, c1, mut others, vside, vreads, vfill, ndg, bind, schedule)| {
            // the victim's writer sends more than the window plus what one read frees
            let peer_rwnd = if vside == 0 { o1.rwnd } else { o0.rwnd };
            let n = (peer_rwnd + 4 + vreads) as usize;
            let mut r = vec![];
            for _ in 0..vreads.min(1) {
                r.push(if vfill { ROp::Fill(1) } else { ROp::Read(1) });
            }
            let victim = StreamSpec {
                side: vside,
                port: 1,
                pad: vec![],
                delay: 0,
                park: None, cancel: None,
                ends: [EndScript { w: vec![WOp::Write(2); n], r: vec![] }, EndScript { w: vec![], r }],
            };
            // later activity: delay the others a little so that they start after the victim
            for (k, s) in others.iter_mut().enumerate() {
                s.delay = s.delay.max(2 + k as u8);
            }
            let mut streams = vec![victim];
            streams.extend(others);
            let dgrams = (0..ndg).map(|k| DgSpec { side: k % 2, flow_id: k as u32, host_len: 8, port: 53, data_len: 10, delay: 3 }).collect();
            let (mut o0, mut o1) = (o0, o1);
            o1.bind_buf = if bind { 2 } else { 0 };
            o0.dgram_buf = 8;
            o1.dgram_buf = 8;
            let binds = if bind { vec![BindSpec { side: 0, dgram: false, host: b"h".to_vec(), port: 9, delay: 4 }] } else { vec![] };
            let mut bp = BindPolicy::default();
            bp.enabled = bind;
            bp.answers = vec![BindAnswer::Accept];
            Case {
                opts: [o0, o1],
                cap: [c0, c1],
                streams,
                dgrams,
                dg_readers: [DgReader::Eager, DgReader::Eager],
                binds,
                bind_policy: [BindPolicy::default(), bp],
                schedule,
                ..Case::default()
            }
        },
    )
}

pub fn c04(ctx: &Ctx, rep: &mut Report) {
    rep.rule = "(a) every accepted Options pair: writers send bursts of 1-5 windows and shut down, every reader reads to EOF, acceptors accept everything; at quiescence every task must have finished and every byte must have been read. \
                The complete 64x64 matrix of (rwnd,threshold) pairs over {1,2,3,4,5,8,16,64} is enumerated once per run, plus random workloads. (b) the same with a victim stream whose reader is absent; all other streams, later opens, datagrams and a bind request must complete. \
                Non-trivial = (a) a burst longer than the peer's window with differing (rwnd,thr) pairs, (b) the victim's writer blocked while other traffic ran. Distinct = distinct case value."
        .into();
    rep.assumptions = sim_assumptions();
    ctx.enumerate(rep, "matrix", 64 * 64, 1000, matrix_case, run_c04a);
    let sh = Shape { max_streams: 3, max_wops: 10, allow_empty: true, allow_drop: false, complete: true, small_windows: false, max_sched: 400 };
    // (the retry budget for flow ids is part of the configuration too: 1 is accepted by the options API and, with ids that do not
    // collide, must be as good as any other value)
    ctx.prop(rep, "progress", ctx.tier.pick(50_000, 2_000_000), 200, || (stream_workload(sh), 1usize..=3, 1usize..=3).prop_map(|(mut c, r0, r1)| {
        if c.rng[0].is_empty() && c.rng[1].is_empty() {
            c.opts[0].retries = r0;
            c.opts[1].retries = r1;
        }
        c
    }), run_c04a);
    ctx.prop(rep, "victim", ctx.tier.pick(40_000, 1_500_000), 200, victim_workload, run_c04b);
    // counts far above the generated ones: thousands of streams open on one connection at the same time (a busy server side);
    // every request must be granted while the accepting application keeps accepting
    const MANY: [usize; 4] = [600, 4200, 2500, 9000];
    ctx.enumerate(rep, "progress-many-streams", 4, 2, |i| {
        let n = MANY[(i % 4) as usize];
        let streams = (0..n)
            .map(|k| StreamSpec {
                side: if i >= 2 { k % 2 } else { 0 },
                port: 9,
                pad: vec![],
                delay: 0,
                park: None,
                cancel: None,
                ends: [EndScript { w: vec![WOp::Write(1), WOp::Park(1), WOp::Shutdown], r: vec![ROp::ToEof(8)] }, EndScript { w: vec![WOp::Park(1), WOp::Shutdown], r: vec![ROp::ToEof(8)] }],
            })
            .collect();
        let o = OptsSpec { rwnd: 2, thr: 1, stream_buf: 16, ..OptsSpec::default() };
        Case { opts: [o.clone(), o], streams, events: vec![RawEvent { when: Trigger::Quiescent, what: What::Wake(1) }], step_bound: 8_000_000, ..Case::default() }
    }, |case| {
        let run = run_case(case);
        if !run.quiescent {
            return inconclusive(&run);
        }
        let a = Analysis::new(case, &run);
        let failed: Vec<(usize, String)> = a.streams.iter().enumerate().filter_map(|(i, s)| if s.open_ok_at.is_none() { Some((i, s.open_err.clone().unwrap_or_else(|| "pending".into()))) } else { None }).collect();
        if let Some((i, e)) = failed.first() {
            return Outcome::violation("c04-stream-request-refused", format!("{} streams requested on one connection while the accepting application keeps accepting: {} requests were not granted, the first being request {i}: {e}", case.streams.len(), failed.len()));
        }
        if let Err((sig, msg)) = progress_verdict(case, &run, None) {
            return Outcome::violation(sig, msg);
        }
        Outcome::pass(true, vec!["thousands-of-streams-open-at-once"])
    });
    // very large writes against a reader that starts late: every write must still complete and every byte arrive
    ctx.enumerate(rep, "progress-large-writes", LARGE_WRITE_LAG_CASES, 4, large_write_lag_case, |case| {
        let mut o = run_c04a(case);
        o.classes.push("writes-64KiB-to-3MiB-lagging-reader");
        o.nontrivial = true;
        o
    });
    // progress through the bridge (the way every TCP entry point writes into a stream): a local side with data ready - up to
    // 64 MiB at once - and a peer application that keeps reading must see every byte and the end-of-stream
    let bridged_progress = |case: &Case| -> Outcome {
        let run = run_case(case);
        if !run.quiescent {
            return inconclusive(&run);
        }
        let a = Analysis::new(case, &run);
        if a.conn_end_at.is_some() {
            return Outcome::violation("c04-connection-ended", format!("the connection ended although nothing failed: {}", a.ctx(10)));
        }
        if let Err((sig, msg)) = a.integrity() {
            return Outcome::violation(sig, msg);
        }
        let b = &case.bridges[0];
        let bend = b.end as usize;
        let local_total: usize = b.read.iter().take_while(|x| !matches!(x, LR::PendingForever | LR::Err)).map(|x| if let LR::Chunk(n) = x { (*n).max(1) as usize } else { 0 }).sum();
        let local_ends = b.read.iter().any(|x| matches!(x, LR::Eof)) && !b.read.iter().any(|x| matches!(x, LR::PendingForever | LR::Err));
        let peer = &a.streams[0].ends[1 - bend];
        let reads_to_eof = case.streams[0].ends[1 - bend].r.iter().any(|o| matches!(o, ROp::ToEof(_)));
        // (a failing local side ends the bridge with an error and aborts the stream: outside "keeps reading / keeps working")
        let local_failed = run.app_events().any(|(_, e)| matches!(e, AppEv::LocalErr { .. } | AppEv::BridgeDone { result: Err(_), .. }));
        if reads_to_eof && local_ends && peer.dropped_at.is_none() && !local_failed {
            if peer.total_read() != local_total {
                return Outcome::violation("c04-bridged-bytes-missing", format!("the local side produced {local_total} bytes and ended, the peer application keeps reading but only {} bytes became readable; blocked tasks {:?}; tail: {}", peer.total_read(), run.blocked_tasks(), a.ctx(10)));
            }
            if peer.eof_at.is_none() {
                return Outcome::violation("c04-bridged-no-eof", format!("all {local_total} bytes arrived but the end-of-stream of the local side never reached the reading peer; tail: {}", a.ctx(10)));
            }
            return Outcome::pass(true, vec!["bridged-progress"]);
        }
        Outcome::pass(false, vec!["bridged-other"])
    };
    ctx.prop(rep, "progress-bridged", ctx.tier.pick(30_000, 1_000_000), 300, || with_keepalive(super::bridge::c13_case()), bridged_progress);
    ctx.enumerate(rep, "progress-bridged-burst", super::bridge::BURST_CASES, 2, super::bridge::burst_case, bridged_progress);
}

// ---------------------------------------------------------------- C05

pub fn run_c05(case: &Case) -> Outcome {
    let run = run_case(case);
    if !run.quiescent {
        return inconclusive(&run);
    }
    let a = Analysis::new(case, &run);
    if let Err((sig, msg)) = a.end_of_stream() {
        return Outcome::violation(sig, format!("{msg} | tail: {}", a.ctx(14)));
    }
    let (mut cl, ..) = common_classes(case, &a);
    // half-close followed by >= 1 byte in the opposite direction
    let mut half = false;
    for s in &a.streams {
        for end in 0..2 {
            if let Some(sd) = s.ends[end].shutdown_at {
                // bytes read by this end after its own shutdown
                let before = s.ends[end].reads.iter().take_while(|(i, _)| *i < sd).last().map(|x| x.1).unwrap_or(0);
                if s.ends[end].total_read() > before {
                    half = true;
                }
            }
        }
    }
    if half {
        cl.push("half-close-then-data");
    }
    let aborted = a.streams.iter().any(|s| s.ends.iter().any(|e| e.dropped_at.is_some() && e.shutdown_at.is_none()));
    if aborted {
        cl.push("abort");
    }
    let delivered_empty = has_empty_write(case) && a.streams.iter().any(|s| s.ends.iter().any(|e| e.empty_writes > 0));
    Outcome::pass(delivered_empty || half, cl)
}

pub fn c05(ctx: &Ctx, rep: &mut Report) {
    rep.rule = "per-stream histories over {write(len>=0), vectored write (incl. all-empty), shutdown, drop, read, fill_buf/consume, read-to-EOF} on both ends in all close orders, interleaved with deliveries by a generated schedule; \
                oracle: EOF only after the peer shut down/dropped (or the connection ended) and after all bytes it wrote before; writes after local shutdown / processed peer abort fail with BrokenPipe; no Push after Finish on the wire; \
                no write error while only the peer half-closed. Non-trivial = a zero-length write was performed, or a half-close followed by >=1 byte in the opposite direction. Distinct = distinct case value."
        .into();
    rep.assumptions = sim_assumptions();
    let sh = Shape { max_streams: 3, max_wops: 8, allow_empty: true, allow_drop: true, complete: false, small_windows: true, max_sched: 400 };
    ctx.prop(rep, "eos", ctx.tier.pick(80_000, 3_000_000), 300, || stream_workload(sh), run_c05);
    // end-of-stream of a stream that reuses the flow id of a finished stream whose handle is still held (see C02, C06)
    ctx.prop(rep, "eos-id-reuse-held-handle", ctx.tier.pick(10_000, 300_000), 0, super::conn::finished_handle_case, super::conn::run_c06_stale);
    // windows far above the generated ones: W frames written into an idle reader's advertised window, then end-of-stream
    ctx.enumerate(rep, "eos-large-window", LARGE_WINDOW_CASES, 4, large_window_case, |case| {
        let mut o = run_c05(case);
        o.classes.push("window-300-to-70000");
        o.nontrivial = true;
        o
    });
    // one end driven by the CopyBidirectional bridge (what every TCP entry point does): its local end-of-stream is the shutdown,
    // the bytes it took from the local side are the writes
    ctx.prop(rep, "eos-bridged", ctx.tier.pick(30_000, 1_000_000), 300, || with_keepalive(super::bridge::c13_case()), |case| {
        let mut o = run_c05(case);
        o.classes.push("bridged-end");
        o
    });
    // the same histories with the connection ending at a generated step (handle dropped on either side, or Close from the peer):
    // data that reached the endpoint must still be readable before end-of-stream
    ctx.prop(
        rep,
        "eos-connection-end",
        ctx.tier.pick(40_000, 1_500_000),
        200,
        || {
            (stream_workload(sh), 0u32..160, 0usize..4).prop_map(|(mut c, step, kind)| {
                let what = match kind {
                    0 => What::DropMux { side: 0 },
                    1 => What::DropMux { side: 1 },
                    2 => What::Inject { from: 1, msg: RawMsg::Close },
                    _ => What::Inject { from: 0, msg: RawMsg::Close },
                };
                c.events.push(RawEvent { when: Trigger::FromStep(step), what });
                c
            })
        },
        |c| {
            let mut o = run_c05(c);
            o.classes.push("connection-ended");
            o
        },
    );
    // directed family: write/empty-write/write, in every position, all four write flavours
    ctx.enumerate(rep, "empty-write-directed", 4 * 3 * 2, 10, |i| {
        let flavour = i % 4;
        let pos = (i / 4) % 3;
        let side = (i / 12) as usize;
        let empty = match flavour { 0 => WOp::Write(0), 1 => WOp::WriteV(vec![]), 2 => WOp::WriteV(vec![0]), _ => WOp::WriteV(vec![0, 0]) };
        let mut w = vec![WOp::Write(3), WOp::Write(3)];
        w.insert(pos as usize, empty);
        w.push(WOp::Shutdown);
        Case {
            streams: vec![StreamSpec { side, port: 7, pad: vec![], delay: 0, park: None, cancel: None, ends: [EndScript { w, r: vec![ROp::ToEof(64)] }, EndScript { w: vec![WOp::Shutdown], r: vec![ROp::ToEof(64)] }] }],
            ..Case::default()
        }
    }, |c| {
        let o = run_c05(c);
        if matches!(o.verdict, vf_common::Verdict::Pass) {
            // additionally all six bytes must arrive
            let run = run_case(c);
            let a = Analysis::new(c, &run);
            if a.streams[0].ends[1].total_read() != 6 || a.streams[0].ends[1].eof_at.is_none() {
                return Outcome::violation("c05-empty-write-data-lost", format!("peer read {} of 6 bytes around an empty write; tail: {}", a.streams[0].ends[1].total_read(), a.ctx(10)));
            }
        }
        o
    });
}

pub fn sim_assumptions() -> Vec<String> {
    vec![
        "simnet: real penguin_mux endpoints through the public API; in-memory WebSocket that is reliable and ordered per direction; single-threaded executor, so interleavings are at task-poll / message-delivery granularity (atomic-level races are C12)".into(),
        "wire events are decoded with the independent codec vf-ref::frame".into(),
        "quiescence (no runnable task, nothing in flight, no pending harness event) with an unmet obligation is a stall; hitting the step bound is reported as inconclusive".into(),
        "production build profile (debug assertions off)".into(),
    ]
}
