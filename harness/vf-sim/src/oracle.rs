//! History oracles shared by the simnet properties. All of them are folds over the wire/app log.
use crate::engine::*;
use crate::run::RunResult;
use crate::world::*;
use std::collections::{BTreeMap, HashMap};
use vf_ref::frame::RFrame;

pub type V = (String, String); // (signature, message)

#[derive(Clone, Debug, Default)]
pub struct EndInfo {
    /// (event index, cumulative bytes accepted by successful writes)
    pub writes: Vec<(usize, usize)>,
    pub nonempty_writes: usize,
    pub empty_writes: usize,
    pub vectored_writes: usize,
    /// (event index, cumulative bytes read)
    pub reads: Vec<(usize, usize)>,
    /// (event index, exposed-upto offset) from fill_buf
    pub exposed: Vec<(usize, usize)>,
    pub eof_at: Option<usize>,
    pub shutdown_at: Option<usize>,
    pub dropped_at: Option<usize>,
    /// index of the WriteBlocked / ReadBlocked event of an operation that has not completed since
    pub write_pending_since: Option<usize>,
    pub read_pending_since: Option<usize>,
    pub write_errs: Vec<(usize, String)>,
    pub read_errs: Vec<(usize, String)>,
    pub blocked: bool,
}

impl EndInfo {
    pub fn written_before(&self, idx: usize) -> usize {
        self.writes.iter().take_while(|(i, _)| *i < idx).last().map(|x| x.1).unwrap_or(0)
    }
    pub fn total_written(&self) -> usize {
        self.writes.last().map(|x| x.1).unwrap_or(0)
    }
    pub fn total_read(&self) -> usize {
        self.reads.last().map(|x| x.1).unwrap_or(0)
    }
}

#[derive(Clone, Debug, Default)]
pub struct StreamInfo {
    pub open_ok_at: Option<usize>,
    pub open_err: Option<String>,
    pub accepted_at: Option<usize>,
    pub accepted_host_port: Option<(Vec<u8>, u16)>,
    pub flow_id: Option<u32>,
    pub connects: Vec<(usize, u32)>,
    pub ends: [EndInfo; 2],
}

pub struct Analysis<'a> {
    pub case: &'a Case,
    pub run: &'a RunResult,
    pub streams: Vec<StreamInfo>,
    /// first index at which the connection is known to be ending (fault, drop, close, task exit)
    pub conn_end_at: Option<usize>,
    pub healthy: bool,
}

pub fn side_of_end(spec: &StreamSpec, end: usize) -> Side {
    if end == 0 { spec.side } else { 1 - spec.side }
}

impl<'a> Analysis<'a> {
    pub fn new(case: &'a Case, run: &'a RunResult) -> Self {
        register_verbatim(case);
        let mut streams = vec![StreamInfo::default(); case.streams.len()];
        let mut conn_end_at = None;
        for (idx, st) in run.events.iter().enumerate() {
            match &st.ev {
                Ev::Sent { side, msg: WMsg::Frame(RFrame::Connect { id, host, .. }), .. } => {
                    if let Some(i) = parse_tag(host) {
                        if i < streams.len() && case.streams[i].side == *side {
                            streams[i].connects.push((idx, *id));
                        }
                    }
                }
                Ev::Sent { msg: WMsg::Close, .. } | Ev::Recv { msg: WMsg::Close, .. } | Ev::RecvEnd { .. } | Ev::Fault(_) | Ev::TaskExit { .. } | Ev::SinkClosed { .. } | Ev::SinkErrorSeen { .. } => {
                    conn_end_at.get_or_insert(idx);
                }
                Ev::Recv { msg: WMsg::Invalid(_), .. } => {
                    conn_end_at.get_or_insert(idx);
                }
                Ev::App(a) => match a {
                    AppEv::MuxDropped { .. } => {
                        conn_end_at.get_or_insert(idx);
                    }
                    AppEv::OpenOk { stream } => {
                        let s = &mut streams[*stream];
                        s.open_ok_at = Some(idx);
                        s.flow_id = s.connects.last().map(|c| c.1);
                    }
                    AppEv::OpenErr { stream, err } => streams[*stream].open_err = Some(err.clone()),
                    AppEv::Accepted { stream: Some(i), host, port, .. } => {
                        if *i < streams.len() {
                            streams[*i].accepted_at = Some(idx);
                            streams[*i].accepted_host_port = Some((host.clone(), *port));
                        }
                    }
                    AppEv::WriteOk { stream, end, n, vectored, empty } if *stream < streams.len() => {
                        let e = &mut streams[*stream].ends[*end];
                        e.write_pending_since = None;
                        let tot = e.total_written() + n;
                        e.writes.push((idx, tot));
                        if *empty {
                            e.empty_writes += 1;
                        } else {
                            e.nonempty_writes += 1;
                        }
                        if *vectored {
                            e.vectored_writes += 1;
                        }
                    }
                    AppEv::WriteBlocked { stream, end } if *stream < streams.len() => {
                        streams[*stream].ends[*end].blocked = true;
                        streams[*stream].ends[*end].write_pending_since = Some(idx);
                    }
                    AppEv::ReadBlocked { stream, end } if *stream < streams.len() => streams[*stream].ends[*end].read_pending_since = Some(idx),
                    AppEv::WriteErr { stream, end, kind } if *stream < streams.len() => {
                        streams[*stream].ends[*end].write_pending_since = None;
                        streams[*stream].ends[*end].write_errs.push((idx, kind.clone()));
                    }
                    AppEv::ReadOk { stream, end, n } if *stream < streams.len() => {
                        let e = &mut streams[*stream].ends[*end];
                        e.read_pending_since = None;
                        let tot = e.total_read() + n;
                        e.reads.push((idx, tot));
                    }
                    AppEv::Note(s) if s.starts_with("exposed ") => {
                        let p: Vec<&str> = s.split(' ').collect();
                        if let (Ok(st), Ok(en), Ok(off)) = (p[1].parse::<usize>(), p[2].parse::<usize>(), p[3].parse::<usize>()) {
                            if st < streams.len() {
                                streams[st].ends[en].exposed.push((idx, off));
                            }
                        }
                    }
                    AppEv::ReadEof { stream, end } if *stream < streams.len() => {
                        streams[*stream].ends[*end].read_pending_since = None;
                        streams[*stream].ends[*end].eof_at = Some(idx);
                    }
                    AppEv::ReadErr { stream, end, kind } if *stream < streams.len() => {
                        streams[*stream].ends[*end].read_pending_since = None;
                        streams[*stream].ends[*end].read_errs.push((idx, kind.clone()));
                    }
                    AppEv::Shutdown { stream, end } if *stream < streams.len() => {
                        streams[*stream].ends[*end].shutdown_at.get_or_insert(idx);
                    }
                    AppEv::Dropped { stream, end } if *stream < streams.len() => {
                        streams[*stream].ends[*end].dropped_at.get_or_insert(idx);
                        streams[*stream].ends[*end].write_pending_since = None;
                        streams[*stream].ends[*end].read_pending_since = None;
                    }
                    _ => {}
                },
                _ => {}
            }
        }
        let healthy = conn_end_at.is_none() && run.quiescent;
        Analysis { case, run, streams, conn_end_at, healthy }
    }

    pub fn ctx(&self, n: usize) -> String {
        if std::env::var("VERIF_TRACE").is_ok() {
            return self.run.tail(100_000).replace("; ", "\n   ");
        }
        self.run.tail(n)
    }

    // ------------------------------------------------------------ C02
    /// a message larger than all data the case ever wrote can only contain bytes nobody wrote
    pub fn oversize(&self) -> Result<(), V> {
        if let Some((side, len)) = self.run.oversize {
            return Err(("c02-more-bytes-on-the-wire-than-written".into(), format!("side {side} put a single message of {len} bytes on the wire; all applications of this case together wrote, relayed and sent at least {} bytes less than that", crate::engine::MAX_SIM_MESSAGE)));
        }
        Ok(())
    }

    pub fn integrity(&self) -> Result<(), V> {
        self.oversize()?;
        for (st, a) in self.run.app_events() {
            match a {
                AppEv::DataMismatch { stream, .. } if *stream >= self.streams.len() => {
                    // a stream opened by the raw peer outside the case description: its content is not modelled
                }
                AppEv::DataMismatch { stream, end, offset, got, want } if *offset == usize::MAX => {
                    return Err((
                        "c02-reader-api-contract".into(),
                        format!("step {st}: stream {stream} end {end}: `poll_for_push` returned {got} although `buf()` then held {want} bytes (documented: the number of bytes read into the buffer, 0 exactly at end-of-stream)"),
                    ));
                }
                AppEv::DataMismatch { stream, end, offset, got, want } => {
                    return Err((
                        "c02-data-mismatch".into(),
                        format!("step {st}: stream {stream} end {end} read byte {got:#04x} at offset {offset}, the peer wrote {want:#04x} there (corruption, reordering, duplication or cross-talk)"),
                    ));
                }
                AppEv::ReadErr { stream, end, kind } => {
                    return Err(("c02-read-error".into(), format!("step {st}: read on stream {stream} end {end} failed with {kind}")));
                }
                _ => {}
            }
        }
        for (i, s) in self.streams.iter().enumerate() {
            for end in 0..2 {
                let rd = &s.ends[end];
                let wr = &s.ends[1 - end];
                let writer_is_raw = self.case.raw.is_some() && side_of_end(&self.case.streams[i], 1 - end) == 1;
                for (idx, tot) in &rd.reads {
                    if writer_is_raw {
                        break;
                    }
                    let w = wr.written_before(*idx);
                    if *tot > w {
                        return Err(("c02-read-ahead".into(), format!("stream {i} end {end}: {tot} bytes read but only {w} bytes accepted by completed writes at that moment")));
                    }
                }
                if let (Some(eof), Some(sd)) = (rd.eof_at, wr.shutdown_at) {
                    // clean shutdown + reader at EOF => equality (only meaningful if nothing aborted the flow or the connection)
                    let aborted = wr.dropped_at.is_some_and(|d| d < eof) && false;
                    let conn_dead = self.conn_end_at.is_some_and(|c| c < eof);
                    let reader_dropped = rd.dropped_at.is_some();
                    let window_reset = false;
                    if sd < eof && !aborted && !conn_dead && !reader_dropped && !window_reset {
                        let w = wr.written_before(sd);
                        if rd.total_read() != w {
                            return Err((
                                "c02-eof-short".into(),
                                format!("stream {i}: writer end {} accepted {w} bytes and shut down cleanly, reader end {end} reached EOF after {} bytes", 1 - end, rd.total_read()),
                            ));
                        }
                    }
                }
            }
        }
        Ok(())
    }

    // ------------------------------------------------------------ C03
    /// returns (number of times a sender hit zero credit, flows checked)
    pub fn credit(&self) -> Result<(u32, u32), V> {
        self.oversize()?;
        #[derive(Default, Clone)]
        struct Gen {
            opener: Side,
            win: [Option<u32>; 2], // window advertised BY side
            hs_sent: bool,
            hs_recv: bool,
            push_sent: [u32; 2],
            ack_recv: [u64; 2],
            ack_sent: [u64; 2],
            /// payload sizes of Push frames received by side
            recv_sizes: [Vec<usize>; 2],
            stream: Option<usize>,
            established: bool,
        }
        let raw = self.case.raw.is_some();
        // stream lookup by (flow id) at the time of the connect
        let mut by_connect: HashMap<usize, usize> = HashMap::new(); // event idx of Connect -> stream
        for (i, s) in self.streams.iter().enumerate() {
            for (idx, _) in &s.connects {
                by_connect.insert(*idx, i);
            }
        }
        let mut gens: BTreeMap<u32, Gen> = BTreeMap::new();
        let mut zero_hits = 0u32;
        let mut flows = 0u32;
        // app progress per (stream,end): consumed bytes and exposed offsets as of now
        let mut consumed: HashMap<(usize, usize), usize> = HashMap::new();
        let mut exposed: HashMap<(usize, usize), usize> = HashMap::new();
        for (idx, st) in self.run.events.iter().enumerate() {
            match &st.ev {
                Ev::App(AppEv::ReadOk { stream, end, n }) => {
                    *consumed.entry((*stream, *end)).or_default() += n;
                }
                Ev::App(AppEv::Note(s)) if s.starts_with("exposed ") => {
                    let p: Vec<&str> = s.split(' ').collect();
                    if let (Ok(a), Ok(b), Ok(c)) = (p[1].parse::<usize>(), p[2].parse::<usize>(), p[3].parse::<usize>()) {
                        let e = exposed.entry((a, b)).or_default();
                        *e = (*e).max(c);
                    }
                }
                Ev::Sent { side, msg: WMsg::Frame(f), lost: _ } => match f {
                    RFrame::Connect { id, rwnd, .. } => {
                        let mut g = Gen { opener: *side, ..Default::default() };
                        g.win[*side] = Some(*rwnd);
                        g.stream = by_connect.get(&idx).copied();
                        gens.insert(*id, g);
                    }
                    RFrame::Acknowledge { id, n } => {
                        if let Some(g) = gens.get_mut(id) {
                            if *side != g.opener && !g.hs_sent {
                                g.hs_sent = true;
                                g.win[*side] = Some(*n);
                                g.established = true;
                                flows += 1;
                            } else if g.established {
                                g.ack_sent[*side] += u64::from(*n);
                                if raw && *side == 1 {
                                    continue;
                                }
                                // (3) never acknowledge frames the application has not pulled
                                if let Some(si) = g.stream {
                                    let end = if *side == g.opener { 0 } else { 1 };
                                    let cons = consumed.get(&(si, end)).copied().unwrap_or(0);
                                    let upto = cons.max(exposed.get(&(si, end)).copied().unwrap_or(0));
                                    // frames with start offset < upto have been pulled
                                    let mut start = 0usize;
                                    let mut pulled = 0u64;
                                    for sz in &g.recv_sizes[*side] {
                                        if start < upto {
                                            pulled += 1;
                                        }
                                        start += sz;
                                    }
                                    if g.ack_sent[*side] > pulled {
                                        return Err((
                                            "c03-ack-unconsumed".into(),
                                            format!(
                                                "flow {id:08x}: side {side} has acknowledged {} frames in total but its application has only pulled {pulled} ({} frames delivered, {cons} bytes consumed)",
                                                g.ack_sent[*side],
                                                g.recv_sizes[*side].len()
                                            ),
                                        ));
                                    }
                                } else if g.ack_sent[*side] > g.recv_sizes[*side].len() as u64 {
                                    return Err(("c03-ack-undelivered".into(), format!("flow {id:08x}: side {side} acknowledged {} frames, only {} delivered", g.ack_sent[*side], g.recv_sizes[*side].len())));
                                }
                            }
                        }
                    }
                    RFrame::Push { id, .. } => {
                        if let Some(g) = gens.get_mut(id) {
                            g.push_sent[*side] += 1;
                            if raw && *side == 1 {
                                continue;
                            }
                            let Some(w) = g.win[1 - *side] else {
                                return Err(("c03-push-before-handshake".into(), format!("flow {id:08x}: side {side} sent a Push before the peer advertised a window")));
                            };
                            let outstanding = i64::from(g.push_sent[*side]) - g.ack_recv[*side] as i64;
                            if outstanding > i64::from(w) {
                                return Err((
                                    "c03-window-overrun".into(),
                                    format!(
                                        "flow {id:08x}: side {side} has {} Push frames on the wire with only {} credits returned; the peer advertised a window of {w}",
                                        g.push_sent[*side], g.ack_recv[*side]
                                    ),
                                ));
                            }
                            if outstanding == i64::from(w) {
                                zero_hits += 1;
                            }
                        }
                    }
                    _ => {}
                },
                Ev::Recv { side, msg: WMsg::Frame(f) } => match f {
                    RFrame::Acknowledge { id, n } => {
                        if let Some(g) = gens.get_mut(id) {
                            if *side == g.opener && !g.hs_recv {
                                g.hs_recv = true;
                            } else {
                                g.ack_recv[*side] += u64::from(*n);
                            }
                        }
                    }
                    RFrame::Push { id, data } => {
                        if let Some(g) = gens.get_mut(id) {
                            g.recv_sizes[*side].push(data.len());
                        }
                    }
                    _ => {}
                },
                _ => {}
            }
        }
        // (2) one write = one Push, at quiescence on a healthy connection; (4) no Reset while both applications hold the stream
        if self.healthy {
            for (i, s) in self.streams.iter().enumerate() {
                let (Some(id), Some(_)) = (s.flow_id, s.open_ok_at) else { continue };
                let Some(g) = gens.get(&id) else { continue };
                if g.stream != Some(i) {
                    continue; // id reused later; accounting per generation is done by the C06 check
                }
                for end in 0..2 {
                    let side = side_of_end(&self.case.streams[i], end);
                    if raw && side == 1 {
                        continue;
                    }
                    let w = s.ends[end].nonempty_writes as u32;
                    // a bridged end coalesces several local chunks into one Push: only the window rule applies there
                    let bridged = self.case.bridges.iter().any(|b| b.stream as usize == i && b.end as usize == end);
                    if bridged {
                        if g.push_sent[side] > w {
                            return Err(("c03-push-count".into(), format!("stream {i} (flow {id:08x}) bridged end {end}: {} Push frames for {w} chunks taken from the local side", g.push_sent[side])));
                        }
                        continue;
                    }
                    if g.push_sent[side] != w {
                        return Err((
                            "c03-push-count".into(),
                            format!("stream {i} (flow {id:08x}) end {end}: {w} successful non-empty writes but {} Push frames on the wire", g.push_sent[side]),
                        ));
                    }
                }
                let nobody_dropped = s.ends[0].dropped_at.is_none() && s.ends[1].dropped_at.is_none();
                // a colliding Connect on the same id is legitimately answered with a Reset on that id
                let connects_on_id = self.run.events.iter().filter(|e| matches!(&e.ev, Ev::Sent { msg: WMsg::Frame(RFrame::Connect { id: c, .. }), .. } if *c == id)).count();
                if nobody_dropped && s.accepted_at.is_some() && connects_on_id == 1 {
                    // only Resets after this stream's Connect concern it (an earlier one on the same id answered something else,
                    // e.g. a rejected bind request that used the id before)
                    let from = s.connects.last().map(|c| c.0).unwrap_or(0);
                    for st in &self.run.events[from..] {
                        if let Ev::Sent { side, msg: WMsg::Frame(RFrame::Reset { id: rid }), .. } = &st.ev {
                            if *rid == id && !(raw && *side == 1) {
                                return Err(("c03-reset-held-flow".into(), format!("stream {i} (flow {id:08x}) was reset by side {side} although both applications still hold it")));
                            }
                        }
                    }
                }
            }
        }
        Ok((zero_hits, flows))
    }

    // ------------------------------------------------------------ C05
    pub fn end_of_stream(&self) -> Result<(), V> {
        for (i, s) in self.streams.iter().enumerate() {
            let spec = &self.case.streams[i];
            for end in 0..2 {
                let me = &s.ends[end];
                let peer = &s.ends[1 - end];
                let my_side = side_of_end(spec, end);
                if let Some(eof) = me.eof_at {
                    let peer_done = [peer.shutdown_at, peer.dropped_at].into_iter().flatten().filter(|x| *x < eof).min();
                    let conn = self.conn_end_at.filter(|c| *c < eof);
                    // a raw peer may have sent Finish/Reset itself
                    let raw_end = self.case.raw.is_some()
                        && self.run.events[..eof].iter().any(|e| matches!(&e.ev, Ev::Sent { side: 1, msg: WMsg::Frame(RFrame::Finish { id } | RFrame::Reset { id }), .. } if Some(*id) == s.flow_id));
                    // window overrun by a raw peer resets the flow locally
                    if peer_done.is_none() && conn.is_none() && !raw_end {
                        return Err((
                            "c05-premature-eof".into(),
                            format!(
                                "stream {i} end {end}: read returned end-of-stream after {} bytes although the peer neither shut down nor dropped the stream and the connection is alive (peer wrote {} bytes, {} empty writes)",
                                me.total_read(),
                                peer.total_written(),
                                peer.empty_writes
                            ),
                        ));
                    }
                    // a peer end driven by the bridge: "written" counts what was taken from its local side, which the bridge (or the
                    // BufStream of the default entry point) may still hold when it ends with an error - only a clean local
                    // end-of-stream of a bridge that did not fail promises that everything taken was sent before the Finish
                    let bridged_peer = self.case.bridges.iter().any(|b| b.stream as usize == i && b.end as usize == 1 - end);
                    let bridge_failed = self.run.app_events().any(|(_, e)| matches!(e, AppEv::BridgeDone { stream, result: Err(_) } if *stream == i));
                    let bridge_excused = bridged_peer && (peer.shutdown_at.is_none() || bridge_failed);
                    if conn.is_none() && !raw_end && !bridge_excused {
                        if let Some(pd) = peer_done {
                            // everything the peer wrote before letting go was on the (ordered, reliable) wire before Finish/Reset
                            let w = peer.written_before(pd);
                            if me.total_read() != w && me.dropped_at.is_none() {
                                return Err((
                                    "c05-eof-before-data".into(),
                                    format!("stream {i} end {end}: end-of-stream after {} bytes, but the peer wrote {w} bytes before it shut down/dropped", me.total_read()),
                                ));
                            }
                        }
                    }
                }
                // at quiescence on a healthy connection: a pending read must have seen the peer's shutdown/abort,
                // a pending write must have seen the peer's abort (a Reset is sent for it)
                if self.healthy && self.case.raw.is_none() && s.open_ok_at.is_some() && s.accepted_at.is_some() {
                    if me.read_pending_since.is_some() && (peer.shutdown_at.is_some() || peer.dropped_at.is_some()) && me.dropped_at.is_none() {
                        return Err((
                            "c05-eof-not-delivered".into(),
                            format!(
                                "stream {i} end {end}: the peer {} the stream, everything is quiescent, but the pending read never returned end-of-stream ({} of {} bytes read)",
                                if peer.shutdown_at.is_some() { "shut down" } else { "dropped (aborted)" },
                                me.total_read(),
                                peer.total_written()
                            ),
                        ));
                    }
                    if me.write_pending_since.is_some() && peer.dropped_at.is_some() && peer.shutdown_at.is_none() && me.dropped_at.is_none() {
                        return Err((
                            "c05-write-hangs-after-abort".into(),
                            format!("stream {i} end {end}: the peer aborted the stream (dropped without shutdown), everything is quiescent, but the blocked write never failed with BrokenPipe"),
                        ));
                    }
                }
                // whatever reached this endpoint for the flow must be readable before end-of-stream, also when the
                // connection is ending (the data was delivered; the statement allows EOF only after it was returned)
                if let (Some(_eof), Some(id), None) = (me.eof_at, s.flow_id, me.dropped_at) {
                    let gen_start = s.connects.last().map(|c| c.0).unwrap_or(0);
                    let mut received = 0usize;
                    let mut closed_locally = false;
                    for e in &self.run.events[gen_start..] {
                        match &e.ev {
                            Ev::Recv { side, msg: WMsg::Frame(RFrame::Push { id: p, data }) } if *side == my_side && *p == id => received += data.len(),
                            Ev::Sent { side, msg: WMsg::Frame(RFrame::Reset { id: r }), .. } if *side == my_side && *r == id => closed_locally = true,
                            Ev::Recv { side, msg: WMsg::Frame(RFrame::Reset { id: r }) } if *side == my_side && *r == id => break,
                            Ev::Sent { side, msg: WMsg::Frame(RFrame::Connect { id: c, .. }), .. } if *c == id && e.step > 0 && *side != self.case.streams[i].side => break,
                            _ => {}
                        }
                    }
                    let reused = self.streams.iter().enumerate().any(|(j, t)| j != i && t.connects.iter().any(|c| c.1 == id));
                    if !closed_locally && !reused && self.case.raw.is_none() && me.total_read() < received {
                        return Err((
                            "c05-delivered-data-lost".into(),
                            format!(
                                "stream {i} end {end}: {received} bytes of Push frames for flow {id:08x} reached this endpoint, but the reader got end-of-stream after {} bytes",
                                me.total_read()
                            ),
                        ));
                    }
                }
                // the connection ended because the PEER's application dropped its Multiplexor while the transport was healthy: everything
                // it had written before (completed writes = frames queued before the drop) is still transmitted before the Close, so
                // end-of-stream here may only come after all of it ("only after every byte the peer wrote before that point")
                if let (Some(eof), None, None) = (me.eof_at, me.dropped_at, self.case.raw.as_ref()) {
                    let peer_side = 1 - my_side;
                    let first_end = self.conn_end_at;
                    let drop_at = self.run.events.iter().position(|e| matches!(&e.ev, Ev::App(AppEv::MuxDropped { side }) if *side == peer_side));
                    let faults = self.case.events.iter().any(|e| matches!(e.what, What::CutSink { .. } | What::CutSource { .. } | What::Blackhole { .. } | What::Inject { msg: RawMsg::Close, .. } | What::Inject { msg: RawMsg::Bytes(_), .. }))
                        || self.run.events.iter().any(|e| matches!(&e.ev, Ev::Fault(_) | Ev::Recv { msg: WMsg::Invalid(_), .. }));
                    if let (Some(d), false) = (drop_at, faults) {
                        // the reader's own endpoint must not have reset the flow, and the drop must be the first sign of the end
                        let own_reset = s.flow_id.is_some_and(|id| self.run.events.iter().any(|e| matches!(&e.ev, Ev::Sent { side, msg: WMsg::Frame(RFrame::Reset { id: r }), .. } if *side == my_side && *r == id)));
                        let reused = s.flow_id.is_some_and(|id| self.streams.iter().enumerate().any(|(j, t)| j != i && t.connects.iter().any(|c| c.1 == id)));
                        let w = peer.written_before(d);
                        if first_end == Some(d) && d < eof && !own_reset && !reused && s.open_ok_at.is_some() && s.accepted_at.is_some() && me.total_read() < w && me.read_errs.is_empty() {
                            return Err((
                                "c05-eof-before-data-at-peer-drop".into(),
                                format!(
                                    "stream {i} end {end}: the peer application completed writes of {w} bytes and then dropped its Multiplexor on a healthy transport; this end read end-of-stream after {} bytes",
                                    me.total_read()
                                ),
                            ));
                        }
                    }
                }
                // (for an end driven by the bridge, "WriteOk" records bytes the bridge TOOK from the local side, which is not a
                // completed stream write: the two clauses about writes that must fail do not apply to it)
                let bridged_end = self.case.bridges.iter().any(|b| b.stream as usize == i && b.end as usize == end);
                // writes after own shutdown must fail
                if let (Some(sd), false) = (me.shutdown_at, bridged_end) {
                    let before = me.written_before(sd);
                    if me.total_written() > before {
                        return Err(("c05-write-after-shutdown".into(), format!("stream {i} end {end}: a non-empty write succeeded after the local shutdown")));
                    }
                }
                // writes after the peer's Reset was processed must fail
                if let Some(id) = s.flow_id {
                    let reset_at = self.run.events.iter().position(|e| matches!(&e.ev, Ev::Recv { side, msg: WMsg::Frame(RFrame::Reset { id: rid }) } if *side == my_side && *rid == id));
                    if let (Some(r), Some(oa)) = (reset_at, s.open_ok_at.or(s.accepted_at)) {
                        if r > oa && !bridged_end && me.total_written() > me.written_before(r) {
                            return Err(("c05-write-after-abort".into(), format!("stream {i} end {end}: a non-empty write succeeded after the peer's Reset had been processed")));
                        }
                    }
                }
                // unexpected write errors (half-close must leave the other direction usable)
                for (idx, kind) in &me.write_errs {
                    let legit = me.shutdown_at.is_some_and(|x| x < *idx)
                        || peer.dropped_at.is_some_and(|x| x < *idx)
                        || me.dropped_at.is_some_and(|x| x < *idx)
                        || self.conn_end_at.is_some_and(|x| x < *idx)
                        || self.case.raw.is_some();
                    if !legit {
                        return Err((
                            "c05-unexpected-write-error".into(),
                            format!("stream {i} end {end}: write failed with {kind} although this end did not shut down, the peer did not abort and the connection is alive (peer shutdown: {})", peer.shutdown_at.is_some()),
                        ));
                    }
                    if kind != "BrokenPipe" && !kind.starts_with("shutdown:") {
                        return Err(("c05-wrong-error-kind".into(), format!("stream {i} end {end}: write failed with {kind}, expected BrokenPipe")));
                    }
                }
            }
            // wire: no Push after Finish from the same side on the same flow generation
            if let Some(id) = s.flow_id {
                let mut fin = [false, false];
                let start = s.connects.last().map(|c| c.0).unwrap_or(0);
                for st in &self.run.events[start..] {
                    if let Ev::Sent { side, msg: WMsg::Frame(f), .. } = &st.ev {
                        match f {
                            RFrame::Connect { id: cid, .. } if *cid == id && st.step > 0 && fin.iter().any(|x| *x) => break,
                            RFrame::Finish { id: fid } if *fid == id => fin[*side] = true,
                            RFrame::Push { id: pid, .. } if *pid == id && fin[*side] && !(self.case.raw.is_some() && *side == 1) => {
                                return Err(("c05-push-after-finish".into(), format!("flow {id:08x}: side {side} transmitted a Push after its Finish")));
                            }
                            _ => {}
                        }
                    }
                }
            }
        }
        Ok(())
    }

    /// Every task finished (used when the generator guarantees that nothing may legitimately block
    /// except the listed perpetual servers).
    pub fn unfinished(&self, allow: impl Fn(&str) -> bool) -> Vec<String> {
        self.run.tasks.iter().filter(|t| !t.2 && !allow(&t.0)).map(|t| t.0.clone()).collect()
    }
}

pub fn perpetual(name: &str) -> bool {
    name.starts_with("accept") || name.starts_with("dgread") || name.starts_with("bindresp") || name.starts_with("mux")
}
